"""Stand-alone replay of known finding C06/dcrm-overlapping-increase.

DisjunctiveConditionsRemover splits a conditional effect `if (b or c): n += 1` into one
conditional effect per disjunct: `if b: n += 1; if c: n += 1`.  When both disjuncts hold the
compiled action increases n twice, the original once, so a compiled plan reaching `n == 2`
maps back to an original plan that only reaches n == 1.  (For assignments the overlap is
harmless.)  A repair has to make the disjuncts mutually exclusive, which needs negated
conjunctions that must themselves be put in DNF again (exponential minterm expansion) - a
redesign of the effect splitting, not a small patch.
Run: /venv/bin/python known/C06_dcrm_overlapping_increase.py   (exit 1 = defect present)
"""
import sys
from unified_planning.shortcuts import *
from unified_planning.engines.compilers import DisjunctiveConditionsRemover
from unified_planning.engines import CompilationKind
from unified_planning.engines.sequential_simulator import UPSequentialSimulator

b, c, n = Fluent("b"), Fluent("c"), Fluent("n", IntType(0, 3))
a = InstantaneousAction("a")
a.add_increase_effect(n, 1, condition=Or(b, c))
pb = Problem("k")
pb.add_fluent(b, default_initial_value=True)
pb.add_fluent(c, default_initial_value=True)
pb.add_fluent(n, default_initial_value=0)
pb.add_action(a)
pb.add_goal(Equals(n, 2))
cp = DisjunctiveConditionsRemover().compile(pb, CompilationKind.DISJUNCTIVE_CONDITIONS_REMOVING).problem
so, sc = UPSequentialSimulator(pb), UPSequentialSimulator(cp)
s_o = so.apply(so.get_initial_state(), a, ())
s_c = sc.apply(sc.get_initial_state(), cp.actions[0], ())
vo, vc = s_o.get_value(n()).constant_value(), s_c.get_value(cp.fluent("n")()).constant_value()
print("n after one step: original", vo, "compiled", vc)
sys.exit(1 if vo != vc else 0)
