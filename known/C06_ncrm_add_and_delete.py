"""Stand-alone replay (no explorer) of known finding C06/ncrm-add-and-delete.

NegativeConditionsRemover adds to every assignment of a Boolean fluent b the complementary
assignment of not_b.  When ONE action both deletes and adds b (b := true and b := false in
the same firing set) the documented semantics makes b true (add after delete), and the same
rule makes not_b true as well, so the compiled state has b and not_b both true.  A plan valid
for the compiled problem then maps back to a plan whose second step is inapplicable in the
original (the invariant (not b) or p(o1) is violated).
Run: /venv/bin/python known/C06_ncrm_add_and_delete.py   (exit 1 = defect present)
"""
import sys
from unified_planning.shortcuts import *
from unified_planning.engines.compilers import NegativeConditionsRemover
from unified_planning.engines import CompilationKind
from unified_planning.engines.sequential_simulator import UPSequentialSimulator

T = UserType("T")
b, p = Fluent("b"), Fluent("p", BoolType(), o=T)
o1 = Object("o1", T)
a1 = InstantaneousAction("a1", x=T)
a1.add_effect(p(a1.x), True)
a2 = InstantaneousAction("a2")
a2.add_effect(b, True)
a2.add_effect(b, False)
pb = Problem("k")
pb.add_fluent(b, default_initial_value=False)
pb.add_fluent(p, default_initial_value=False)
pb.add_object(o1)
pb.add_action(a1)
pb.add_action(a2)
pb.add_goal(p(o1))
pb.add_state_invariant(Or(Not(b), p(o1)))
res = NegativeConditionsRemover().compile(pb, CompilationKind.NEGATIVE_CONDITIONS_REMOVING)
cp = res.problem
sim_c, sim_o = UPSequentialSimulator(cp), UPSequentialSimulator(pb)
s = sim_c.get_initial_state()
s = sim_c.apply(s, cp.action("a2"), ())
ok_compiled = s is not None and sim_c.apply(s, cp.action("a1"), (ObjectExp(o1),)) is not None
s = sim_o.get_initial_state()
ok_original = sim_o.apply(s, a2, ()) is not None
print("compiled accepts [a2, a1(o1)]:", ok_compiled, "| original accepts a2:", ok_original)
sys.exit(1 if (ok_compiled and not ok_original) else 0)
