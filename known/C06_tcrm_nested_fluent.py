"""Stand-alone replay of known finding C06/tcrm-nested-fluent.

TrajectoryConstraintsRemover regresses a constraint through an action by SYNTACTIC matching of
the constraint's fluent expressions against the action's effect targets.  With a fluent nested
in a fluent argument, always(not p(r(o2))) and r(o2) = o1, the effect p(o1) := true changes
the truth of p(r(o2)) but is not recognised (p(o1) is not the expression p(r(o2))), so the
compiled action a1_o1 gets no guard: a compiled plan maps back to a plan that violates the
invariant in the original.  A repair needs alias-aware regression ((r(o2) == o1) or ...),
i.e. a redesign of _gamma/_regression.
Run: /venv/bin/python known/C06_tcrm_nested_fluent.py   (exit 1 = defect present)
"""
import sys
from unified_planning.shortcuts import *
from unified_planning.engines.compilers import TrajectoryConstraintsRemover
from unified_planning.engines import CompilationKind
from unified_planning.engines.sequential_simulator import UPSequentialSimulator

T = UserType("T")
p, r = Fluent("p", BoolType(), o=T), Fluent("r", T, o=T)
o1, o2 = Object("o1", T), Object("o2", T)
a1 = InstantaneousAction("a1", x=T)
a1.add_effect(p(a1.x), True)
pb = Problem("k")
pb.add_fluent(p, default_initial_value=False)
pb.add_fluent(r, default_initial_value=o1)
pb.add_objects([o1, o2])
pb.add_action(a1)
pb.add_goal(p(o1))
pb.add_state_invariant(Not(p(r(o2))))
cp = TrajectoryConstraintsRemover().compile(pb, CompilationKind.TRAJECTORY_CONSTRAINTS_REMOVING).problem
so, sc = UPSequentialSimulator(pb), UPSequentialSimulator(cp)
ok_o = so.apply(so.get_initial_state(), a1, (ObjectExp(o1),)) is not None
s = sc.apply(sc.get_initial_state(), cp.action("a1_o1"), ())
ok_c = s is not None and sc.is_goal(s)
print("original accepts a1(o1):", ok_o, "| compiled [a1_o1] is a valid plan:", ok_c)
sys.exit(1 if (ok_c and not ok_o) else 0)
