"""Stand-alone replay of known finding C10/ma-kind: MultiAgentProblem.kind ignores action
parameter types, fluent parameter types, object types, fluent-dependent assignments and
everything about durative actions except CONTINUOUS_TIME.
exit 1 = defect present.  (A candidate repair is known/C10_ma_kind_candidate.diff; it is not
applied because it enlarges the kind of existing multi-agent problems beyond what the
multi-agent compilers declare as supported, i.e. it changes which problems they accept.)"""
import sys
from unified_planning.shortcuts import *
from unified_planning.model.multi_agent import MultiAgentProblem, Agent

pb = MultiAgentProblem("ma")
ag = Agent("a1", pb)
b = Fluent("b")
ag.add_fluent(b, default_initial_value=False)
act = InstantaneousAction("act", flag=BoolType())
act.add_effect(b, act.flag)
ag.add_action(act)
pb.add_agent(ag)
k = pb.kind
print(sorted(k.features))
sys.exit(0 if k.has_bool_action_parameters() else 1)
