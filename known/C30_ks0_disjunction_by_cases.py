# C30: Ks0Compiler is incomplete for a disjunctive (or existential) precondition that holds through
# different disjuncts in different possible initial states.
from unified_planning.shortcuts import *
from unified_planning.engines.compilers import Ks0Compiler
from unified_planning.engines import CompilationKind
from unified_planning.engines.sequential_simulator import UPSequentialSimulator
from unified_planning.model import UPState

p = Problem("disj")
x, y, g = Fluent("x"), Fluent("y"), Fluent("g")
for f in (x, y, g):
    p.add_fluent(f, default_initial_value=False)
a = InstantaneousAction("a")
a.add_precondition(Or(x, y))
a.add_effect(g, True)
p.add_action(a)
p.add_goal(g)
s1 = UPState({x(): TRUE(), y(): FALSE(), g(): FALSE()}, p)
s2 = UPState({x(): FALSE(), y(): TRUE(), g(): FALSE()}, p)

# [a] is conformant: applicable in s1 and in s2, reaches g in both
sim = UPSequentialSimulator(p)
print("plan [a] from s1/s2 reaches goal:", [sim.is_goal(sim.apply(s, a, ())) for s in (s1, s2)])

res = Ks0Compiler([s1, s2]).compile(p, CompilationKind.CONFORMANT_TO_CLASSICAL)
cp = res.problem
print("compiled actions:", [(c.name, [str(q) for q in c.preconditions]) for c in cp.actions])
# exhaustive search of the compiled problem
csim = UPSequentialSimulator(cp)
init = csim.get_initial_state()
seen, frontier, solvable = set(), [init], False
from unified_planning.model.fluent import get_all_fluent_exp
fexps = [fe for f in cp.fluents for fe in get_all_fluent_exp(cp, f)]
key = lambda st: tuple(st.get_value(fe).bool_constant_value() for fe in fexps)
seen.add(key(init))
while frontier and not solvable:
    st = frontier.pop()
    if csim.is_goal(st):
        solvable = True
    for act in cp.actions:
        nxt = csim.apply(st, act, ())
        if nxt is not None and key(nxt) not in seen:
            seen.add(key(nxt)); frontier.append(nxt)
print("compiled problem solvable:", solvable, "(%d reachable states)" % len(seen))
