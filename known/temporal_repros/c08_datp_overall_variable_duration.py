from unified_planning.shortcuts import *
from unified_planning.engines.compilers.durative_actions_to_processes import DurativeActionToProcesses
b = Fluent("b")
d = DurativeAction("d"); d.set_closed_duration_interval(1, 3)
d.add_condition(ClosedTimeInterval(StartTiming(), EndTiming()), b)      # plain over-all condition
d.add_effect(EndTiming(), b, False)
p = Problem("p"); p.add_fluent(b, default_initial_value=True); p.add_action(d); p.add_goal(Not(b))
print(DurativeActionToProcesses.supports(p.kind))                        # True
DurativeActionToProcesses().compile(p, CompilationKind.DURATIVE_ACTIONS_TO_PROCESSES)   # AssertionError
