from fractions import Fraction
from unified_planning.shortcuts import *
from unified_planning.plans import TimeTriggeredPlan, PlanKind
from unified_planning.plans.stn_plan import STNPlanNode
from unified_planning.model import TimepointKind
from unified_planning.engines.results import ValidationResultStatus

# (a) STNPlanNode.__post_init___ (3 underscores) never runs
print("malformed nodes accepted:", STNPlanNode(TimepointKind.START), "|", STNPlanNode(TimepointKind.GLOBAL_START, None))

# (b) C26: fluent-dependent duration
n = Fluent("n", IntType()); g = Fluent("g")
inc = InstantaneousAction("inc"); inc.add_increase_effect(n, 1)
d = DurativeAction("d"); d.set_closed_duration_interval(Plus(n, 1), Plus(n, 2)); d.add_effect(EndTiming(), g, True)
p = Problem("p"); p.add_fluent(n, default_initial_value=0); p.add_fluent(g, default_initial_value=False)
p.add_action(inc); p.add_action(d); p.add_goal(g)
plan = TimeTriggeredPlan([(Fraction(0), inc(), None), (Fraction(1), d(), Fraction(3))])
with PlanValidator(problem_kind=p.kind, plan_kind=plan.kind) as v:
    print("original:", v.validate(p, plan).status)
    stn = plan.convert_to(PlanKind.STN_PLAN, p)
    back = stn.convert_to(PlanKind.TIME_TRIGGERED_PLAN, p)
    print(back)
    print("back:", v.validate(p, back).status)
