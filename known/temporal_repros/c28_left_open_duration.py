from unified_planning.shortcuts import *
from unified_planning.plans import SequentialPlan
from unified_planning.engines.compilers.timed_to_sequential import TimedToSequential
g = Fluent("g")
d = DurativeAction("d"); d.set_left_open_duration_interval(5, 10); d.add_effect(EndTiming(), g, True)
p = Problem("p"); p.add_fluent(g, default_initial_value=False); p.add_action(d); p.add_goal(g)
res = TimedToSequential().compile(p, CompilationKind.TIMED_TO_SEQUENTIAL)
ttp = res.plan_back_conversion(SequentialPlan([res.problem.action("d")()]))
print(ttp)                                   # 0.0: d [0.01]   -- 1/100 is not in (5, 10]
with PlanValidator(problem_kind=p.kind, plan_kind=ttp.kind) as v:
    print(v.validate(p, ttp).status)         # INVALID
