from unified_planning.shortcuts import *
from unified_planning.plans import SequentialPlan
from unified_planning.engines.compilers.timed_to_sequential import TimedToSequential
b = Fluent("b"); g = Fluent("g")
d = DurativeAction("d"); d.set_fixed_duration(2)
d.add_effect(StartTiming(), b, True)       # add ...
d.add_effect(StartTiming(), b, False)      # ... and delete at the same instant: b is TRUE afterwards (add wins)
d.add_condition(EndTiming(), Not(b))       # so this can never hold
d.add_effect(EndTiming(), g, True)
p = Problem("p"); p.add_fluent(b, default_initial_value=False); p.add_fluent(g, default_initial_value=False)
p.add_action(d); p.add_goal(g)
res = TimedToSequential().compile(p, CompilationKind.TIMED_TO_SEQUENTIAL)
print(res.problem.action("d"))
sp = SequentialPlan([res.problem.action("d")()])
with PlanValidator(problem_kind=res.problem.kind, plan_kind=sp.kind) as v:
    print("compiled plan:", v.validate(res.problem, sp).status)
ttp = res.plan_back_conversion(sp)
with PlanValidator(problem_kind=p.kind, plan_kind=ttp.kind) as v:
    print("back-converted plan:", v.validate(p, ttp).status)
