from fractions import Fraction as F
from unified_planning.shortcuts import *
from unified_planning.plans import TimeTriggeredPlan
from unified_planning.engines.compilers.durative_actions_to_processes import DurativeActionToProcesses
g = Fluent("g")
d = DurativeAction("d"); d.set_closed_duration_interval(1, 3); d.add_effect(EndTiming(), g, True)
p = Problem("p"); p.add_fluent(g, default_initial_value=False); p.add_action(d); p.add_goal(g)
res = DurativeActionToProcesses().compile(p, CompilationKind.DURATIVE_ACTIONS_TO_PROCESSES)
for steps in ([(F(0), d(), F(1)), (F(1), d(), F(1))], [(F(1), d(), F(1)), (F(0), d(), F(1))]):
    try:
        print(res.plan_back_conversion(res.plan_forward_conversion(TimeTriggeredPlan(steps))))
    except AssertionError as e:
        print("AssertionError for listing", [(str(s), str(x)) for s, _a, x in steps])
