from fractions import Fraction
from unified_planning.shortcuts import *
from unified_planning.plans import TimeTriggeredPlan, PlanKind
g = Fluent("g")
d = DurativeAction("d"); d.set_fixed_duration(2); d.add_effect(EndTiming(), g, True)
p = Problem("p"); p.add_fluent(g, default_initial_value=False); p.add_action(d); p.add_goal(g)
plan = TimeTriggeredPlan([(Fraction(0), d(), Fraction(2))])
s1 = plan.convert_to(PlanKind.STN_PLAN, p)
print("stn == itself:", s1 == s1)
