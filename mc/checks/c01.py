"""C01 - UPSequentialSimulator = documented successor semantics (DESIGN 4/C01).

Per U-PROB instance: BFS over the states reachable through the REFERENCE relation to depth
D; in every state every ground action is applied through the real simulator, on the chain
state the simulator itself produced and on a flat UPState built from the reference map;
verdict and successor are compared with the reference fluent by fluent.
"""
from __future__ import annotations

import traceback

from mc.kernel.runner import Acc
from mc.gen import uprob
from mc.gen import problem as gp
from mc.gen.spec import tj, fj
from mc.ref.seqsem import RefProblem, canon
from mc.checks import simutil as su

PROPERTY = "C01"
LEVEL = "model_checking"
RULE = (
    "all U-PROB slot-grammar problems with <= d deviating slots (d per tier, see bounds); per "
    "problem BFS over reference-reachable states to depth D, every ground action in every state, "
    "on chain and flat UPStates, with UPState.MAX_ANCESTORS at its default and at 1 (flattening inside the "
    "explored depth; see check_case); non-trivial transition = successor differs from the pre-state or "
    "the action is inapplicable for a reason other than a false precondition"
)
ASSUMPTIONS = [
    "reference semantics mc/ref/seqsem.py is the documented semantics (DESIGN A.1)",
    "problems whose initial state violates bounds/invariants are skipped (malformed)",
    "undefined fluents never occur under quantifiers in the grammar",
]


def bounds(tier):
    return {
        "deviation_plan": uprob.plan(tier),
        "depth": 3 if tier == "quick" else 4,
        "slots": uprob.BASE_SLOTS,
    }


def shards(tier, seed):
    ids = uprob.case_ids(tier, uprob.BASE_SLOTS) + uprob.intarg_ids()
    return su.chunk_cases(ids, seed, per_level_chunks={0: 1, 1: 16, 2: 64, 3: 256})


def run_shard(shard, tier, seed):
    acc = Acc()
    depth = 3 if tier == "quick" else 4
    for cid in shard["cids"]:
        cid = tuple(tuple(x) for x in cid)
        check_case(cid, depth, acc)
    return acc


def replay(case):
    acc = Acc()
    cid = tuple(tuple(x) for x in case["cid"])
    check_case(cid, case.get("depth", 3), acc, only_limit=case.get("max_ancestors", "all"))
    return [(fp, e["cases"][0]["what"]) for fp, e in acc.viol.items()]


finalize = su.prune_supersets


def check_case(cid, depth, acc, only_limit="all"):
    """UPState.MAX_ANCESTORS (a documented, user-settable class attribute, default 20) decides after
    how many chained updates a state is flattened: besides the default, the exploration is repeated
    with the limit 1 so that flattening happens inside the explored depth (levels 0 and 1: both
    settings; level 2 and above: alternating by the parity of the chosen alternatives)."""
    from unified_planning.model.state import UPState

    default = UPState.MAX_ANCESTORS
    if only_limit != "all":
        limits = [only_limit]
    elif len(cid) <= 1:
        limits = [default, 1]
    else:
        limits = [1 if sum(i for _s, i in cid) % 2 else default]
    for lim in limits:
        UPState.MAX_ANCESTORS = lim
        try:
            _check_case(cid, depth, acc, lim)
        finally:
            UPState.MAX_ANCESTORS = default


def _check_case(cid, depth, acc, max_ancestors):
    ps = uprob.make(dict(cid))
    lab = uprob_label(cid)
    b = su.build(ps, acc)
    if b is None:
        return
    prob, ctx = b
    from unified_planning.engines.sequential_simulator import UPSequentialSimulator
    from unified_planning.exceptions import UPProblemDefinitionError

    if not UPSequentialSimulator.supports(prob.kind):
        acc.count("skipped_unsupported_kind")
        return
    ref = RefProblem(ps)
    init = ref.initial_state()
    if not ref.state_ok(init):
        acc.count("skipped_malformed_initial")
        return
    acc.count("problems")

    def viol(sub, what, extra=None):
        case = {"cid": tj(cid), "depth": depth, "max_ancestors": max_ancestors}
        if extra:
            case.update(extra)
        acc.violation("%s|%s" % (sub, lab), what, case)

    try:
        sim = UPSequentialSimulator(prob)
        s0 = sim.get_initial_state()
    except Exception as e:
        viol("initial:raises:" + type(e).__name__, "get_initial_state raised %r" % (e,))
        return
    tr = su.Translator(prob, ctx, ref)
    d = tr.diff(s0, init)
    if d:
        viol("initial:values", "initial state differs: %s" % (d,))
        return

    states, edges, gas = ref.reachable(depth)
    acc.count("states", len(states))
    up_gas = [tr.up_action(an, args) for an, args in gas]
    chain = {0: s0}
    agreed = {0: True}
    has_child = set()
    for i, (st, dpt) in enumerate(states):
        flat = tr.flat_state(st)
        # goal verdict
        for label, ust in (("chain", chain.get(i)), ("flat", flat)):
            if ust is None:
                continue
            try:
                g = sim.is_goal(ust)
            except Exception as e:
                viol("goal:raises:" + type(e).__name__, "is_goal raised %r" % (e,), {"state": tj(canon(st))})
                continue
            if g != ref.is_goal(st):
                viol("goal:verdict", "is_goal=%s reference=%s (%s)" % (g, ref.is_goal(st), label), {"state": tj(canon(st))})
        if dpt >= depth:
            continue
        for j, (an, args) in enumerate(gas):
            exp, why = ref.apply(st, an, args)
            acc.count("transitions")
            nontrivial = (exp is not None and exp != st) or (exp is None and why != "precondition")
            if nontrivial:
                acc.count("nontrivial")
            acc.outcome("applicable" if exp is not None else why.split(":")[0].split(" ")[0])
            act, params = up_gas[j]
            ok_edge = True
            for label, ust in (("chain", chain.get(i)), ("flat", flat)):
                if ust is None:
                    continue
                extra = {"state": tj(canon(st)), "action": [an, list(args)], "on": label}
                try:
                    got = sim.apply(ust, act, params)
                except Exception as e:
                    viol(
                        "apply:raises:" + type(e).__name__,
                        "apply raised %s: %s" % (type(e).__name__, e),
                        extra,
                    )
                    ok_edge = False
                    # a failed call may poison the simulator's evaluator: continue on a fresh one
                    sim = UPSequentialSimulator(prob)
                    continue
                if (got is None) != (exp is None):
                    viol(
                        "applicability:%s" % ("ref-inapplicable" if exp is None else "ref-applicable"),
                        "simulator says %s, reference says %s (%s)"
                        % ("inapplicable" if got is None else "applicable", "inapplicable: " + str(why) if exp is None else "applicable", label),
                        extra,
                    )
                    ok_edge = False
                    continue
                if got is not None:
                    dd = tr.diff(got, exp)
                    if dd:
                        viol("successor", "successor differs: %s (%s)" % (dd, label), extra)
                        ok_edge = False
                    elif label == "chain":
                        k = edges.get((i, j))
                        if k is not None and k >= 0 and k not in chain:
                            chain[k] = got
                            agreed[k] = agreed.get(i, False) and ok_edge
                            has_child.add(i)
    leaves = [k for k in chain if k not in has_child]
    acc.count("traces", sum(1 for k in leaves if agreed.get(k)))
    acc.sample({"cid": tj(cid), "states": len(states), "ground_actions": len(gas)})


def uprob_label(cid):
    return ",".join("%s#%d" % (s, i) for s, i in cid) or "base"
