"""C02 - applicability queries agree with apply; queries are pure (DESIGN 4/C02).

(a) every state reachable through the simulator's own apply (depth D) x every ground action:
    is_applicable <=> apply succeeds; get_applicable_actions = {ga | apply succeeds};
    is_goal <=> get_unsatisfied_goals == [].
(b) explicit-state search over QUERY SEQUENCES on one simulator instance: a search state is a
    query history, materialised by replaying it on a fresh simulator; canonical form = the
    simulator's mutable fields (evaluator memo / stack / pending per-call fields, lazily built
    caches).  In every distinct simulator state every query of the alphabet is issued and must
    answer exactly as on a pristine simulator, and must leave the state argument unchanged.
"""
from __future__ import annotations

from mc.kernel.runner import Acc
from mc.gen import uprob
from mc.gen.spec import tj
from mc.ref.seqsem import RefProblem
from mc.checks import simutil as su
from mc.checks.c01 import uprob_label

PROPERTY = "C02"
LEVEL = "model_checking"
RULE = (
    "U-PROB problems (deviation plan per tier); (a) BFS over simulator-produced states to depth D, "
    "all ground actions: three iff's of the statement; (b) BFS over query sequences (length <= L) on "
    "one simulator with canonical simulator-state de-duplication, alphabet = is_applicable/apply for "
    "every ground action in the initial state and for a1/a2 groundings in two deeper states, plus "
    "get_applicable_actions/is_goal/get_unsatisfied_goals per state; non-trivial = pair where apply "
    "fails for a reason other than a false precondition or a history whose first query fails"
)
ASSUMPTIONS = [
    "oracle is agreement between the library's own entry points; no reference semantics",
    "quick tier merges simulator states that differ only in the set of cached ground actions; thorough keeps them apart",
]


def bounds(tier):
    return {
        "deviation_plan": uprob.plan(tier),
        "depth_states": 3,
        "query_sequence_length": 2 if tier == "quick" else 3,
    }


def shards(tier, seed):
    ids = uprob.case_ids(tier, uprob.BASE_SLOTS) + uprob.intarg_ids()
    return su.chunk_cases(ids, seed, per_level_chunks={0: 1, 1: 16, 2: 64, 3: 256})


def run_shard(shard, tier, seed):
    acc = Acc()
    for cid in shard["cids"]:
        cid = tuple(tuple(x) for x in cid)
        check_case(cid, tier, acc)
    return acc


def replay(case):
    acc = Acc()
    cid = tuple(tuple(x) for x in case["cid"])
    check_case(cid, case.get("tier", "quick"), acc)
    return [(fp, e["cases"][0]["what"]) for fp, e in acc.viol.items()]


finalize = su.prune_supersets


def _res_apply(tr, r):
    if r is None:
        return None
    return tuple(sorted((repr(k), str(v)) for k, v in tr.read(r).items()))


def check_case(cid, tier, acc):
    from unified_planning.engines.sequential_simulator import UPSequentialSimulator
    from unified_planning.exceptions import UPStateMissingFluentError

    ps = uprob.make(dict(cid))
    lab = uprob_label(cid)
    b = su.build(ps, acc)
    if b is None:
        return
    prob, ctx = b
    if not UPSequentialSimulator.supports(prob.kind):
        acc.count("skipped_unsupported_kind")
        return
    ref = RefProblem(ps)
    if not ref.state_ok(ref.initial_state()):
        acc.count("skipped_malformed_initial")
        return
    acc.count("problems")
    tr = su.Translator(prob, ctx, ref)
    gas = ref.ground_actions()
    up_gas = [tr.up_action(an, args) for an, args in gas]

    def viol(sub, what, extra=None):
        case = {"cid": tj(cid), "tier": tier}
        if extra:
            case.update(extra)
        acc.violation("%s|%s" % (sub, lab), what, case)

    try:
        sim = UPSequentialSimulator(prob)
        s0 = sim.get_initial_state()
    except Exception as e:
        acc.count("skipped_initial_raises")
        return

    # ---------------- (a) ------------------------------------------------------------
    seen = {}
    order = []
    frontier = [(s0, 0)]
    seen[_res_apply(tr, s0)] = s0
    order.append((s0, 0))
    depth = 3
    while frontier:
        nxt = []
        for st, d in frontier:
            ok_set = set()
            for j, (act, params) in enumerate(up_gas):
                acc.count("transitions")
                try:
                    succ = sim.apply(st, act, params)
                    a_ok = succ is not None
                except Exception as e:
                    viol("raises:apply:" + type(e).__name__, "apply raised %r" % (e,), {"ga": list(map(str, gas[j]))})
                    sim = UPSequentialSimulator(prob)
                    continue
                try:
                    ia = sim.is_applicable(st, act, params)
                except Exception as e:
                    viol(
                        "raises:is_applicable:" + type(e).__name__,
                        "is_applicable raised %s while apply %s" % (type(e).__name__, "succeeds" if a_ok else "fails"),
                        {"ga": list(map(str, gas[j])), "state": _res_apply(tr, st)},
                    )
                    sim = UPSequentialSimulator(prob)
                    continue
                why = None
                if not a_ok:
                    why = ref.apply(tr.read(st), gas[j][0], gas[j][1])[1]
                    if why != "precondition":
                        acc.count("nontrivial")
                acc.outcome("apply-ok" if a_ok else "apply-fails:" + str(why).split(":")[0][:20])
                if ia != a_ok:
                    viol(
                        "isapp-vs-apply:%s" % ("apply-ok" if a_ok else "apply-fails"),
                        "is_applicable=%s but apply %s" % (ia, "returns a state" if a_ok else "returns None"),
                        {"ga": list(map(str, gas[j])), "state": _res_apply(tr, st)},
                    )
                if a_ok:
                    ok_set.add(j)
                    k = _res_apply(tr, succ)
                    if k not in seen and d < depth:
                        seen[k] = succ
                        nxt.append((succ, d + 1))
                        order.append((succ, d + 1))
            try:
                gaa = set()
                for act, params in sim.get_applicable_actions(st):
                    gaa.add((act.name, tuple(str(p) for p in params)))
                want = set((up_gas[j][0].name, tuple(str(p) for p in up_gas[j][1])) for j in ok_set)
                if gaa != want:
                    viol(
                        "gaa-vs-apply",
                        "get_applicable_actions differs from apply: extra=%s missing=%s" % (sorted(gaa - want), sorted(want - gaa)),
                        {"state": _res_apply(tr, st)},
                    )
            except Exception as e:
                viol("raises:get_applicable_actions:" + type(e).__name__, "get_applicable_actions raised %r" % (e,), {"state": _res_apply(tr, st)})
                sim = UPSequentialSimulator(prob)
            try:
                ig = sim.is_goal(st)
                try:
                    ug = sim.get_unsatisfied_goals(st)
                    empty = len(ug) == 0
                except UPStateMissingFluentError:
                    empty = False
                if ig != empty:
                    viol("isgoal-vs-unsat", "is_goal=%s but get_unsatisfied_goals empty=%s" % (ig, empty), {"state": _res_apply(tr, st)})
            except Exception as e:
                viol("raises:goal-query:" + type(e).__name__, "goal query raised %r" % (e,), {"state": _res_apply(tr, st)})
                sim = UPSequentialSimulator(prob)
        frontier = nxt
    acc.count("states", len(seen))

    # ---------------- (b) query-sequence search --------------------------------------
    level = len(cid)
    if tier == "quick" and level >= 2 and not any(s in ("undef", "inv") for s, _ in cid):
        acc.count("traces", 1)
        return
    L = 2 if tier == "quick" else 3
    keep_cache = tier != "quick"
    sts = [order[0][0]]
    if len(order) > 1:
        sts.append(order[len(order) // 2][0])
    if len(order) > 2:
        sts.append(order[-1][0])
    flat = [tr.flat_state(tr.read(s)) for s in sts]
    snap = [tr.read(s) for s in flat]
    Q = []
    for si in range(len(flat)):
        for j, (an, args) in enumerate(gas):
            if si == 0 or an in ("a1", "a2"):
                Q.append(("is_applicable", si, j))
                Q.append(("apply", si, j))
        Q.append(("gaa", si, None))
        Q.append(("gaa-peek", si, None))  # the generator is abandoned after its first element
        Q.append(("is_goal", si, None))
        Q.append(("unsat", si, None))

    def run_q(sim, q):
        kind, si, j = q
        st = flat[si]
        try:
            if kind == "is_applicable":
                return ("v", sim.is_applicable(st, *up_gas[j]))
            if kind == "apply":
                return ("v", _res_apply(tr, sim.apply(st, *up_gas[j])))
            if kind == "gaa":
                return ("v", tuple(sorted((a.name, tuple(str(p) for p in pr)) for a, pr in sim.get_applicable_actions(st))))
            if kind == "gaa-peek":
                first = next(iter(sim.get_applicable_actions(st)), None)
                return ("v", None if first is None else (first[0].name, tuple(str(p) for p in first[1])))
            if kind == "is_goal":
                return ("v", sim.is_goal(st))
            if kind == "unsat":
                return ("v", tuple(str(g) for g in sim.get_unsatisfied_goals(st)))
        except Exception as e:
            return ("raise", type(e).__name__)

    def canon_sim(sim):
        se = sim._se
        c = (
            tuple(sorted("%s->%s" % (k, v) for k, v in se.memoization.items())),
            len(se.stack),
            se._variable_assignments is None,
            se._assignments is None,
            None if sim._grounded_actions is None else len(sim._grounded_actions),
            sim._initial_state is None,
        )
        if keep_cache:
            c = c + (tuple(sorted((k[0], tuple(str(p) for p in k[1])) for k in sim._grounder._grounded_actions)),)
        return c

    fresh = {}
    for q in Q:
        fresh[q] = run_q(UPSequentialSimulator(prob), q)
    deviating = set(q for q in Q if fresh[q][0] == "raise" or (q[0] == "apply" and fresh[q][1] is None) or (q[0] == "is_applicable" and fresh[q][1] is False))
    seen_sim = {canon_sim(UPSequentialSimulator(prob)): ()}
    frontier = [()]
    ntr = 0
    for depth_q in range(L):
        nxt = []
        for hist in frontier:
            for q in Q:
                sim = UPSequentialSimulator(prob)
                for hq in hist:
                    run_q(sim, hq)
                got = run_q(sim, q)
                acc.count("transitions")
                ntr += 1
                if hist and hist[0] in deviating:
                    acc.count("nontrivial")
                if got != fresh[q]:
                    viol(
                        "history:%s-after-%s" % (q[0], "+".join(h[0] for h in hist) or "nothing"),
                        "query %s answers %s after history %s, but %s on a fresh simulator" % (q, str(got)[:120], hist, str(fresh[q])[:120]),
                        {"hist": [list(map(str, h)) for h in hist], "query": list(map(str, q))},
                    )
                for si, s in enumerate(flat):
                    if tr.read(s) != snap[si]:
                        viol("state-mutated:%s" % q[0], "query %s changed the state passed in" % (q,), {"query": list(map(str, q))})
                        flat[si] = tr.flat_state(snap[si])
                k = canon_sim(sim)
                if k not in seen_sim:
                    seen_sim[k] = hist + (q,)
                    nxt.append(hist + (q,))
        frontier = nxt
    acc.count("states", len(seen_sim))
    acc.count("traces", ntr)
    acc.outcome("simstates=%d" % len(seen_sim))
    acc.sample({"cid": tj(cid), "queries": len(Q), "sim_states": len(seen_sim), "deviating_queries": len(deviating)})
