"""C03 - SequentialPlanValidator decides validity and metric values exactly (DESIGN 4/C03).

Per problem: the complete plan tree of all action sequences of length 0..k over all ground
action instances (valid, goal-missing, inapplicable-step); every plan is validated by the
real validator and compared with the reference execution (status, reason present, metric).
"""
from __future__ import annotations

from fractions import Fraction

from mc.kernel.runner import Acc
from mc.gen import uprob
from mc.gen.spec import tj
from mc.ref.seqsem import RefProblem
from mc.ref.eval import Bottom
from mc.checks import simutil as su
from mc.checks.c01 import uprob_label

PROPERTY = "C03"
LEVEL = "model_checking"
RULE = (
    "U-PROB problems incl. the metric slot (levels 0,1 complete; level 2 = core pairs containing "
    "metric, or {goal,init}, or {goal,undef} in quick, all core pairs in thorough) plus the 24 problems of the family zerob (types bounded by exactly 0 or on one side only, crossed by inc/dec/assign of an unbounded fluent); per problem the full plan tree of "
    "all sequences of length 0..k over all ground actions; states = plan-tree nodes, transitions = "
    "plan steps; non-trivial plan = VALID, or INVALID for a reason other than a false precondition "
    "of its first step"
)
ASSUMPTIONS = [
    "reference semantics mc/ref/seqsem.py",
    "one validator object per problem validates all of its plans in search order (a verdict must not depend on earlier validations)",
    "plans using an action without cost under MinimizeActionCosts without default are skipped (documented as malformed)",
    "plans whose metric reads an undefined fluent are skipped (statement silent)",
    "problems with malformed initial state are skipped",
]

SLOTS = uprob.BASE_SLOTS + ["metric"]


def bounds(tier):
    return {"plan_length": 2 if tier == "quick" else 3, "slots": SLOTS}


def _ids(tier):
    out = []
    for level, core_only in uprob.plan(tier):
        if level == 3:
            continue
        for cid in uprob.ids(level, SLOTS, core_only):
            if level == 2 and tier == "quick":
                names = set(s for s, _ in cid)
                if "metric" not in names and names != {"goal", "init"} and names != {"undef", "goal"}:
                    continue
            out.append((level, cid))
    return out + uprob.zerob_ids()


def shards(tier, seed):
    return su.chunk_cases(_ids(tier), seed, per_level_chunks={0: 1, 1: 16, 2: 64})


def run_shard(shard, tier, seed):
    acc = Acc()
    k = 2 if tier == "quick" else 3
    for cid in shard["cids"]:
        check_case(tuple(tuple(x) for x in cid), k, acc)
    return acc


def replay(case):
    acc = Acc()
    check_case(tuple(tuple(x) for x in case["cid"]), case.get("k", 2), acc)
    return [(fp, e["cases"][0]["what"]) for fp, e in acc.viol.items()]


finalize = su.prune_supersets


def check_case(cid, k, acc):
    import unified_planning as up
    from unified_planning.engines.plan_validator import SequentialPlanValidator
    from unified_planning.engines.results import ValidationResultStatus
    from unified_planning.plans import SequentialPlan, ActionInstance

    ps = uprob.make(dict(cid))
    lab = uprob_label(cid)
    b = su.build(ps, acc)
    if b is None:
        return
    prob, ctx = b
    if not SequentialPlanValidator.supports(prob.kind):
        acc.count("skipped_unsupported_kind")
        return
    ref = RefProblem(ps)
    init = ref.initial_state()
    if not ref.state_ok(init):
        acc.count("skipped_malformed_initial")
        return
    acc.count("problems")
    tr = su.Translator(prob, ctx, ref)
    gas = ref.ground_actions()
    up_gas = [tr.up_action(an, args) for an, args in gas]
    env = prob.environment
    metric = prob.quality_metrics[0] if prob.quality_metrics else None
    mspec = ps.get("metric")
    costed = None
    if mspec is not None and mspec[0] == "costs" and mspec[2] is None:
        costed = set(an for an, _ in mspec[1])

    def viol(sub, what, plan):
        acc.violation("%s|%s" % (sub, lab), what, {"cid": tj(cid), "k": k, "plan": [[gas[j][0], list(gas[j][1])] for j in plan]})

    # ONE validator object validates every plan of this problem, in search order: its verdict on a
    # plan must not depend on the plans it validated before (renewed only after it raised)
    box = {"validator": SequentialPlanValidator(environment=env)}

    def visit(plan, states, dead):
        """plan: tuple of ga indices; states: reference states along it (until dead)."""
        acc.count("states")
        # expected verdict
        if dead is not None:
            exp_valid = False
        else:
            exp_valid = ref.is_goal(states[-1])
        skip = False
        if costed is not None and any(gas[j][0] not in costed for j in plan):
            skip = True
        exp_metric = None
        if exp_valid and mspec is not None and not skip:
            try:
                exp_metric = ref.metric_value(states, [gas[j] for j in plan])
            except Bottom:
                skip = True
        if skip:
            acc.count("skipped_plans")
        else:
            acc.count("evaluations")
            nontrivial = exp_valid or (dead is not None and (dead[0] > 0 or dead[1] != "precondition"))
            if nontrivial:
                acc.count("nontrivial")
            sp = SequentialPlan([ActionInstance(up_gas[j][0], up_gas[j][1]) for j in plan], env)
            try:
                res = box["validator"].validate(prob, sp)
            except Exception as e:
                box["validator"] = SequentialPlanValidator(environment=env)
                viol("raises:%s:%s" % (type(e).__name__, "empty-plan" if not plan else ("valid" if exp_valid else "invalid")),
                     "validate raised %s: %s" % (type(e).__name__, str(e)[:200]), plan)
                res = None
            if res is not None:
                got_valid = res.status == ValidationResultStatus.VALID
                acc.outcome("%s/%s" % ("VALID" if got_valid else "INVALID", "valid" if exp_valid else ("inapplicable" if dead else "goal")))
                if got_valid != exp_valid:
                    viol(
                        "status:%s" % ("ref-valid" if exp_valid else ("ref-inapplicable:" + dead[1].split(":")[0] if dead else "ref-goal-unsatisfied")),
                        "validator says %s, reference says %s%s" % (res.status.name, "VALID" if exp_valid else "INVALID", "" if dead is None else " (step %d: %s)" % dead),
                        plan,
                    )
                elif not got_valid:
                    if res.reason is None:
                        viol("invalid-without-reason", "INVALID result has reason None", plan)
                elif mspec is not None:
                    me = res.metric_evaluations
                    if me is None or metric not in me:
                        viol("metric:missing:" + mspec[0], "VALID result does not report the metric (%s)" % (me,), plan)
                    else:
                        gv = me[metric]
                        if Fraction(gv) != Fraction(exp_metric):
                            viol("metric:value:" + mspec[0], "metric value %s, reference %s" % (gv, exp_metric), plan)
        if len(plan) >= k:
            if dead is None:
                acc.count("traces")
            return
        for j, (an, args) in enumerate(gas):
            acc.count("transitions")
            if dead is not None:
                # plans continuing after an inapplicable step: only one continuation level
                if len(plan) - dead[0] >= 1:
                    continue
                visit(plan + (j,), states, dead)
                continue
            nxt, why = ref.apply(states[-1], an, args)
            if nxt is None:
                visit(plan + (j,), states, (len(plan), why))
            else:
                visit(plan + (j,), states + [nxt], None)

    visit((), [init], None)
    acc.sample({"cid": tj(cid), "ground_actions": len(gas), "k": k})
