"""C04 - time-triggered and sequential validation agree on instantaneous plans (DESIGN 4/C04).

Per problem (instantaneous actions only, no timed effects/goals, well-formed initial state):
all action sequences <= k, each with ALL strictly increasing start-time vectors from a grid;
TimeTriggeredPlanValidator status must equal SequentialPlanValidator status.  The reference
semantics is only used to prune (plans are not extended past an inapplicable step) and to
say which side is wrong.
"""
from __future__ import annotations

from fractions import Fraction
from itertools import combinations

from mc.kernel.runner import Acc
from mc.gen import uprob
from mc.gen.spec import tj
from mc.ref.seqsem import RefProblem
from mc.checks import simutil as su
from mc.checks.c01 import uprob_label

PROPERTY = "C04"
LEVEL = "model_checking"
RULE = (
    "U-PROB problems (levels 0,1 complete; level 2: core pairs of two effect slots of one action, or "
    "an effect slot with inv/undef/goal; thorough: all core pairs); all sequences of length 0..k "
    "(not extended past a reference-inapplicable step) x all strictly increasing start-time vectors "
    "over the grid; non-trivial = plan with >= 1 applicable step whose verdict is decided by bounds, "
    "invariants, conflicts or goals"
)
ASSUMPTIONS = [
    "oracle is agreement between the two validators; reference only assigns blame",
    "kinds restricted to the intersection of both validators' supported kinds",
]

GRID_Q = [Fraction(0), Fraction(1, 3), Fraction(5)]
GRID_T = [Fraction(0), Fraction(1, 3), Fraction(1, 2), Fraction(1), Fraction(3, 2), Fraction(2), Fraction(5)]


def bounds(tier):
    return {"plan_length": 2 if tier == "quick" else 3, "grid": [str(x) for x in (GRID_Q if tier == "quick" else GRID_T)]}


def _ids(tier):
    out = []
    effs = {"a1": ["a1.eff1", "a1.eff2", "a1.eff3"], "a2": ["a2.eff1", "a2.eff2"], "a3": ["a3.eff1"]}
    all_eff = [s for v in effs.values() for s in v]
    for level, core_only in uprob.plan(tier):
        if level == 3:
            continue
        for cid in uprob.ids(level, uprob.BASE_SLOTS, core_only):
            if level == 2 and tier == "quick":
                names = [s for s, _ in cid]
                same_action = any(all(n in v for n in names) for v in effs.values())
                mixed = any(n in all_eff for n in names) and any(n in ("inv", "undef", "goal") for n in names)
                if not (same_action or mixed):
                    continue
            out.append((level, cid))
    return out


def shards(tier, seed):
    return su.chunk_cases(_ids(tier), seed, per_level_chunks={0: 1, 1: 16, 2: 64})


def run_shard(shard, tier, seed):
    acc = Acc()
    for cid in shard["cids"]:
        check_case(tuple(tuple(x) for x in cid), tier, acc)
    return acc


def replay(case):
    acc = Acc()
    check_case(tuple(tuple(x) for x in case["cid"]), case.get("tier", "quick"), acc)
    return [(fp, e["cases"][0]["what"]) for fp, e in acc.viol.items()]


finalize = su.prune_supersets


def check_case(cid, tier, acc):
    from unified_planning.engines.plan_validator import SequentialPlanValidator, TimeTriggeredPlanValidator
    from unified_planning.engines.results import ValidationResultStatus
    from unified_planning.plans import SequentialPlan, TimeTriggeredPlan, ActionInstance

    k = 2 if tier == "quick" else 3
    grid = GRID_Q if tier == "quick" else GRID_T
    ps = uprob.make(dict(cid))
    lab = uprob_label(cid)
    b = su.build(ps, acc)
    if b is None:
        return
    prob, ctx = b
    if not (SequentialPlanValidator.supports(prob.kind) and TimeTriggeredPlanValidator.supports(prob.kind)):
        acc.count("skipped_unsupported_kind")
        return
    ref = RefProblem(ps)
    init = ref.initial_state()
    if not ref.state_ok(init):
        acc.count("skipped_malformed_initial")
        return
    acc.count("problems")
    tr = su.Translator(prob, ctx, ref)
    gas = ref.ground_actions()
    up_gas = [tr.up_action(an, args) for an, args in gas]
    env = prob.environment

    def viol(sub, what, plan, times=None):
        acc.violation(
            "%s|%s" % (sub, lab),
            what,
            {"cid": tj(cid), "tier": tier, "plan": [[gas[j][0], list(gas[j][1])] for j in plan], "times": [str(t) for t in (times or [])]},
        )

    def visit(plan, state, dead):
        acc.count("states")
        ais = [ActionInstance(up_gas[j][0], up_gas[j][1]) for j in plan]
        try:
            sres = SequentialPlanValidator(environment=env).validate(prob, SequentialPlan(ais, env))
            s_valid = sres.status == ValidationResultStatus.VALID
        except Exception as e:
            acc.count("skipped_sequential_raises")  # C03's business
            s_valid = None
        if s_valid is not None:
            ref_valid = dead is None and ref.is_goal(state)
            if plan and (dead is None or dead != "precondition"):
                acc.count("nontrivial")
            for times in _vectors(grid, len(plan), tier):
                acc.count("evaluations")
                ttp = TimeTriggeredPlan([(t, ai, None) for t, ai in zip(times, ais)], env)
                try:
                    tres = TimeTriggeredPlanValidator(environment=env).validate(prob, ttp)
                    t_valid = tres.status == ValidationResultStatus.VALID
                except Exception as e:
                    viol("tt-raises:" + type(e).__name__, "time-triggered validate raised %s: %s" % (type(e).__name__, str(e)[:160]), plan, times)
                    continue
                acc.outcome("seq=%s tt=%s" % (s_valid, t_valid))
                if t_valid != s_valid:
                    blame = "time-triggered" if t_valid != ref_valid else "sequential"
                    viol(
                        "disagree:seq=%s,tt=%s:%s" % ("VALID" if s_valid else "INVALID", "VALID" if t_valid else "INVALID", _why(ref, dead, state)),
                        "sequential %s, time-triggered %s, reference %s (%s wrong)"
                        % ("VALID" if s_valid else "INVALID", "VALID" if t_valid else "INVALID", "VALID" if ref_valid else "INVALID", blame),
                        plan,
                        times,
                    )
                    break
        if len(plan) >= k or dead is not None:
            if dead is None:
                acc.count("traces")
            return
        for j, (an, args) in enumerate(gas):
            acc.count("transitions")
            nxt, why = ref.apply(state, an, args)
            if nxt is None:
                visit(plan + (j,), state, why.split(":")[0].split(" ")[0])
            else:
                visit(plan + (j,), nxt, None)

    visit((), init, None)
    acc.sample({"cid": tj(cid), "ground_actions": len(gas), "k": k})


def _why(ref, dead, state):
    if dead is not None:
        return "ref-" + dead
    return "ref-valid" if ref.is_goal(state) else "ref-goal"


def _vectors(grid, k, tier):
    """strictly increasing start-time vectors: complete over the grid in thorough; in quick the
    vectors starting at 0 and the vectors starting later with a large last gap."""
    if tier != "quick":
        return list(combinations(grid, k))
    if k == 0:
        return [()]
    return [tuple(grid[:k]), tuple(grid[len(grid) - k:])]
