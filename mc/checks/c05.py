"""C05 - time-triggered validation = reference temporal semantics (DESIGN 4/C05).

U-TEMP problems x every plan of <= S steps on the (start, duration) grid; the real
TimeTriggeredPlanValidator's status is compared with mc/ref/tempsem.py happening by
happening.  Plans the statement does not decide are AMBIGUOUS in the reference and skipped.
"""
from __future__ import annotations

from fractions import Fraction

from mc.kernel.runner import Acc
from mc.gen import utemp
from mc.gen.spec import tj
from mc.ref.tempsem import TempRef
from mc.checks import simutil as su

PROPERTY = "C05"
LEVEL = "model_checking"
RULE = (
    "U-TEMP problems (levels 0,1 complete; level 2: core pairs of two slots of one action, or "
    "teff/tgoal with any slot; thorough: all pairs over full pools for one-action pairs) x all plans "
    "(multisets) of <= S timed steps over the start/duration grid; states = happenings executed by "
    "the reference, transitions = plan steps; non-trivial = plan with >= 1 step whose reference "
    "verdict is VALID or INVALID for a reason other than the final goal"
)
ASSUMPTIONS = [
    "reference temporal semantics mc/ref/tempsem.py (DESIGN A.2)",
    "one validator object per problem validates all of its plans in enumeration order (a verdict must not depend on earlier validations)",
    "AMBIGUOUS plans skipped: same value written by two different steps at one instant, empty condition interval, [t,t) point interval, effect before time 0",
    "no invariants/bounded types in U-TEMP (C04's subject); mutex/epsilon separation not modelled",
]


def bounds(tier):
    starts, durs = utemp.GRID[tier]
    return {"steps": 2, "starts": [str(x) for x in starts], "durations": [str(x) for x in durs]}


def _ids(tier):
    out = []
    for level, core_only in utemp.plan_levels(tier):
        for cid, _ps in instances(level, core_only):
            out.append((level, cid))
    return out


def instances(level, core_only):
    for cid, ps in utemp.instances(level, None, core_only):
        if level == 2:
            names = [s for s, _ in cid]
            owners = set(n.split(".")[0] for n in names)
            if not (len(owners) == 1 or "teff" in names or "tgoal" in names):
                continue
        yield cid, ps


def shards(tier, seed):
    return su.chunk_cases(_ids(tier), seed, per_level_chunks={0: 1, 1: 32, 2: 96})


def run_shard(shard, tier, seed):
    acc = Acc()
    for cid in shard["cids"]:
        check_case(tuple(tuple(x) for x in cid), tier, acc)
    return acc


def replay(case):
    acc = Acc()
    check_case(tuple(tuple(x) for x in case["cid"]), case.get("tier", "quick"), acc)
    return [(fp, e["cases"][0]["what"]) for fp, e in acc.viol.items()]


finalize = su.prune_supersets


def _relevant(cid, plan):
    """A plan exercises a deviation on an action slot only if it contains that action."""
    used = set(an for _s, an, _a, _d in plan)
    for s, _ in cid:
        owner = s.split(".")[0]
        if owner in ("d1", "d2", "i1") and owner not in used:
            return False
    return True


def check_case(cid, tier, acc):
    import unified_planning as up
    from unified_planning.engines.plan_validator import TimeTriggeredPlanValidator
    from unified_planning.engines.results import ValidationResultStatus
    from unified_planning.plans import TimeTriggeredPlan, ActionInstance
    from mc.gen import problem as gp

    ps = utemp.make(dict(cid))
    lab = utemp.label(cid)
    b = su.build(ps, acc)
    if b is None:
        return
    prob, ctx = b
    if not TimeTriggeredPlanValidator.supports(prob.kind):
        acc.count("skipped_unsupported_kind")
        return
    acc.count("problems")
    ref = TempRef(ps)
    env = prob.environment
    em = env.expression_manager
    objs = {o.name: em.ObjectExp(o) for o in prob.all_objects}
    n_plans = 0
    # ONE validator object validates every plan of this problem (renewed only after it raised)
    validator = TimeTriggeredPlanValidator(environment=env)
    for plan in utemp.plans(tier, 2):
        if cid and not _relevant(cid, plan):
            continue
        verdict, why = ref.validate(list(plan))
        acc.count("states", len(plan) + 1)
        acc.count("transitions", max(1, len(plan)))
        if verdict == "AMBIGUOUS":
            acc.count("skipped_ambiguous")
            continue
        acc.count("evaluations")
        n_plans += 1
        if plan and (verdict == "VALID" or why != "goal"):
            acc.count("nontrivial")
        acc.outcome("%s:%s" % (verdict, (why or "").split(" at ")[0]))
        steps = [
            (s, ActionInstance(prob.action(an), tuple(objs[a] for a in args)), d) for s, an, args, d in plan
        ]
        try:
            res = validator.validate(prob, TimeTriggeredPlan(steps, env))
        except Exception as e:
            validator = TimeTriggeredPlanValidator(environment=env)
            acc.violation(
                "raises:%s:%s|%s" % (type(e).__name__, verdict, lab),
                "validate raised %s: %s" % (type(e).__name__, str(e)[:160]),
                _case(cid, tier, plan),
            )
            continue
        got = "VALID" if res.status == ValidationResultStatus.VALID else "INVALID"
        if got != verdict:
            acc.violation(
                "verdict:impl=%s,ref=%s:%s|%s" % (got, verdict, (why or "").split(" at ")[0], lab),
                "validator says %s, reference says %s (%s)" % (got, verdict, why),
                _case(cid, tier, plan),
            )
        else:
            acc.count("traces")
    acc.sample({"cid": tj(cid), "plans": n_plans})


def _case(cid, tier, plan):
    return {"cid": tj(cid), "tier": tier, "plan": [[str(s), an, list(args), None if d is None else str(d)] for s, an, args, d in plan]}
