"""C06 - compiler soundness: every valid plan of the compiled problem maps back to a valid plan
of the original (DESIGN 4/C06).

Per (compiler, U-PROB instance): compile with the real compiler, extract the compiled problem
as a spec, enumerate EVERY valid compiled plan of length <= k' with the reference semantics
(dynamic programming over compiled states when the compiled problem has no path-dependent
constraint), map each back through the real CompilerResult, and execute the mapped plan on
the original with the reference (incl. PDDL3 trajectory constraints).
"""
from __future__ import annotations

from mc.kernel.runner import Acc
from mc.gen.spec import tj
from mc.ref.seqsem import canon
from mc.checks import simutil as su
from mc.checks import compcommon as cc

PROPERTY = "C06"
LEVEL = "model_checking"
RULE = (
    "compilers {grounder, cerm, dcrm, ncrm, qurm, utfr, btrm, sirm, tcrm, uinr} x U-PROB instances in "
    "their supported kind (levels 0,1; level 2: core pairs on one action or one action slot with "
    "goal/inv/undef/traj; tcrm on the Boolean variant); all valid compiled plans of length <= k' "
    "(k'=k, +1 when the compiler created auxiliary actions); states = compiled states expanded, "
    "transitions = compiled ground-action applications; non-trivial = (compiler, problem) pair with "
    ">= 1 valid compiled plan whose map-back differs from the compiled plan or the compiler changed "
    "the action set"
)
ASSUMPTIONS = [
    "both sides are judged by the reference semantics (mc/ref/seqsem.py, mc/ref/traj.py)",
    "a compile call that raises is C08's subject (skipped and counted here)",
]


def bounds(tier):
    return {"k": 2 if tier == "quick" else "3 (2 for level-2 instances with a non-core choice)", "compilers": cc.COMPILER_KEYS}


def shards(tier, seed):
    out = []
    for key in cc.COMPILER_KEYS:
        ids = cc.universe(key, tier)
        for sh in su.chunk_cases(ids, seed, per_level_chunks={0: 1, 1: 4, 2: 12}):
            sh["compiler"] = key
            out.append(sh)
    out.sort(key=lambda s: s["level"])
    return out


def run_shard(shard, tier, seed):
    acc = Acc()
    for cid in shard["cids"]:
        cid = tuple(tuple(x) for x in cid)
        check_case(shard["compiler"], cid, cc.plan_length(cid, tier), acc)
    return acc


def replay(case):
    acc = Acc()
    check_case(case["compiler"], tuple(tuple(x) for x in case["cid"]), case.get("k", 2), acc)
    return [(fp, e["cases"][0]["what"]) for fp, e in acc.viol.items()]


def finalize(acc, tier=None):
    su.prune_supersets(acc)


def mapped_plans(c, kk, acc):
    """set of mapped-back sequences of all valid compiled plans of length <= kk."""
    cref, gas, mb = c.cref, c.cgas, c.mb
    out = set()
    if cref.other_traj:
        for plan, _states in cc.valid_plans(cref, kk, gas):
            acc.count("transitions", max(1, len(plan)))
            out.add(tuple(mb[j] for j in plan if mb[j] is not None))
        return out
    memo = {}
    succ_cache = {}

    def succs(st, key):
        if key not in succ_cache:
            lst = []
            for j, (an, args) in enumerate(gas):
                nxt, _ = cref.apply(st, an, args)
                acc.count("transitions")
                if nxt is not None:
                    lst.append((j, nxt, canon(nxt)))
            succ_cache[key] = lst
            acc.count("states")
        return succ_cache[key]

    def suffixes(st, key, r):
        mk = (key, r)
        if mk in memo:
            return memo[mk]
        res = set()
        if cref.is_goal(st):
            res.add(())
        if r > 0:
            for j, nxt, nk in succs(st, key):
                m = mb[j]
                for suf in suffixes(nxt, nk, r - 1):
                    res.add(suf if m is None else (m,) + suf)
        memo[mk] = res
        return res

    init = cref.initial_state()
    return suffixes(init, canon(init), kk)


def _nested_fluent(x, inside=False):
    if isinstance(x, tuple):
        if len(x) >= 2 and x[0] == "f" and isinstance(x[1], str):
            if inside:
                return True
            return any(_nested_fluent(y, True) for y in x[2:])
        return any(_nested_fluent(y, inside) for y in x)
    return False


def root_cause(key, ref, mp):
    """Root causes of the recorded findings (known_findings.json), decided on the failing
    mapped-back plan itself: a violation gets the root-cause fingerprint only when the plan
    really exercises the documented defect; every other unsound plan keeps the ordinary
    fingerprint (sub-oracle | minimal deviation set) and is reported.
      ncrm  an executed step adds AND deletes one ground Boolean fluent (f and not_f both end true)
      dcrm  an executed step fires an increase/decrease whose condition is a disjunction with two
            true disjuncts (the split conditional effects both fire)
      tcrm  a trajectory constraint / invariant reads a fluent nested in a fluent argument
            (regression matches fluent expressions syntactically)"""
    from mc.ref.eval import ev, Bottom

    if key == "tcrm":
        return "nested-fluent-in-constraint" if _nested_fluent((ref.ps.get("traj", ()),)) else None
    if key not in ("ncrm", "dcrm"):
        return None
    st = ref.initial_state()
    for an, args in mp:
        a = ref.actions[an]
        params = dict(zip([pn for pn, _ in a["params"]], args))
        try:
            if key == "ncrm":
                seen = {}
                for tgt, kind, val in ref.fired_effects(st, a["eff"], params):
                    if kind == "assign" and isinstance(val, bool):
                        seen.setdefault(tgt, set()).add(val)
                if any(len(v) == 2 for v in seen.values()):
                    return "add-and-delete"
            else:
                I = ref.interp(st, params)
                for kind, fl, val, cond, fa in a["eff"]:
                    if kind in ("inc", "dec") and cond is not None and cond[0] == "or" and not fa:
                        if sum(1 for d in cond[1:] if ev(d, I) is True) >= 2:
                            return "overlapping-increase"
        except Bottom:
            return None
        nxt, _ = ref.apply(st, an, args)
        if nxt is None:
            return None
        st = nxt
    return None


def check_case(key, cid, k, acc):
    c = cc.Compiled(key, cid, acc)
    if not c.ok:
        return
    lab = cc.label(key, cid)
    ck = key
    acc.count("evaluations")
    case = {"compiler": key, "cid": tj(cid), "k": k}
    if c.mb_error is not None:
        an, args, e = c.mb_error
        acc.violation(
            "map-back-raises:%s:%s|%s" % (type(e).__name__, key, lab),
            "map_back_action_instance(%s%s) raised %s: %s" % (an, args, type(e).__name__, str(e)[:120]),
            case,
        )
        return
    aux = any(m is None for m in c.mb)
    kk = k + (1 if aux else 0)
    mapped = mapped_plans(c, kk, acc)
    changed = aux or len(c.cgas) != len(c.ref.ground_actions()) or any(
        m != ga for m, ga in zip(c.mb, c.cgas)
    )
    if mapped and changed:
        acc.count("nontrivial")
    acc.outcome("%s:%s" % (key, "plans" if mapped else "no-plan"))
    for mp in sorted(mapped, key=lambda x: (len(x), repr(x))):
        states = cc.Compiled.run(c.ref, mp)
        why = None
        if states is None:
            why = "not-executable"
        elif not c.ref.is_goal(states[-1]):
            why = "goal"
        elif not cc.Compiled.traj_ok(c.ref, states):
            why = "trajectory-constraint"
        if why is not None:
            root = root_cause(key, c.ref, mp)
            acc.violation(
                ("unsound:%s|root=%s" % (key, root)) if root else "unsound:%s:%s|%s" % (why, key, lab),
                "a valid plan of the compiled problem maps back to %s, which is invalid for the original (%s)" % (list(mp), why),
                dict(case, mapped=[[a, list(b)] for a, b in mp]),
            )
            break
        acc.count("traces")
    acc.sample({"compiler": key, "cid": tj(cid), "compiled_ground_actions": len(c.cgas), "mapped_valid_plans": len(mapped)}, limit=4)
