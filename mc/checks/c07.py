"""C07 - compiler completeness: every valid original plan has a compiled counterpart
(DESIGN 4/C07).

Per (compiler, U-PROB instance): all valid ORIGINAL plans of length <= k (exhaustive search
with the reference); for each, a product search over the compiled problem restricted to
compiled ground actions whose map-back is the next original step (auxiliary None-mapped
actions allowed, at most 2) must reach a compiled goal state.  Original steps that leave the
state unchanged may be dropped (documented: groundings/variants without effect are discarded).
"""
from __future__ import annotations

from mc.kernel.runner import Acc
from mc.gen.spec import tj
from mc.ref.seqsem import canon
from mc.checks import simutil as su
from mc.checks import compcommon as cc

PROPERTY = "C07"
LEVEL = "model_checking"
RULE = (
    "same (compiler, problem) universe as C06; all valid original plans of length <= k; product "
    "search (compiled state, position in the original plan, auxiliary steps used); states = product "
    "states expanded, transitions = compiled applications tried; non-trivial = original plan of "
    "length >= 1 on a problem whose compiled action set differs from the original"
)
ASSUMPTIONS = [
    "reference semantics on both sides",
    "state-preserving original steps may be dropped; at most 2 auxiliary (None-mapped) compiled steps",
    "a compile call that raises is C08's subject (skipped and counted here)",
]

MAX_AUX = 2


def bounds(tier):
    return {"k": 2 if tier == "quick" else "3 (2 for level-2 instances with a non-core choice)", "compilers": cc.COMPILER_KEYS, "max_aux": MAX_AUX}


def shards(tier, seed):
    out = []
    for key in cc.COMPILER_KEYS:
        ids = cc.universe(key, tier)
        for sh in su.chunk_cases(ids, seed, per_level_chunks={0: 1, 1: 4, 2: 12}):
            sh["compiler"] = key
            out.append(sh)
    out.sort(key=lambda s: s["level"])
    return out


def run_shard(shard, tier, seed):
    acc = Acc()
    for cid in shard["cids"]:
        cid = tuple(tuple(x) for x in cid)
        check_case(shard["compiler"], cid, cc.plan_length(cid, tier), acc)
    return acc


def replay(case):
    acc = Acc()
    check_case(case["compiler"], tuple(tuple(x) for x in case["cid"]), case.get("k", 2), acc)
    return [(fp, e["cases"][0]["what"]) for fp, e in acc.viol.items()]


def finalize(acc, tier=None):
    su.prune_supersets(acc)


def check_case(key, cid, k, acc):
    c = cc.Compiled(key, cid, acc)
    if not c.ok or c.mb_error is not None:
        return
    lab = cc.label(key, cid)
    ck = key
    acc.count("evaluations")
    cref, cgas, mb = c.cref, c.cgas, c.mb
    by_orig = {}
    aux = []
    for j, m in enumerate(mb):
        if m is None:
            aux.append(j)
        else:
            by_orig.setdefault(m, []).append(j)
    changed = bool(aux) or len(cgas) != len(c.ref.ground_actions()) or any(m != ga for m, ga in zip(mb, cgas))
    ogas = c.ref.ground_actions()
    path_dependent = bool(cref.other_traj)
    cinit = cref.initial_state()
    succ_cache = {}

    def step(st, key_st, j):
        ck = (key_st, j)
        if ck not in succ_cache:
            acc.count("transitions")
            nxt, _ = cref.apply(st, cgas[j][0], cgas[j][1])
            succ_cache[ck] = (nxt, None if nxt is None else canon(nxt))
        return succ_cache[ck]

    n_plans = 0
    for plan, ostates in cc.valid_plans(c.ref, k, ogas):
        n_plans += 1
        steps = [ogas[j] for j in plan]
        if plan and changed:
            acc.count("nontrivial")
        # product search
        start = (canon(cinit), 0, 0)
        frontier = [(cinit, [cinit], 0, 0)]
        seen = {start}
        found = False
        while frontier and not found:
            nxt_frontier = []
            for st, path, i, used in frontier:
                acc.count("states")
                if i == len(steps) and cref.is_goal(st) and (not path_dependent or cc.Compiled.traj_ok(cref, path)):
                    found = True
                    break
                kst = canon(st)
                moves = []
                if i < len(steps):
                    for j in by_orig.get(steps[i], ()):
                        moves.append((j, i + 1, used))
                    if ostates[i + 1] == ostates[i]:
                        moves.append((None, i + 1, used))
                if used < MAX_AUX:
                    for j in aux:
                        moves.append((j, i, used + 1))
                for j, ni, nu in moves:
                    if j is None:
                        n_st, n_k = st, kst
                    else:
                        n_st, n_k = step(st, kst, j)
                        if n_st is None:
                            continue
                    sk = (n_k, ni, nu) if not path_dependent else (n_k, ni, nu, len(path))
                    if sk in seen and not path_dependent:
                        continue
                    seen.add(sk)
                    nxt_frontier.append((n_st, path + [n_st] if j is not None else path, ni, nu))
            frontier = nxt_frontier
        if found:
            acc.count("traces")
        else:
            acc.violation(
                "incomplete:%s|%s" % (key, lab),
                "the valid original plan %s has no counterpart in the compiled problem (within +%d auxiliary steps)" % (steps, MAX_AUX),
                {"compiler": key, "cid": tj(cid), "k": k, "plan": [[a, list(b)] for a, b in steps]},
            )
            break
    acc.outcome("%s:%s" % (key, "has-plans" if n_plans else "no-plan"))
    acc.sample({"compiler": key, "cid": tj(cid), "valid_original_plans": n_plans}, limit=4)
