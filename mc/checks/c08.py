"""C08 - compilers succeed and produce well-formed results inside their supported kind
(DESIGN 4/C08).

(A) every compiler x every in-kind U-PROB / U-TEMP instance: compile returns (an exception
    outside the whitelist of documented rejections is a violation); the result problem has
    unique names, every referenced fluent/object/action/type is declared, and a usable
    plan_back_conversion (applied to the empty plan and to every one-step compiled plan it
    returns a plan over actions of the ORIGINAL problem).
(B) the same on a few representative problems under ALL adversarial renamings with <= 2
    adversarial names (separator characters, prefixes of one another, mangled forms).
(H) every compiler, and four factory-built CompilersPipelines, as ONE object compiling two
    problems in a row (all ordered pairs of 6 problems): both results judged afterwards.
"""
from __future__ import annotations

from mc.kernel.runner import Acc
from mc.gen import uprob, utemp, names as gnames
from mc.gen import problem as gp
from mc.gen.spec import tj
from mc.checks import simutil as su
from mc.checks import compcommon as cc

PROPERTY = "C08"
LEVEL = "exploration"
RULE = (
    "(A) compilers {grounder, cerm, dcrm, ncrm, qurm, utfr, btrm, sirm, tcrm, uinr} x U-PROB "
    "instances (C06 universe) and {t2s, datp} x U-TEMP instances (levels 0,1); (B) the compilers x 3 "
    "representative problems x all renamings with <= 2 adversarial names (U-NAME); an evaluation is "
    "one compile call with all well-formedness checks; (H) each compiler and 4 factory pipelines as one object "
    "compiling every ordered pair of 6 problems, both results judged after the second call; non-trivial = compile call whose result "
    "differs from the input problem (action set, fluents or names)"
)
ASSUMPTIONS = [
    "documented rejections (exception type + message prefix from docstrings / raise sites) are skipped and counted",
    "renamings that the library rejects when the ORIGINAL problem is built are skipped",
]

# (exception type name, message prefix) per compiler: documented rejections
WHITELIST = {
    "cerm": [("UPProblemDefinitionError", "The condition of effect")],
    "ncrm": [("UPUsageError", "No objects present"), ("UPExpressionDefinitionError", "Unable to remove")],
    "tcrm": [("UPProblemDefinitionError", "PROBLEM NOT SOLVABLE"), ("UPUsageError", "This compiler cannot handle this expression")],
    "t2s": [("UPUnsupportedProblemTypeError", "")],
    "datp": [],
}

NAME_BASES = [(), (("a1.eff2", 8),), (("a1.pre1", 5),)]


def bounds(tier):
    return {"names_per_assignment": 2, "name_bases": [cc.label("", b) for b in NAME_BASES]}


def temporal_compilers():
    from unified_planning.engines import CompilationKind as CK
    from unified_planning.engines.compilers.timed_to_sequential import TimedToSequential
    from unified_planning.engines.compilers.durative_actions_to_processes import DurativeActionToProcesses

    return {"t2s": (TimedToSequential, CK.TIMED_TO_SEQUENTIAL), "datp": (DurativeActionToProcesses, CK.DURATIVE_ACTIONS_TO_PROCESSES)}


def shards(tier, seed):
    out = []
    for key in cc.COMPILER_KEYS:
        for sh in su.chunk_cases(cc.universe(key, tier), seed, per_level_chunks={0: 1, 1: 2, 2: 6}):
            sh["compiler"], sh["part"] = key, "A"
            out.append(sh)
    tids = [(lv, cid) for lv, cid in utemp.case_ids("quick") if lv <= (1 if tier == "quick" else 2)]
    for key in ("t2s", "datp"):
        for sh in su.chunk_cases(tids, seed, per_level_chunks={0: 1, 1: 4, 2: 16}):
            sh["compiler"], sh["part"] = key, "T"
            out.append(sh)
    asg = gnames.assignments(tier)
    for key in cc.COMPILER_KEYS:
        ids = [(lv, i) for i, (lv, _m) in enumerate(asg)]
        for sh in su.chunk_cases(ids, seed, per_level_chunks={0: 1, 1: 2, 2: 6}, key="asg"):
            sh["compiler"], sh["part"] = key, "B"
            out.append(sh)
    for key in hist_keys():
        out.append({"level": 1, "compiler": key, "part": "H"})
    out.sort(key=lambda s: s["level"])
    return out


def run_shard(shard, tier, seed):
    acc = Acc()
    key = shard["compiler"]
    if shard["part"] == "H":
        for a in HIST_PROBS:
            for b in HIST_PROBS:
                history(key, a, b, acc)
        return acc
    if shard["part"] == "A":
        for cid in shard["cids"]:
            cid = tuple(tuple(x) for x in cid)
            ps = uprob.make(dict(cid), cc.VARIANT.get(key))
            one(key, ps, cc.label(key, cid), "plain", {"part": "A", "compiler": key, "cid": tj(cid)}, acc)
    elif shard["part"] == "T":
        for cid in shard["cids"]:
            cid = tuple(tuple(x) for x in cid)
            ps = utemp.make(dict(cid))
            one(key, ps, utemp.label(cid), "plain", {"part": "T", "compiler": key, "cid": tj(cid)}, acc)
    else:
        asg = gnames.assignments(tier)
        for i in shard["asg"]:
            _lv, mp = asg[i]
            for b in NAME_BASES:
                ps0 = uprob.make(dict(b), cc.VARIANT.get(key))
                ps = gnames.rename_spec(ps0, mp)
                one(key, ps, cc.label(key, b), gnames.label(mp), {"part": "B", "compiler": key, "base": tj(b), "names": [[list(k), v] for k, v in mp.items()]}, acc)
    return acc


# ---- part H: one compiler OBJECT used for two compile calls -------------------------------------
HIST_PROBS = [(), (("a1.eff2", 8),), (("a1.pre1", 5),), (("a2.eff2", 22),), (("a1.pre1", 9),), (("a3.eff1", 10),)]


def pipes():
    from unified_planning.engines import CompilationKind as CK

    return {
        "pipe:grounder>cerm": [CK.GROUNDING, CK.CONDITIONAL_EFFECTS_REMOVING],
        "pipe:cerm>grounder": [CK.CONDITIONAL_EFFECTS_REMOVING, CK.GROUNDING],
        "pipe:qurm>cerm>grounder": [CK.QUANTIFIERS_REMOVING, CK.CONDITIONAL_EFFECTS_REMOVING, CK.GROUNDING],
        "pipe:dcrm>ncrm": [CK.DISJUNCTIVE_CONDITIONS_REMOVING, CK.NEGATIVE_CONDITIONS_REMOVING],
    }


def hist_keys():
    return list(cc.COMPILER_KEYS) + list(pipes())


def history(key, a, b, acc):
    """compile problem a, then problem b, with ONE compiler object; judge both results afterwards."""
    from mc.gen.spec import fresh_env

    variant = cc.VARIANT.get(key)
    env = fresh_env()
    try:
        pa, _ = gp.build_problem(uprob.make(dict(a), variant), env)
        pb, _ = gp.build_problem(uprob.make(dict(b), variant), env)
    except Exception:
        acc.count("skipped_rejected_at_build")
        return
    if key.startswith("pipe:"):
        cks = pipes()[key]
        try:
            comp = env.factory.Compiler(problem_kind=pa.kind, compilation_kinds=cks)
        except Exception:
            acc.count("skipped_no_pipeline")
            return
        call = lambda pr: comp.compile(pr)
        supports = lambda pr: True
    else:
        Cls, ck = _get(key)
        comp = Cls()
        call = lambda pr: comp.compile(pr, ck)
        supports = lambda pr: Cls.supports(pr.kind)
    if not (supports(pa) and supports(pb)):
        acc.count("skipped_unsupported_kind")
        return
    results = []
    for pr in (pa, pb):
        try:
            results.append(call(pr))
        except Exception:
            acc.count("skipped_compile_raises")  # judged by part A on a fresh compiler object
            return
    acc.count("evaluations")
    acc.count("histories")
    lab = "%s;%s" % (cc.label("", a).lstrip(":"), cc.label("", b).lstrip(":"))
    for which, pr, res in (("first", pa, results[0]), ("second", pb, results[1])):
        def viol(sub, what, which=which):
            acc.violation(
                "reuse:%s:%s:%s|%s" % (which, sub, key, lab),
                "one %s object compiled two problems; judging the %s result afterwards: %s" % (key, which, what),
                {"part": "H", "compiler": key, "a": tj(a), "b": tj(b)},
            )

        judge_result(key if not key.startswith("pipe:") else "pipe", pr, res, viol, acc)


def replay(case):
    acc = Acc()
    key = case["compiler"]
    if case["part"] == "H":
        history(key, tuple(tuple(x) for x in case["a"]), tuple(tuple(x) for x in case["b"]), acc)
        return [(fp, e["cases"][0]["what"]) for fp, e in acc.viol.items()]
    if case["part"] == "A":
        cid = tuple(tuple(x) for x in case["cid"])
        one(key, uprob.make(dict(cid), cc.VARIANT.get(key)), cc.label(key, cid), "plain", case, acc)
    elif case["part"] == "T":
        cid = tuple(tuple(x) for x in case["cid"])
        one(key, utemp.make(dict(cid)), utemp.label(cid), "plain", case, acc)
    else:
        b = tuple(tuple(x) for x in case["base"])
        mp = {tuple(k): v for k, v in case["names"]}
        one(key, gnames.rename_spec(uprob.make(dict(b), cc.VARIANT.get(key)), mp), cc.label(key, b), gnames.label(mp), case, acc)
    return [(fp, e["cases"][0]["what"]) for fp, e in acc.viol.items()]


def finalize(acc, tier=None):
    # minimise over the problem label (deviation sets) per (sub-oracle, names)
    su.prune_supersets(acc)


def _get(key):
    if key in ("t2s", "datp"):
        Cls, ck = temporal_compilers()[key]
        return Cls, ck
    Cls, ck, _v = cc.compilers()[key]
    return Cls, ck


def one(key, ps, plab, nlab, case, acc):
    import unified_planning as up
    from unified_planning.plans import SequentialPlan, ActionInstance, TimeTriggeredPlan

    Cls, ck = _get(key)
    try:
        prob, ctx = gp.build_problem(ps)
    except Exception as e:
        acc.count("skipped_rejected_at_build")
        return
    if not Cls.supports(prob.kind):
        acc.count("skipped_unsupported_kind")
        return
    acc.count("evaluations")
    sub_names = "" if nlab == "plain" else ":names[%s]" % nlab

    def viol(sub, what):
        acc.violation("%s:%s%s|%s" % (sub, key, sub_names, plab), what, case)

    try:
        res = Cls().compile(prob, ck)
    except Exception as e:
        tn, msg = type(e).__name__, str(e)
        for wt, wp in WHITELIST.get(key, []):
            if tn == wt and msg.startswith(wp):
                acc.count("skipped_documented_rejection")
                acc.outcome("documented-rejection:%s" % key)
                return
        viol("compile-raises:%s" % tn, "compile raised %s: %s" % (tn, msg[:160]))
        acc.outcome("raises:%s:%s" % (key, tn))
        return
    judge_result(key, prob, res, viol, acc)


def judge_result(key, prob, res, viol, acc):
    """all well-formedness clauses on one CompilerResult"""
    from unified_planning.plans import SequentialPlan, ActionInstance

    cp = res.problem
    acc.outcome("ok:%s" % key)
    # ---- names unique -----------------------------------------------------------------
    groups = {
        "action": [a.name for a in cp.actions],
        "fluent": [f.name for f in cp.fluents],
        "object": [o.name for o in cp.all_objects],
        "type": [t.name for t in cp.user_types],
    }
    if hasattr(cp, "processes"):
        groups["action"] = groups["action"] + [x.name for x in cp.processes] + [x.name for x in cp.events]
    for g, lst in groups.items():
        dup = sorted(set(n for n in lst if lst.count(n) > 1))
        if dup:
            viol("duplicate-%s-name" % g, "compiled problem has duplicate %s names %s" % (g, dup))
    allnames = {}
    for g, lst in groups.items():
        for n in set(lst):
            allnames.setdefault(n, []).append(g)
    cross = {n: gs for n, gs in allnames.items() if len(gs) > 1}
    if cross:
        viol("name-shared-across-namespaces", "compiled problem uses one name in several namespaces: %s" % (cross,))
    if groups["action"] != [a.name for a in prob.actions] or groups["fluent"] != [f.name for f in prob.fluents]:
        acc.count("nontrivial")
    # ---- references declared ------------------------------------------------------------
    try:
        cps = gp.problem_to_spec(cp)
    except Exception as e:
        viol("extract-raises:%s" % type(e).__name__, "cannot read the compiled problem through the public API: %s" % (str(e)[:120],))
        return
    fl, ob, ty = set(groups["fluent"]), set(groups["object"]), set(groups["type"])
    missing = []

    def scan(x):
        if isinstance(x, tuple):
            if len(x) >= 2 and x[0] == "f" and isinstance(x[1], str):
                if x[1] not in fl:
                    missing.append(("fluent", x[1]))
            elif len(x) == 2 and x[0] == "o" and isinstance(x[1], str):
                if x[1] not in ob:
                    missing.append(("object", x[1]))
            elif len(x) == 2 and x[0] == "user":
                if x[1] not in ty:
                    missing.append(("type", x[1]))
            elif len(x) == 3 and x[0] == "v":
                if x[2] not in ty:
                    missing.append(("type", x[2]))
            for y in x:
                scan(y)
        elif isinstance(x, dict):
            for y in x.values():
                scan(y)

    for k in ("fluents", "actions", "dactions", "init", "goals", "traj", "teffs", "tgoals"):
        scan(cps.get(k, ()))
    m = cps.get("metric")
    if m is not None:
        scan(m)
        if m[0] == "costs":
            for an, _c in m[1]:
                if an not in groups["action"]:
                    missing.append(("action", an))
    if missing:
        viol("undeclared-reference", "compiled problem references undeclared %s" % (sorted(set(missing)),))
    # ---- plan back conversion -------------------------------------------------------------
    pbc = res.plan_back_conversion
    if pbc is None:
        viol("no-plan-back-conversion", "CompilerResult.plan_back_conversion is None")
        return
    if key in ("t2s", "datp"):
        return
    env = cp.environment
    orig_actions = set(a.name for a in prob.actions)
    try:
        p0 = pbc(SequentialPlan([], env))
        if len(p0.actions) != 0:
            viol("plan-back:empty", "empty plan converts back to %s" % (p0,))
    except Exception as e:
        viol("plan-back-raises:%s" % type(e).__name__, "plan_back_conversion(empty plan) raised %s" % (str(e)[:120],))
        return
    from mc.ref.seqsem import RefProblem

    try:
        cref = RefProblem(cps, {})
        cgas = cref.ground_actions()
    except Exception:
        return
    em = env.expression_manager
    for an, args in cgas[:16]:
        try:
            ai = ActionInstance(cp.action(an), tuple(cc._val(em, cp, a) for a in args))
            back = pbc(SequentialPlan([ai], env))
        except Exception as e:
            viol("plan-back-raises:%s" % type(e).__name__, "plan_back_conversion([%s%s]) raised %s" % (an, args, str(e)[:120]))
            break
        bad = [x.action.name for x in back.actions if x.action.name not in orig_actions or prob.action(x.action.name) != x.action]
        if bad:
            viol("plan-back:foreign-action", "plan_back_conversion returned actions %s that are not actions of the original problem" % (bad,))
            break
