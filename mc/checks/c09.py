"""C09 - declared resulting kind over-approximates the compiled kind; factory pipelines chain
(DESIGN 4/C09).

(A) compilers x in-kind instances: compiled.kind <= Compiler.resulting_problem_kind(problem.kind)
(B) resulting_problem_kind must not raise on ANY kind built from <= m features of the
    compiler's own supported kind (exercises branches no generated problem reaches)
(C) factory pipelines over all ordered pairs (thorough: triples) of compilation kinds: the
    pipeline the factory builds from problem.kind must compile the problem (every stage
    accepts the intermediate produced before it).
"""
from __future__ import annotations

from itertools import combinations, permutations

from mc.kernel.runner import Acc
from mc.gen import uprob, utemp
from mc.gen import problem as gp
from mc.gen.spec import tj
from mc.checks import simutil as su
from mc.checks import compcommon as cc
from mc.checks import c08

PROPERTY = "C09"
LEVEL = "exploration"
RULE = (
    "(A) the C08 (compiler, problem) universe; (B) per compiler all kinds made of <= m features of "
    "its supported kind (m=2 quick, 3 thorough); (C) per U-PROB instance of level <= 1 (core pools in quick) all ordered "
    "pairs of compilation kinds with a registered compiler; non-trivial = compile call whose output "
    "kind differs from the input kind, or a kind on which resulting_problem_kind changes something"
)
ASSUMPTIONS = [
    "uses the library's ProblemKind <= (C33 checks it)",
    "compile calls that raise are C08's subject (skipped and counted)",
]

ALL_KEYS = cc.COMPILER_KEYS + ["t2s", "datp"]


def bounds(tier):
    return {"features_per_kind": 2 if tier == "quick" else 3, "pipeline_length": 2 if tier == "quick" else 3}


def shards(tier, seed):
    out = []
    for key in cc.COMPILER_KEYS:
        for sh in su.chunk_cases(cc.universe(key, tier), seed, per_level_chunks={0: 1, 1: 2, 2: 6}):
            sh["compiler"], sh["part"] = key, "A"
            out.append(sh)
    tids = [(lv, cid) for lv, cid in utemp.case_ids("quick") if lv <= (1 if tier == "quick" else 2)]
    for key in ("t2s", "datp"):
        for sh in su.chunk_cases(tids, seed, per_level_chunks={0: 1, 1: 4, 2: 16}):
            sh["compiler"], sh["part"] = key, "T"
            out.append(sh)
    for key in ALL_KEYS:
        out.append({"level": 0, "compiler": key, "part": "B"})
    pids = []
    for level in (0, 1):
        for cid in uprob.ids(level, uprob.BASE_SLOTS + ["traj"], tier == "quick"):
            pids.append((level, cid))
    for sh in su.chunk_cases(pids, seed, per_level_chunks={0: 1, 1: 24}):
        sh["part"] = "C"
        out.append(sh)
    for i in range(len(C3_PROBLEMS)):
        out.append({"level": 1, "part": "C3", "problem": i})
    out.sort(key=lambda s: s["level"])
    return out


# part C3: three-stage pipelines on problems whose FIRST stage adds features (an object fluent
# assigned from a parameter -> conditional effects, equalities, ...; quantifiers -> disjunctions)
# with later stages that may not support them (timed-to-sequential, durative-actions-to-processes)
C3_PROBLEMS = ["object-fluent+durative", "object-fluent+quantifier+durative", "object-fluent"]


def _c3_problem(i):
    import unified_planning as up
    from collections import OrderedDict
    from unified_planning.model.timing import StartTiming, EndTiming
    from mc.gen.spec import fresh_env

    env = fresh_env()
    tm, em = env.type_manager, env.expression_manager
    T = tm.UserType("T")
    pos = up.model.Fluent("pos", T, None, env)
    ok = up.model.Fluent("ok", tm.BoolType(), OrderedDict(a=T), env)
    done = up.model.Fluent("done", tm.BoolType(), None, env)
    P = up.model.Problem("c3", env)
    o1, o2 = up.model.Object("o1", T, env), up.model.Object("o2", T, env)
    P.add_objects([o1, o2])
    P.add_fluent(pos, default_initial_value=o1)
    P.add_fluent(ok, default_initial_value=True)
    P.add_fluent(done, default_initial_value=False)
    name = C3_PROBLEMS[i]
    if "durative" in name:
        a = up.model.DurativeAction("go", OrderedDict(x=T), env)
        a.set_fixed_duration(2)
        x = a.parameter("x")
        cond = em.FluentExp(ok, (em.FluentExp(pos),))
        if "quantifier" in name:
            v = up.model.Variable("v", T, env)
            cond = em.And(cond, em.Exists(em.FluentExp(ok, (em.VariableExp(v),)), v))
        a.add_condition(StartTiming(), cond)
        a.add_effect(EndTiming(), pos, x)
        a.add_effect(EndTiming(), done, True)
    else:
        a = up.model.InstantaneousAction("go", OrderedDict(x=T), env)
        a.add_precondition(em.FluentExp(ok, (em.FluentExp(pos),)))
        a.add_effect(pos, a.parameter("x"))
        a.add_effect(done, True)
    P.add_action(a)
    P.add_goal(em.FluentExp(done))
    return P


def part_c3(i, acc):
    from unified_planning.engines import CompilationKind as CK
    from unified_planning.exceptions import UPNoSuitableEngineAvailableException, UPUsageError

    cks = [CK.USERTYPE_FLUENTS_REMOVING, CK.QUANTIFIERS_REMOVING, CK.NEGATIVE_CONDITIONS_REMOVING, CK.DISJUNCTIVE_CONDITIONS_REMOVING,
           CK.GROUNDING, CK.TIMED_TO_SEQUENTIAL, CK.DURATIVE_ACTIONS_TO_PROCESSES, CK.CONDITIONAL_EFFECTS_REMOVING]
    lab = "c3:" + C3_PROBLEMS[i]
    for seq in permutations(cks, 3):
        prob = _c3_problem(i)
        acc.count("evaluations")
        try:
            comp = prob.environment.factory.Compiler(problem_kind=prob.kind, compilation_kinds=list(seq))
        except UPNoSuitableEngineAvailableException:
            acc.count("skipped_no_pipeline")
            continue
        except Exception as e:
            acc.violation("factory-raises:%s:%s|%s" % (type(e).__name__, ">".join(c.name for c in seq), lab),
                          "Factory.Compiler raised %s: %s" % (type(e).__name__, str(e)[:120]), {"part": "C3", "problem": i})
            continue
        try:
            comp.compile(prob)
            acc.count("nontrivial")
            acc.outcome("pipeline3-ok")
        except UPUsageError as e:
            msg = str(e)
            if "cannot handle this kind" in msg or "cannot establish whether" in msg:
                acc.violation("pipeline-stage-rejects-intermediate:%s|%s" % (">".join(c.name for c in seq), lab),
                              "the pipeline the factory built for this problem kind fails on an intermediate problem: %s" % msg[:120],
                              {"part": "C3", "problem": i})
            else:
                acc.count("skipped_compile_raises")
        except Exception:
            acc.count("skipped_compile_raises")
            acc.outcome("pipeline-stage-raises")


def run_shard(shard, tier, seed):
    acc = Acc()
    part = shard["part"]
    if part == "C3":
        part_c3(shard["problem"], acc)
        return acc
    if part in ("A", "T"):
        key = shard["compiler"]
        for cid in shard["cids"]:
            cid = tuple(tuple(x) for x in cid)
            part_a(key, cid, part, acc)
    elif part == "B":
        part_b(shard["compiler"], 2 if tier == "quick" else 3, acc)
    else:
        for cid in shard["cids"]:
            part_c(tuple(tuple(x) for x in cid), 2 if tier == "quick" else 3, acc)
    return acc


def replay(case):
    acc = Acc()
    if case["part"] in ("A", "T"):
        part_a(case["compiler"], tuple(tuple(x) for x in case["cid"]), case["part"], acc)
    elif case["part"] == "B":
        part_b(case["compiler"], case.get("m", 2), acc)
    elif case["part"] == "C3":
        part_c3(case["problem"], acc)
    else:
        part_c(tuple(tuple(x) for x in case["cid"]), case.get("n", 2), acc)
    return [(fp, e["cases"][0]["what"]) for fp, e in acc.viol.items()]


def finalize(acc, tier=None):
    su.prune_supersets(acc)


def part_a(key, cid, part, acc):
    Cls, ck = c08._get(key)
    if part == "A":
        ps = uprob.make(dict(cid), cc.VARIANT.get(key))
        lab = cc.label(key, cid)
    else:
        ps = utemp.make(dict(cid))
        lab = utemp.label(cid)
    try:
        prob, _ = gp.build_problem(ps)
    except Exception:
        acc.count("skipped_rejected_at_build")
        return
    kind = prob.kind
    if not Cls.supports(kind):
        acc.count("skipped_unsupported_kind")
        return
    case = {"part": part, "compiler": key, "cid": tj(cid)}
    acc.count("evaluations")
    try:
        declared = Cls.resulting_problem_kind(kind, ck)
    except Exception as e:
        acc.violation(
            "resulting-kind-raises:%s:%s|%s" % (type(e).__name__, key, lab),
            "resulting_problem_kind raised %s: %s" % (type(e).__name__, str(e)[:120]),
            case,
        )
        return
    try:
        res = Cls().compile(prob, ck)
    except Exception:
        acc.count("skipped_compile_raises")
        return
    got = res.problem.kind
    # resulting_problem_kind is a function of its arguments: asking ANY compiler about this kind
    # (grounder and trajectory-constraints remover share code) must not change a later answer
    try:
        for k2 in ("grounder", "tcrm", key):
            C2, ck2 = c08._get(k2)
            C2.resulting_problem_kind(kind, ck2)
        again = Cls.resulting_problem_kind(kind, ck)
        if set(again.features) != set(declared.features) or set(kind.features) != set(prob.kind.features):
            acc.violation(
                "resulting-kind-unstable:%s|any-input" % key,
                "resulting_problem_kind(%s) answered %s, and after other resulting_problem_kind calls on the same kind %s" % (lab, sorted(declared.features ^ again.features), "differs by these features"),
                case,
            )
            return
    except Exception:
        pass
    if got.features != kind.features:
        acc.count("nontrivial")
    acc.outcome("%s:%s" % (key, "changed" if got.features != kind.features else "same"))
    if not (got <= declared):
        extra = sorted(got.features - declared.features)
        acc.violation(
            "kind-not-contained:%s:%s|any-input" % (key, ",".join(extra)),
            "compiled problem (input %s) has features %s that resulting_problem_kind does not declare" % (lab, extra),
            case,
        )


def part_b(key, m, acc):
    import unified_planning as up
    from unified_planning.model import ProblemKind
    from unified_planning.model.problem_kind_versioning import LATEST_PROBLEM_KIND_VERSION

    Cls, ck = c08._get(key)
    feats = sorted(Cls.supported_kind().features)
    seen_err = set()
    for r in range(0, m + 1):
        for combo in combinations(feats, r):
            try:
                k = ProblemKind(set(combo), version=LATEST_PROBLEM_KIND_VERSION)
            except Exception:
                acc.count("skipped_kind_not_constructible")
                continue
            acc.count("evaluations")
            try:
                out = Cls.resulting_problem_kind(k, ck)
                if out.features != k.features:
                    acc.count("nontrivial")
                acc.outcome("%s:ok" % key)
            except Exception as e:
                sig = (type(e).__name__, str(e)[:60])
                acc.outcome("%s:raises:%s" % (key, type(e).__name__))
                if sig in seen_err:
                    acc.count("violations_same_site")
                    continue
                seen_err.add(sig)
                acc.violation(
                    "resulting-kind-raises:%s:%s|%s" % (type(e).__name__, key, ",".join(combo) or "base"),
                    "resulting_problem_kind(%s) raised %s: %s" % (list(combo), type(e).__name__, str(e)[:120]),
                    {"part": "B", "compiler": key, "m": m},
                )


def part_c(cid, n, acc):
    import unified_planning as up
    from unified_planning.engines import CompilationKind as CK
    from unified_planning.exceptions import UPNoSuitableEngineAvailableException, UPUsageError

    ps = uprob.make(dict(cid))
    try:
        prob, _ = gp.build_problem(ps)
    except Exception:
        acc.count("skipped_rejected_at_build")
        return
    env = prob.environment
    lab = cc.label("", cid)
    cks = [cc.compilers()[k][1] for k in cc.COMPILER_KEYS]
    for r in range(2, n + 1):
        for seq in permutations(cks, r):
            acc.count("evaluations")
            try:
                comp = env.factory.Compiler(problem_kind=prob.kind, compilation_kinds=list(seq))
            except UPNoSuitableEngineAvailableException:
                acc.count("skipped_no_pipeline")
                continue
            except Exception as e:
                acc.violation(
                    "factory-raises:%s:%s|%s" % (type(e).__name__, ">".join(c.name for c in seq), lab),
                    "Factory.Compiler raised %s: %s" % (type(e).__name__, str(e)[:120]),
                    {"part": "C", "cid": tj(cid), "n": n},
                )
                continue
            try:
                comp.compile(prob)
                acc.count("nontrivial")
                acc.outcome("pipeline-ok")
            except UPUsageError as e:
                msg = str(e)
                if "cannot handle this kind" in msg or "cannot establish whether" in msg:
                    acc.violation(
                        "pipeline-stage-rejects-intermediate:%s|%s" % (">".join(c.name for c in seq), lab),
                        "the pipeline the factory built for this problem kind fails on an intermediate problem: %s" % msg[:120],
                        {"part": "C", "cid": tj(cid), "n": n},
                    )
                else:
                    acc.count("skipped_compile_raises")
            except Exception:
                acc.count("skipped_compile_raises")
                acc.outcome("pipeline-stage-raises")
