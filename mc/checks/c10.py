"""C10 - problem.kind reports every feature the problem syntactically uses (DESIGN 4/C10).

Oracle: mc/ref/kind.py (independent extractor, public model API only);
required  extracted  subset-of  problem.kind.features.

Families (all enumerated completely):
  uprob   every U-PROB problem (all slots incl. traj and metric) at the tier's deviation levels
  utemp   the temporal slot family mc/gen/tempfam.py
  sweep   one-deviation position sweeps mc/checks/c10_sweep.py (condition operators x condition
          positions, effect forms x effect positions, fluent kinds x duration / cost positions,
          parameter / fluent types, metrics, undefined initial values; plain, hierarchical,
          contingent, scheduling and multi-agent problems)
  bounds  minimal problems whose only numeric type is the (un)bounded int / real type under test
  corpus  unified_planning.test.examples (+ multi_agent examples) and up_test_cases builtin
"""
from __future__ import annotations

import json
import os
import sys

from mc.kernel.runner import Acc
from mc.gen import uprob, tempfam
from mc.gen import problem as gp
from mc.gen.spec import tj, fresh_env
from mc.ref import kind as rk
from mc.checks import simutil as su
from mc.checks import c10_sweep as sw

PROPERTY = "C10"
LEVEL = "exploration"
RULE = (
    "all U-PROB problems (15 slots incl. trajectory and metric) and all U-TEMP-lite problems "
    "(13 slots) with <= d deviating slots (d per tier); all one-deviation position sweeps "
    "(family x position x item x context, see c10_sweep.FAMILIES); every problem of the example "
    "and up_test_cases corpora; 72 minimal problems with one numeric type (int / real x no / lower / upper / both bounds x fluent / "
    "parameter). One evaluation = one problem whose kind is compared with the "
    "independent extractor; non-trivial = the extractor demands at least one feature beyond "
    "typing and problem class"
)
ASSUMPTIONS = [
    "only clear-cut syntactic features are demanded (list in mc/ref/kind.py); SIMPLE vs GENERAL numeric, "
    "Iff-as-disjunction, duration inequalities, intermediate conditions are not demanded",
    "a fluent the extractor finds static may be reported by the library as the non-static variant",
    "models the library rejects at construction time are skipped (counted)",
]

_TRIVIAL = {
    "FLAT_TYPING", "HIERARCHICAL_TYPING", "HIERARCHICAL", "ACTION_BASED_MULTI_AGENT", "SCHEDULING", "CONTINGENT",
    "OBJECT_FLUENTS", "BOUNDED_TYPES", "INT_FLUENTS", "REAL_FLUENTS",
}


def bounds(tier):
    return {
        "uprob_plan": uprob.plan(tier),
        "uprob_slots": uprob.SLOT_NAMES,
        "utemp_plan": tempfam.plan(tier),
        "utemp_slots": tempfam.SLOT_NAMES,
        "sweep_cases": len(sw.cases()),
        "sweep_families": {k: [len(v[0]), len(v[1])] for k, v in sw.FAMILIES.items()},
    }


def shards(tier, seed):
    out = []
    # level 0: sweeps + corpora + level-0/1 of the grammars ; higher levels: grammar deviations
    cs = sw.cases()
    k = 8
    for i in range(k):
        out.append({"level": 0, "family": "sweep", "cases": cs[i::k]})
    out.append({"level": 0, "family": "bounds"})
    out.append({"level": 0, "family": "corpus", "which": "examples"})
    out.append({"level": 0, "family": "corpus", "which": "builtin"})
    for sh in su.chunk_cases(uprob.case_ids(tier, uprob.SLOT_NAMES), seed, {0: 1, 1: 4, 2: 48, 3: 320}):
        sh["family"] = "uprob"
        out.append(sh)
    for sh in su.chunk_cases(tempfam.case_ids(tier), seed, {0: 1, 1: 4, 2: 32}):
        sh["family"] = "utemp"
        out.append(sh)
    out.sort(key=lambda s: s["level"])
    return out


# ------------------------------------------------------------------------------------------
def judge(acc, pb, family, label, case, level):
    """compare one problem's kind with the extractor"""
    acc.count("evaluations")
    ex = rk.extract(pb)  # an exception here is a harness error: the extractor must cope with every model
    try:
        feats = set(pb.kind.features)
    except Exception as e:
        acc.violation(
            "kind-raises:%s|%s:%s" % (type(e).__name__, family, label),
            "problem.kind raised %s: %s" % (type(e).__name__, e),
            dict(case, _level=level),
        )
        acc.outcome("kind-raises")
        return
    demanded = set(ex)
    if any(k.split("|")[-1] not in _TRIVIAL for k in demanded):
        acc.count("nontrivial")
    acc.count("features_demanded", len(demanded))
    for k in demanded:
        acc.outcome(k)
    for key, pos in rk.missing(ex, feats):
        acc.violation(
            "missing:%s@%s|%s:%s" % (key.replace("|", "/"), "+".join(pos), family, label),
            "kind lacks %s although the problem uses it at %s; kind=%s" % (key, ", ".join(pos), sorted(feats)),
            dict(case, _level=level),
        )


def _label(cid):
    return ",".join("%s#%d" % (s, i) for s, i in cid) or "base"


def run_shard(shard, tier, seed):
    acc = Acc()
    fam = shard["family"]
    if fam == "sweep":
        for c in shard["cases"]:
            run_sweep(acc, tuple(c))
    elif fam == "bounds":
        run_bounds(acc)
    elif fam == "corpus":
        run_corpus(acc, shard["which"])
    else:
        for cid in shard["cids"]:
            cid = tuple(tuple(x) for x in cid)
            run_grammar(acc, fam, cid, shard["level"])
    finalize(acc)  # per-shard minimisation too: a capped run skips the merged finalize
    return acc


def run_sweep(acc, c):
    fam, pos, it, cx = c
    try:
        pb = sw.build(fam, pos, it, cx)
    except sw.Skip:
        acc.count("skipped_no_syntax")
        return
    except Exception as e:
        acc.count("skipped_rejected_at_build")
        acc.outcome("build-rejected:" + type(e).__name__)
        return
    label = "%s/%s/%s" % (pos, it, cx)
    judge(acc, pb, "sweep-" + fam, label, {"family": "sweep", "case": list(c)}, 1 if cx == "none" else 2)
    acc.sample({"family": "sweep", "case": list(c)}, limit=2)


def run_grammar(acc, fam, cid, level):
    mod = uprob if fam == "uprob" else tempfam
    ps = mod.make(dict(cid))
    try:
        pb, _ctx = gp.build_problem(ps) if fam == "uprob" else tempfam.build(ps)
    except Exception as e:
        from unified_planning.exceptions import UPException

        if not isinstance(e, UPException):
            raise
        acc.count("skipped_rejected_at_build")
        acc.outcome("build-rejected:" + type(e).__name__)
        return
    judge(acc, pb, fam, _label(cid), {"family": fam, "cid": tj(cid)}, level)
    if fam == "uprob":
        staged(acc, ps, cid, level)
    if level >= 1:
        acc.sample({"family": fam, "cid": tj(cid)}, limit=1)


def staged(acc, ps, cid, level):
    """History variant: the same problem built in two stages - every action's FIRST effect is
    withheld, `kind` (and the static-fluent analysis) is queried on the partial model, then the
    withheld effects are added to the actions that are already inside the problem.  The kind
    of the finished model must not depend on the earlier query."""
    from unified_planning.exceptions import UPException

    ps2 = dict(ps)
    held = {}
    acts = []
    for a in ps["actions"]:
        if a["eff"]:
            held[a["name"]] = a["eff"][0]
            acts.append(dict(a, eff=tuple(a["eff"][1:])))
        else:
            acts.append(a)
    if not held:
        return
    ps2["actions"] = tuple(acts)
    try:
        pb, ctx = gp.build_problem(ps2)
        pb.kind
        pb.get_static_fluents()
        for an, e in held.items():
            act = pb.action(an)
            ctx.params = {p.name: p for p in act.parameters}
            gp.add_effect(ctx, act, e)
        ctx.params = {}
    except UPException as e:
        acc.count("skipped_rejected_at_build")
        return
    judge(acc, pb, "uprob-staged", _label(cid), {"family": "uprob-staged", "cid": tj(cid)}, level)


# family "bounds": minimal problems whose ONLY numeric type is the one under test (the sweep's base
# problem already has bounded fluents, which would hide a missing BOUNDED_TYPES)
BOUNDS_CASES = [(cls, kind, lo, hi, where) for cls in ("plain", "htn", "contingent") for kind in ("int", "real")
                for lo, hi in ((None, None), (0, None), (None, 5), (0, 5)) for where in ("fluent", "action-parameter", "fluent+goal")]


def run_bounds(acc, only=None):
    import unified_planning as up
    from collections import OrderedDict

    for case in BOUNDS_CASES:
        if only is not None and list(case) != list(only):
            continue
        cls, kind, lo, hi, where = case
        env = fresh_env()
        tm, em = env.type_manager, env.expression_manager
        if cls == "plain":
            pb = up.model.Problem("b", env)
        elif cls == "htn":
            from unified_planning.model.htn import HierarchicalProblem

            pb = HierarchicalProblem("b", env)
        else:
            from unified_planning.model.contingent import ContingentProblem

            pb = ContingentProblem("b", env)
        t = tm.IntType(lo, hi) if kind == "int" else tm.RealType(lo, hi)
        flag = up.model.Fluent("flag", tm.BoolType(), None, env)
        pb.add_fluent(flag, default_initial_value=False)
        if where == "action-parameter":
            a = up.model.InstantaneousAction("a", OrderedDict(k=t), env)
        else:
            z = up.model.Fluent("z", t, None, env)
            pb.add_fluent(z, default_initial_value=1)
            a = up.model.InstantaneousAction("a", _env=env)
            if where == "fluent+goal":
                pb.add_goal(em.Equals(em.FluentExp(z), em.Int(1)))
        a.add_effect(flag, True)
        pb.add_action(a)
        pb.add_goal(em.FluentExp(flag))
        label = "%s/%s[%s,%s]/%s" % (cls, kind, lo, hi, where)
        judge(acc, pb, "bounds", label, {"family": "bounds", "case": list(case)}, 1)


_CORPUS = {}


def corpus(which):
    if which in _CORPUS:
        return _CORPUS[which]
    fresh_env()
    out = {}
    if which == "examples":
        from unified_planning.test.examples import get_example_problems
        import unified_planning.test.examples.multi_agent as ma

        for k, v in get_example_problems().items():
            out["ex:" + k] = v.problem
        for k, v in ma.get_example_problems().items():
            out["ma:" + k] = v.problem
    else:
        import unified_planning

        repo = os.path.dirname(os.path.dirname(os.path.abspath(unified_planning.__file__)))
        p = os.path.join(repo, "up_test_cases")
        if p not in sys.path:
            sys.path.insert(0, p)
        from utils import _get_test_cases

        for k, v in _get_test_cases("builtin").items():
            out["tc:" + k] = v.problem
    _CORPUS[which] = out
    return out


def run_corpus(acc, which, only=None):
    for name, pb in sorted(corpus(which).items()):
        if only is not None and name != only:
            continue
        judge(acc, pb, "corpus", name, {"family": "corpus", "which": which, "name": name}, 3)
    acc.count("corpus_problems_" + which, len(corpus(which)))


def replay(case):
    acc = Acc()
    fam = case["family"]
    if fam == "sweep":
        run_sweep(acc, tuple(case["case"]))
    elif fam == "bounds":
        run_bounds(acc, only=case["case"])
    elif fam == "corpus":
        run_corpus(acc, case["which"], only=case["name"])
    else:
        run_grammar(acc, "uprob" if fam == "uprob-staged" else fam, tuple(tuple(x) for x in case["cid"]), case.get("_level", 0))
    return [(fp, e["cases"][0]["what"]) for fp, e in acc.viol.items()]


def finalize(acc, tier=None):
    """Root-cause oriented minimisation: per sub-oracle (missing feature @ positions) keep the
    single smallest failing input (lowest deviation level, then shortest case)."""
    best = {}
    for fp, e in acc.viol.items():
        sub = fp.split("|")[0] if not fp.startswith("missing:") else fp[: fp.rindex("|")]
        # multi-agent problems compute their kind in other code (and have a recorded finding):
        # they never stand in for a single-agent input with the same missing feature
        sub = (sub, "@ma" in fp[fp.rindex("|"):] or "ma:" in fp[fp.rindex("|"):])
        c0 = e["cases"][0]["case"]
        key = (c0.get("_level", 9), len(json.dumps(c0, default=str)), fp)
        if sub not in best or key < best[sub][0]:
            best[sub] = (key, fp)
    keep = {fp for _k, fp in best.values()}
    for fp in list(acc.viol):
        if fp not in keep:
            acc.c["violations_subsumed"] += acc.viol[fp]["count"]
            del acc.viol[fp]
