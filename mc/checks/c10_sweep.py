"""C10 position sweeps: one base world, one deviation = (position, item).

`cases()` lists every (family, position, item) triple; `build(family, position, item)` returns the
problem (built through the public modelling API in a fresh environment).  Families:
  cond   each condition operator in each condition position
  eff    each effect form in each effect position
  dur    each fluent kind in each duration position (lower / upper bound, each holder)
  cost   each fluent kind / number kind in each action-cost position
  param  each parameter type in each parameter position
  ftype  each fluent type / signature type
  metric each metric kind on each problem class
  undef  each undefined-initial-value form
"""
from __future__ import annotations

from collections import OrderedDict
from fractions import Fraction

import unified_planning as up
from unified_planning.model.timing import (
    StartTiming,
    EndTiming,
    GlobalStartTiming,
    GlobalEndTiming,
    TimeInterval,
    ClosedTimeInterval,
    OpenTimeInterval,
    TimePointInterval,
    DurationInterval,
    FixedDuration,
    Timing,
)

from mc.gen.spec import fresh_env


class W:
    """base world: everything has defaults; base action `w` writes the non-static fluents."""

    def __init__(self, cls="plain", bare=False):
        self.env = env = fresh_env()
        tm, em = env.type_manager, env.expression_manager
        self.tm, self.em = tm, em
        self.T = T = tm.UserType("T")
        self.S = tm.UserType("S", T)
        F = lambda name, t, **sig: up.model.Fluent(name, t, OrderedDict(sig), env)
        self.b = F("b", tm.BoolType())
        self.p = F("p", tm.BoolType(), o=T)
        self.st = F("st", tm.BoolType(), o=T)
        self.n = F("n", tm.IntType(0, 3))
        self.k = F("k", tm.IntType())
        self.u = F("u", tm.IntType())  # declared, otherwise unused: only the swept position reads it
        self.ur = F("ur", tm.RealType())  # idem, real
        self.c = F("c", tm.IntType(0, 2), o=T)  # static
        self.m = F("m", tm.RealType())
        self.ms = F("ms", tm.RealType())  # static
        self.r = F("r", T, o=T)
        self.rs = F("rs", T, o=T)  # static
        self.o1 = up.model.Object("o1", T, env)
        self.o2 = up.model.Object("o2", T, env)
        self.s1 = up.model.Object("s1", self.S, env)
        self.v = up.model.Variable("v", T, env)
        self.cls = cls
        self.agent = None
        if cls == "plain":
            pb = up.model.Problem("sweep", env)
        elif cls == "htn":
            pb = up.model.htn.HierarchicalProblem("sweep", env)
        elif cls == "contingent":
            pb = up.model.contingent.ContingentProblem("sweep", env)
        elif cls == "sched":
            pb = up.model.scheduling.SchedulingProblem("sweep", env)
        elif cls == "ma":
            pb = up.model.multi_agent.MultiAgentProblem("sweep", env)
        else:
            raise ValueError(cls)
        self.pb = pb
        self.bare = bare
        defaults = [
            (self.b, False), (self.p, False), (self.st, False), (self.n, 0), (self.k, 0), (self.u, 0),
            (self.ur, 0), (self.c, 1), (self.m, 0), (self.ms, 1), (self.r, self.o1), (self.rs, self.o1),
        ]
        if bare:  # no int fluent except the swept one (u); reals: only m (processes need one) and ur
            defaults = [d for d in defaults if d[0].name in ("b", "p", "st", "r", "rs", "u", "ur", "m")]
        if cls == "ma":
            self.agent = ag = up.model.multi_agent.Agent("ag", pb)
            for f, d in defaults:
                ag.add_public_fluent(f, default_initial_value=d)
            pb.add_agent(ag)
        else:
            for f, d in defaults:
                pb.add_fluent(f, default_initial_value=d)
        pb.add_objects([self.o1, self.o2, self.s1])
        if cls != "sched":
            w = up.model.InstantaneousAction("w", OrderedDict(x=T), env)
            x = w.parameter("x")
            w.add_effect(self.b, True)
            w.add_effect(self.p(x), True)
            if not bare:
                w.add_effect(self.n, 1)
                w.add_effect(self.k, 1)
            w.add_effect(self.m, 1)
            w.add_effect(self.r(x), self.o1)
            self.add_action(w)
            self.w = w
        else:
            a0 = pb.add_activity("w", duration=1)
            a0.add_effect(a0.end, self.b, True)
            a0.add_effect(a0.end, self.p(self.o1), True)
            if not bare:
                a0.add_effect(a0.end, self.n, 1)
                a0.add_effect(a0.end, self.k, 1)
            a0.add_effect(a0.end, self.m, 1)
            a0.add_effect(a0.end, self.r(self.o1), self.o1)
        if cls == "htn":
            self.task = pb.add_task("t")
            self.method = mth = up.model.htn.Method("mth", OrderedDict(x=T), env)
            mth.set_task(self.task)
            mth.add_subtask(self.w, mth.parameter("x"))
            pb.add_method(mth)
            pb.task_network.add_subtask(self.task)
        if cls != "sched":
            self.add_goal(self.b)

    # -- class-independent adders ------------------------------------------------------
    def add_action(self, a):
        if self.cls == "ma":
            self.agent.add_action(a)
        else:
            self.pb.add_action(a)

    def add_goal(self, g):
        self.pb.add_goal(self.fx(g))

    def fx(self, e):
        """MA goals read agent fluents through Dot"""
        if self.cls != "ma":
            return e
        e = self.em.auto_promote(e)[0]
        return self._dot(e)

    def _dot(self, e):
        em = self.em
        if e.is_fluent_exp():
            return em.Dot(self.agent, e)
        if e.is_exists():
            return em.Exists(self._dot(e.arg(0)), *e.variables())
        if e.is_forall():
            return em.Forall(self._dot(e.arg(0)), *e.variables())
        if not e.args:
            return e
        return _rebuild(em, e, [self._dot(a) for a in e.args])


def _rebuild(em, e, args):
    if e.is_and():
        return em.And(*args)
    if e.is_or():
        return em.Or(*args)
    if e.is_not():
        return em.Not(args[0])
    if e.is_implies():
        return em.Implies(*args)
    if e.is_iff():
        return em.Iff(*args)
    if e.is_equals():
        return em.Equals(*args)
    if e.is_le():
        return em.LE(*args)
    if e.is_lt():
        return em.LT(*args)
    if e.is_plus():
        return em.Plus(*args)
    raise ValueError(str(e))


# ---------------------------------------------------------------- condition items
def cond_items(w, x=None):
    """name -> expression; `x` is an action parameter when the position has one."""
    em = w.em
    o = x if x is not None else w.o1
    v = w.v
    return OrderedDict(
        [
            ("not", em.Not(w.b)),
            ("or", em.Or(w.b, w.p(o))),
            ("implies", em.Implies(w.b, w.p(o))),
            ("eq", em.Equals(w.r(o), w.o2)),
            ("exists", em.Exists(w.p(v), v)),
            ("forall", em.Forall(w.p(v), v)),
            ("and-not", em.And(w.b, em.Not(w.p(o)))),
            ("exists-not", em.Exists(em.Not(w.p(v)), v)),
            ("forall-or", em.Forall(em.Or(w.p(v), w.b), v)),
            ("not-eq", em.Not(em.Equals(w.rs(o), w.o1))),
            ("readint", em.LE(w.u, 1)),
            ("readreal", em.LT(w.ur, Fraction(1, 2))),
        ]
    )


COND_ITEM_NAMES = ["not", "or", "implies", "eq", "exists", "forall", "and-not", "exists-not", "forall-or", "not-eq", "readint", "readreal"]

# position -> (problem class, builder(w, item_name))
COND_POS = OrderedDict()


def cpos(name, cls="plain"):
    def deco(fn):
        COND_POS[name] = (cls, fn)
        return fn

    return deco


def _ia(w, name="a"):
    a = up.model.InstantaneousAction(name, OrderedDict(x=w.T), w.env)
    a.add_effect(w.p(a.parameter("x")), True)
    return a


def _da(w, name="d", lo=2, hi=None, params=True):
    d = up.model.DurativeAction(name, OrderedDict(x=w.T) if params else OrderedDict(), w.env)
    if hi is None:
        d.set_fixed_duration(lo)
    else:
        d.set_closed_duration_interval(lo, hi)
    d.add_effect(EndTiming(), w.p(d.parameter("x")) if params else w.b, True)
    return d


def _mk_precondition(cls):
    def fn(w, it):
        a = _ia(w)
        a.add_precondition(cond_items(w, a.parameter("x"))[it])
        w.add_action(a)

    return fn


def _mk_effcond(cls):
    def fn(w, it):
        a = _ia(w)
        a.add_effect(w.st(a.parameter("x")), True, condition=cond_items(w, a.parameter("x"))[it])
        w.add_action(a)

    return fn


def _mk_dcond(interval):
    def fn(w, it):
        d = _da(w)
        d.add_condition(interval(), cond_items(w, d.parameter("x"))[it])
        w.add_action(d)

    return fn


def _mk_deffcond(timing):
    def fn(w, it):
        d = _da(w)
        d.add_effect(timing(), w.st(d.parameter("x")), True, condition=cond_items(w, d.parameter("x"))[it])
        w.add_action(d)

    return fn


for _cls in ("plain", "htn", "contingent", "ma"):
    sfx = "" if _cls == "plain" else "@" + _cls
    COND_POS["precondition" + sfx] = (_cls, _mk_precondition(_cls))
    COND_POS["effect-condition" + sfx] = (_cls, _mk_effcond(_cls))
    if _cls in ("plain", "htn", "ma"):
        COND_POS["durative-condition-start" + sfx] = (_cls, _mk_dcond(lambda: StartTiming()))
        COND_POS["durative-effect-condition" + sfx] = (_cls, _mk_deffcond(lambda: EndTiming()))
COND_POS["durative-condition-overall"] = ("plain", _mk_dcond(lambda: ClosedTimeInterval(StartTiming(), EndTiming())))
COND_POS["durative-condition-open"] = ("plain", _mk_dcond(lambda: OpenTimeInterval(StartTiming(), EndTiming())))
COND_POS["durative-condition-end"] = ("plain", _mk_dcond(lambda: EndTiming()))
COND_POS["durative-condition-intermediate"] = ("plain", _mk_dcond(lambda: StartTiming(1)))
COND_POS["durative-effect-condition-start"] = ("plain", _mk_deffcond(lambda: StartTiming()))
COND_POS["durative-effect-condition-intermediate"] = ("plain", _mk_deffcond(lambda: StartTiming(1)))


@cpos("goal")
def _(w, it):
    w.add_goal(cond_items(w)[it])


@cpos("goal@htn", "htn")
def _(w, it):
    w.add_goal(cond_items(w)[it])


@cpos("goal@contingent", "contingent")
def _(w, it):
    w.add_goal(cond_items(w)[it])


@cpos("goal@ma", "ma")
def _(w, it):
    w.add_goal(cond_items(w)[it])


@cpos("public-goal@ma", "ma")
def _(w, it):
    w.agent.add_public_goal(cond_items(w)[it])


@cpos("private-goal@ma", "ma")
def _(w, it):
    w.agent.add_private_goal(cond_items(w)[it])


@cpos("timed-goal-interval")
def _(w, it):
    w.pb.add_timed_goal(ClosedTimeInterval(GlobalStartTiming(1), GlobalStartTiming(2)), cond_items(w)[it])


@cpos("timed-goal-point")
def _(w, it):
    w.pb.add_timed_goal(GlobalStartTiming(2), cond_items(w)[it])


@cpos("timed-goal-end")
def _(w, it):
    w.pb.add_timed_goal(OpenTimeInterval(GlobalStartTiming(1), GlobalEndTiming()), cond_items(w)[it])


@cpos("timed-effect-condition")
def _(w, it):
    w.pb.add_timed_effect(GlobalStartTiming(1), w.st(w.o1), True, cond_items(w)[it])


@cpos("invariant")
def _(w, it):
    w.pb.add_state_invariant(cond_items(w)[it])


@cpos("trajectory-sometime")
def _(w, it):
    w.pb.add_trajectory_constraint(w.em.Sometime(cond_items(w)[it]))


@cpos("trajectory-at-most-once")
def _(w, it):
    w.pb.add_trajectory_constraint(w.em.AtMostOnce(cond_items(w)[it]))


@cpos("trajectory-sometime-before-2nd")
def _(w, it):
    w.pb.add_trajectory_constraint(w.em.SometimeBefore(w.em.FluentExp(w.b), cond_items(w)[it]))


@cpos("trajectory-sometime-after-1st")
def _(w, it):
    w.pb.add_trajectory_constraint(w.em.SometimeAfter(cond_items(w)[it], w.em.FluentExp(w.b)))


@cpos("oversubscription-goal")
def _(w, it):
    w.pb.add_quality_metric(up.model.metrics.Oversubscription({cond_items(w)[it]: 2}, w.env))


@cpos("oversubscription-goal-2nd")
def _(w, it):
    w.pb.add_quality_metric(
        up.model.metrics.Oversubscription(OrderedDict([(w.em.FluentExp(w.b), 1), (cond_items(w)[it], 2)]), w.env)
    )


@cpos("temporal-oversubscription-goal")
def _(w, it):
    w.add_action(_da(w))
    iv = ClosedTimeInterval(GlobalStartTiming(1), GlobalStartTiming(2))
    w.pb.add_quality_metric(up.model.metrics.TemporalOversubscription({(iv, cond_items(w)[it]): 2}, w.env))


@cpos("event-precondition")
def _(w, it):
    ev = up.model.Event("ev", OrderedDict(x=w.T), w.env)
    ev.add_precondition(cond_items(w, ev.parameter("x"))[it])
    ev.add_effect(w.p(ev.parameter("x")), False)
    w.pb.add_event(ev)


@cpos("event-effect-condition")
def _(w, it):
    ev = up.model.Event("ev", OrderedDict(x=w.T), w.env)
    ev.add_precondition(w.b)
    ev.add_effect(w.st(ev.parameter("x")), True, condition=cond_items(w, ev.parameter("x"))[it])
    w.pb.add_event(ev)


@cpos("process-precondition")
def _(w, it):
    pr = up.model.Process("pr", OrderedDict(x=w.T), w.env)
    pr.add_precondition(cond_items(w, pr.parameter("x"))[it])
    pr.add_increase_continuous_effect(w.m, 1)
    w.pb.add_process(pr)


@cpos("method-precondition", "htn")
def _(w, it):
    w.method.add_precondition(cond_items(w, w.method.parameter("x"))[it])


def static_cond_items(w, x):
    """task-network constraints may only mention parameters / variables / constants"""
    em = w.em
    v = w.v
    if it_is_none(x):
        raise Skip("no parameter")
    return {
        "not": em.Not(em.Equals(x, w.o1)),
        "or": em.Or(em.Equals(x, w.o1), em.Equals(x, w.o2)),
        "implies": em.Implies(em.Equals(x, w.o1), em.Equals(x, w.o2)),
        "eq": em.Equals(x, w.o2),
        "exists": em.Exists(em.Equals(v, x), v),
        "forall": em.Forall(em.Equals(v, x), v),
        "and-not": em.And(em.Equals(x, x), em.Not(em.Equals(x, w.o2))),
        "exists-not": em.Exists(em.Not(em.Equals(v, x)), v),
        "forall-or": em.Forall(em.Or(em.Equals(v, x), em.Equals(v, w.o1)), v),
        "not-eq": em.Not(em.Equals(x, w.s1)),
    }


def it_is_none(x):
    return x is None


@cpos("method-constraint", "htn")
def _(w, it):
    items = static_cond_items(w, w.method.parameter("x"))
    if it not in items:
        raise Skip("constraints cannot read fluents")
    w.method.add_constraint(items[it])


@cpos("task-network-constraint", "htn")
def _(w, it):
    tv = w.pb.task_network.add_variable("tv", w.T)
    items = static_cond_items(w, tv)
    if it not in items:
        raise Skip("constraints cannot read fluents")
    w.pb.task_network.add_constraint(items[it])


@cpos("sensing-action-precondition", "contingent")
def _(w, it):
    sa = up.model.contingent.SensingAction("sense", OrderedDict(x=w.T), w.env)
    sa.add_precondition(cond_items(w, sa.parameter("x"))[it])
    sa.add_observed_fluent(w.p(sa.parameter("x")))
    w.pb.add_action(sa)


@cpos("sched-base-condition", "sched")
def _(w, it):
    w.pb.add_condition(ClosedTimeInterval(GlobalStartTiming(1), GlobalStartTiming(2)), cond_items(w)[it])


@cpos("sched-base-constraint", "sched")
def _(w, it):
    w.pb.add_constraint(cond_items(w)[it])


@cpos("sched-activity-condition", "sched")
def _(w, it):
    a = w.pb.add_activity("a", duration=2)
    a.add_condition(ClosedTimeInterval(Timing(0, a.start), Timing(0, a.end)), cond_items(w)[it])


@cpos("sched-activity-constraint", "sched")
def _(w, it):
    a = w.pb.add_activity("a", duration=2)
    a.add_constraint(cond_items(w)[it])


@cpos("sched-activity-effect-condition", "sched")
def _(w, it):
    a = w.pb.add_activity("a", duration=2)
    a.add_effect(a.end, w.st(w.o1), True, cond_items(w)[it])


@cpos("sched-base-effect-condition", "sched")
def _(w, it):
    w.pb.add_effect(GlobalStartTiming(1), w.st(w.o1), True, cond_items(w)[it])


# ---------------------------------------------------------------- effect items
def eff_apply(holder_add, w, it, x=None, timing=None):
    """adds effect form `it` through holder_add(kind, fluent, value, **kw)"""
    o = x if x is not None else w.o1
    em = w.em
    v = w.v
    table = {
        "conditional": ("assign", w.st(o), True, {"condition": em.FluentExp(w.b)}),
        "forall": ("assign", w.st(v), True, {"forall": [v]}),
        "increase": ("inc", w.k, 1, {}),
        "decrease": ("dec", w.k, 1, {}),
        "increase-real": ("inc", w.m, Fraction(1, 2), {}),
        "assign-bool-fluent": ("assign", w.st(o), w.p(o), {}),
        "assign-bool-static": ("assign", w.b, w.st(o), {}),
        "assign-bool-not-fluent": ("assign", w.st(o), em.Not(w.p(o)), {}),
        "assign-int-fluent": ("assign", w.k, w.n, {}),
        "assign-int-static": ("assign", w.k, w.c(o), {}),
        "assign-int-expr": ("assign", w.k, em.Plus(w.n, 1), {}),
        "assign-real-fluent": ("assign", w.m, w.ur, {}),
        "assign-real-static": ("assign", w.m, w.ms, {}),
        "assign-obj-fluent": ("assign", w.rs(o), w.r(w.o2), {}),
        "assign-obj-static": ("assign", w.r(o), w.rs(w.o2), {}),
        "increase-fluent": ("inc", w.k, w.n, {}),
        "increase-static": ("inc", w.k, w.c(o), {}),
        "decrease-fluent": ("dec", w.k, w.n, {}),
        "decrease-static": ("dec", w.k, w.c(o), {}),
        "conditional-increase": ("inc", w.k, 1, {"condition": em.FluentExp(w.b)}),
        "forall-conditional": ("assign", w.st(v), True, {"forall": [v], "condition": w.p(v)}),
        "write-unused-int": ("assign", w.u, 1, {}),
        "write-unused-real": ("assign", w.ur, 1, {}),
    }
    kind, fl, val, kw = table[it]
    holder_add(kind, fl, val, **kw)


EFF_ITEM_NAMES = [
    "conditional", "forall", "increase", "decrease", "increase-real", "assign-bool-fluent", "assign-bool-static",
    "assign-bool-not-fluent", "assign-int-fluent", "assign-int-static", "assign-int-expr", "assign-real-fluent",
    "assign-real-static", "assign-obj-fluent", "assign-obj-static", "increase-fluent", "increase-static",
    "decrease-fluent", "decrease-static", "conditional-increase", "forall-conditional", "write-unused-int",
    "write-unused-real",
]

EFF_POS = OrderedDict()


def _untimed_adder(a):
    def add(kind, fl, val, **kw):
        fn = {"assign": a.add_effect, "inc": a.add_increase_effect, "dec": a.add_decrease_effect}[kind]
        fn(fl, val, **kw)

    return add


def _timed_adder(a, timing, names=("add_effect", "add_increase_effect", "add_decrease_effect")):
    def add(kind, fl, val, **kw):
        fn = getattr(a, names[{"assign": 0, "inc": 1, "dec": 2}[kind]])
        fn(timing, fl, val, **kw)

    return add


def _mk_ia_eff(cls):
    def fn(w, it):
        a = _ia(w)
        eff_apply(_untimed_adder(a), w, it, a.parameter("x"))
        w.add_action(a)

    return fn


def _mk_da_eff(timing):
    def fn(w, it):
        d = _da(w)
        eff_apply(_timed_adder(d, timing()), w, it, d.parameter("x"))
        w.add_action(d)

    return fn


for _cls in ("plain", "htn", "contingent", "ma"):
    sfx = "" if _cls == "plain" else "@" + _cls
    EFF_POS["action-effect" + sfx] = (_cls, _mk_ia_eff(_cls))
    if _cls in ("plain", "htn", "ma"):
        EFF_POS["durative-effect-end" + sfx] = (_cls, _mk_da_eff(lambda: EndTiming()))
EFF_POS["durative-effect-start"] = ("plain", _mk_da_eff(lambda: StartTiming()))
EFF_POS["durative-effect-intermediate"] = ("plain", _mk_da_eff(lambda: StartTiming(1)))
EFF_POS["durative-effect-before-end"] = ("plain", _mk_da_eff(lambda: EndTiming() - 1))


def _timed_effect(w, it):
    eff_apply(
        _timed_adder(w.pb, GlobalStartTiming(1), ("add_timed_effect", "add_increase_effect", "add_decrease_effect")), w, it
    )


EFF_POS["timed-effect"] = ("plain", _timed_effect)
EFF_POS["timed-effect@htn"] = ("htn", _timed_effect)


def _event_effect(w, it):
    ev = up.model.Event("ev", OrderedDict(x=w.T), w.env)
    ev.add_precondition(w.b)
    eff_apply(_untimed_adder(ev), w, it, ev.parameter("x"))
    w.pb.add_event(ev)


EFF_POS["event-effect"] = ("plain", _event_effect)


def _sched_act_effect(w, it):
    a = w.pb.add_activity("a", duration=2)

    def add(kind, fl, val, **kw):
        if "forall" in kw:
            raise Skip("no forall effects on activities")
        fn = {"assign": a.add_effect, "inc": a.add_increase_effect, "dec": a.add_decrease_effect}[kind]
        fn(a.end, fl, val, **kw)

    eff_apply(add, w, it)


def _sched_base_effect(w, it):
    def add(kind, fl, val, **kw):
        if "forall" in kw:
            raise Skip("no forall effects on the base chronicle")
        fn = {"assign": w.pb.add_effect, "inc": w.pb.add_increase_effect, "dec": w.pb.add_decrease_effect}[kind]
        fn(GlobalStartTiming(1), fl, val, **kw)

    eff_apply(add, w, it)


EFF_POS["sched-activity-effect"] = ("sched", _sched_act_effect)
EFF_POS["sched-base-effect"] = ("sched", _sched_base_effect)


class Skip(Exception):
    pass


# continuous effects (own tiny item list)
CONT_ITEMS = ["inc-const", "dec-const", "inc-fluent", "dec-static"]
CONT_POS = OrderedDict()


def _cont_rhs(w, it):
    return {"inc-const": 1, "dec-const": 2, "inc-fluent": w.em.FluentExp(w.ur), "dec-static": w.em.FluentExp(w.ms)}[it]


def _cont_da(interval):
    def fn(w, it):
        d = _da(w)
        f = d.add_increase_continuous_effect if it.startswith("inc") else d.add_decrease_continuous_effect
        f(interval(), w.m, _cont_rhs(w, it))
        w.add_action(d)

    return fn


CONT_POS["durative-continuous-closed"] = ("plain", _cont_da(lambda: ClosedTimeInterval(StartTiming(), EndTiming())))
CONT_POS["durative-continuous-open"] = ("plain", _cont_da(lambda: OpenTimeInterval(StartTiming(), EndTiming())))
CONT_POS["durative-continuous-intermediate"] = ("plain", _cont_da(lambda: ClosedTimeInterval(StartTiming(1), EndTiming())))
CONT_POS["durative-continuous@htn"] = ("htn", _cont_da(lambda: ClosedTimeInterval(StartTiming(), EndTiming())))


def _cont_process(w, it):
    pr = up.model.Process("pr", OrderedDict(x=w.T), w.env)
    pr.add_precondition(w.p(pr.parameter("x")))
    f = pr.add_increase_continuous_effect if it.startswith("inc") else pr.add_decrease_continuous_effect
    f(w.m, _cont_rhs(w, it))
    w.pb.add_process(pr)


CONT_POS["process-effect"] = ("plain", _cont_process)

# ---------------------------------------------------------------- durations
DUR_ITEMS = ["static-int", "fluent-int", "fluent-int-expr", "static-real", "fluent-real", "static-int-nested", "unused-int"]
DUR_POS = OrderedDict()


def _dur_expr(w, it, x):
    em = w.em
    o = x if x is not None else w.o1
    return {
        "static-int": w.c(o),
        "fluent-int": em.FluentExp(w.n),
        "fluent-int-expr": em.Plus(w.n, 1),
        "static-real": em.FluentExp(w.ms),
        "fluent-real": em.Plus(w.m, 1),
        "static-int-nested": w.c(w.rs(o)),
        "unused-int": em.Plus(w.u, 1),
    }[it]


def _mk_dur(where, cls):
    def fn(w, it):
        d = up.model.DurativeAction("d", OrderedDict(x=w.T), w.env)
        e = _dur_expr(w, it, d.parameter("x"))
        real = it.endswith("real")
        big = Fraction(7, 2) if real else 9
        if where == "fixed":
            d.set_fixed_duration(e)
        elif where == "lower":
            d.set_closed_duration_interval(e, w.em.Plus(e, big))
        elif where == "upper":
            d.set_closed_duration_interval(0, e)
        elif where == "upper-open":
            d.set_open_duration_interval(0, e)
        elif where == "lower-left-open":
            d.set_left_open_duration_interval(e, 99)
        d.add_effect(EndTiming(), w.p(d.parameter("x")), True)
        w.add_action(d)

    return fn


for _where in ("fixed", "lower", "upper", "upper-open", "lower-left-open"):
    DUR_POS["duration-" + _where] = ("plain", _mk_dur(_where, "plain"))
DUR_POS["duration-fixed@htn"] = ("htn", _mk_dur("fixed", "htn"))
DUR_POS["duration-upper@htn"] = ("htn", _mk_dur("upper", "htn"))
DUR_POS["duration-fixed@ma"] = ("ma", _mk_dur("fixed", "ma"))


def _sched_dur(where):
    def fn(w, it):
        a = w.pb.add_activity("a")
        e = _dur_expr(w, it, None)
        if where == "fixed":
            a.set_fixed_duration(e)
        elif where == "lower":
            a.set_duration_bounds(e, 99)
        else:
            a.set_duration_bounds(0, e)

    return fn


for _where in ("fixed", "lower", "upper"):
    DUR_POS["sched-activity-duration-" + _where] = ("sched", _sched_dur(_where))

# ---------------------------------------------------------------- action costs
COST_ITEMS = ["int", "real", "static-int", "fluent-int", "fluent-int-expr", "static-real", "fluent-real", "param-static"]
COST_POS = OrderedDict()


def _cost_expr(w, it, x):
    em = w.em
    return {
        "int": em.Int(2),
        "real": em.Real(Fraction(3, 2)),
        "static-int": w.c(w.o1),
        "fluent-int": em.FluentExp(w.n),
        "fluent-int-expr": em.Plus(w.n, 1),
        "static-real": em.FluentExp(w.ms),
        "fluent-real": em.Plus(w.m, 1),
        "param-static": w.c(x),
    }[it]


def _mk_cost(where, cls):
    def fn(w, it):
        a = _ia(w)
        w.add_action(a)
        e = _cost_expr(w, it, a.parameter("x") if where != "default" else w.o2)
        if where == "cost":
            mt = up.model.metrics.MinimizeActionCosts({a: e, w.w: w.em.Int(1)}, None, w.env)
        elif where == "cost-2nd":
            mt = up.model.metrics.MinimizeActionCosts(OrderedDict([(w.w, w.em.Int(1)), (a, e)]), w.em.Int(1), w.env)
        else:
            mt = up.model.metrics.MinimizeActionCosts({w.w: w.em.Int(1)}, e, w.env)
        w.pb.add_quality_metric(mt)

    return fn


for _where in ("cost", "cost-2nd", "default"):
    COST_POS["action-" + _where] = ("plain", _mk_cost(_where, "plain"))
COST_POS["action-cost@htn"] = ("htn", _mk_cost("cost", "htn"))
COST_POS["action-default@htn"] = ("htn", _mk_cost("default", "htn"))
COST_POS["action-cost@contingent"] = ("contingent", _mk_cost("cost", "contingent"))


def _dur_cost(w, it):
    d = _da(w)
    w.add_action(d)
    e = _cost_expr(w, it, d.parameter("x"))
    w.pb.add_quality_metric(up.model.metrics.MinimizeActionCosts({d: e}, w.em.Int(1), w.env))


COST_POS["durative-action-cost"] = ("plain", _dur_cost)

# ---------------------------------------------------------------- parameters / fluent types
PARAM_ITEMS = ["bool", "int-bounded", "int-unbounded", "int-lower-only", "int-upper-only", "real", "real-bounded", "subtype", "type"]
PARAM_POS = OrderedDict()


def _ptype(w, it):
    tm = w.tm
    return {
        "bool": tm.BoolType(),
        "int-bounded": tm.IntType(0, 2),
        "int-unbounded": tm.IntType(),
        "int-lower-only": tm.IntType(0, None),
        "int-upper-only": tm.IntType(None, 5),
        "real": tm.RealType(),
        "real-bounded": tm.RealType(0, 1),
        "subtype": tm.UserType("S2", tm.UserType("T2")),
        "type": tm.UserType("T3"),
    }[it]


def _param_ia(w, it):
    a = up.model.InstantaneousAction("a", OrderedDict(x=w.T, y=_ptype(w, it)), w.env)
    a.add_effect(w.p(a.parameter("x")), True)
    w.add_action(a)


def _param_da(w, it):
    d = up.model.DurativeAction("d", OrderedDict(x=w.T, y=_ptype(w, it)), w.env)
    d.set_fixed_duration(2)
    d.add_effect(EndTiming(), w.p(d.parameter("x")), True)
    w.add_action(d)


def _param_event(w, it):
    ev = up.model.Event("ev", OrderedDict(x=w.T, y=_ptype(w, it)), w.env)
    ev.add_precondition(w.b)
    ev.add_effect(w.p(ev.parameter("x")), False)
    w.pb.add_event(ev)


def _param_process(w, it):
    pr = up.model.Process("pr", OrderedDict(x=w.T, y=_ptype(w, it)), w.env)
    pr.add_precondition(w.b)
    pr.add_increase_continuous_effect(w.m, 1)
    w.pb.add_process(pr)


def _param_activity(w, it):
    a = w.pb.add_activity("a", duration=2)
    a.add_parameter("y", _ptype(w, it))


def _param_sensing(w, it):
    sa = up.model.contingent.SensingAction("sense", OrderedDict(x=w.T, y=_ptype(w, it)), w.env)
    sa.add_observed_fluent(w.p(sa.parameter("x")))
    w.pb.add_action(sa)


PARAM_POS["action-parameter"] = ("plain", _param_ia)
PARAM_POS["action-parameter@htn"] = ("htn", _param_ia)
PARAM_POS["action-parameter@contingent"] = ("contingent", _param_ia)
PARAM_POS["action-parameter@ma"] = ("ma", _param_ia)
PARAM_POS["durative-action-parameter"] = ("plain", _param_da)
PARAM_POS["event-parameter"] = ("plain", _param_event)
PARAM_POS["process-parameter"] = ("plain", _param_process)
PARAM_POS["sched-activity-parameter"] = ("sched", _param_activity)
PARAM_POS["sensing-action-parameter"] = ("contingent", _param_sensing)

FTYPE_ITEMS = [
    "int", "int-bounded", "int-lower-only", "int-upper-only", "real", "real-bounded", "real-lower-only",
    "real-upper-only", "object", "object-subtype", "sig-bool", "sig-int-bounded", "sig-subtype", "sig-2nd-bool",
]
FTYPE_POS = OrderedDict()


def _mk_ftype(cls):
    def fn(w, it):
        tm, env = w.tm, w.env
        T2 = lambda: tm.UserType("T2")
        S2 = lambda: tm.UserType("S2", T2())
        table = {
            "int": (tm.IntType(), {}, 0),
            "int-bounded": (tm.IntType(0, 5), {}, 0),
            "int-lower-only": (tm.IntType(0, None), {}, 0),
            "int-upper-only": (tm.IntType(None, 5), {}, 0),
            "real": (tm.RealType(), {}, 0),
            "real-bounded": (tm.RealType(0, 5), {}, 0),
            "real-lower-only": (tm.RealType(0, None), {}, 0),
            "real-upper-only": (tm.RealType(None, Fraction(11, 2)), {}, 0),
            "object": (w.T, {}, w.o1),
            "object-subtype": (w.S, {}, w.s1),
            "sig-bool": (tm.BoolType(), OrderedDict(y=tm.BoolType()), False),
            "sig-int-bounded": (tm.BoolType(), OrderedDict(y=tm.IntType(0, 2)), False),
            "sig-subtype": (tm.BoolType(), OrderedDict(y=w.S), False),
            "sig-2nd-bool": (tm.BoolType(), OrderedDict(x=w.T, y=tm.BoolType()), False),
        }
        t, sig, dflt = table[it]
        f = up.model.Fluent("z", t, OrderedDict(sig), env)
        if cls == "ma":
            w.agent.add_private_fluent(f, default_initial_value=dflt)
        elif cls == "ma-env":
            w.pb.ma_environment.add_fluent(f, default_initial_value=dflt)
        else:
            w.pb.add_fluent(f, default_initial_value=dflt)
        # make it "used": a goal / constraint reads it when it has no parameters
        if not sig:
            em = w.em
            g = em.Equals(f, dflt) if not t.is_bool_type() else em.FluentExp(f)
            if cls == "sched":
                w.pb.add_condition(TimePointInterval(GlobalStartTiming(1)), g)
            elif cls == "ma":
                w.pb.add_goal(em.Equals(em.Dot(w.agent, f), dflt))
            else:
                w.pb.add_goal(g)

    return fn


FTYPE_POS["fluent"] = ("plain", _mk_ftype("plain"))
FTYPE_POS["fluent@htn"] = ("htn", _mk_ftype("htn"))
FTYPE_POS["fluent@contingent"] = ("contingent", _mk_ftype("contingent"))
FTYPE_POS["fluent@sched"] = ("sched", _mk_ftype("sched"))
FTYPE_POS["agent-fluent@ma"] = ("ma", _mk_ftype("ma"))
FTYPE_POS["env-fluent@ma"] = ("ma", _mk_ftype("ma-env"))

# ---------------------------------------------------------------- metrics
METRIC_ITEMS = ["plan-length", "action-costs", "final-min", "final-max", "makespan", "oversubscription-int", "oversubscription-real", "temporal-oversubscription-int", "temporal-oversubscription-real"]
METRIC_POS = OrderedDict()


def _mk_metric(cls):
    def fn(w, it):
        env, em = w.env, w.em
        M = up.model.metrics
        iv = ClosedTimeInterval(GlobalStartTiming(1), GlobalStartTiming(2))
        if it in ("makespan", "temporal-oversubscription-int", "temporal-oversubscription-real") and cls != "sched":
            w.add_action(_da(w))
        if it == "action-costs" and cls == "sched":
            raise Skip("no actions")
        mt = {
            "plan-length": lambda: M.MinimizeSequentialPlanLength(env),
            "action-costs": lambda: M.MinimizeActionCosts({w.w: em.Int(2)}, None, env),
            "final-min": lambda: M.MinimizeExpressionOnFinalState(em.FluentExp(w.k), env),
            "final-max": lambda: M.MaximizeExpressionOnFinalState(em.Plus(w.m, 1), env),
            "makespan": lambda: M.MinimizeMakespan(env),
            "oversubscription-int": lambda: M.Oversubscription({em.FluentExp(w.b): 3}, env),
            "oversubscription-real": lambda: M.Oversubscription({em.FluentExp(w.b): Fraction(1, 2)}, env),
            "temporal-oversubscription-int": lambda: M.TemporalOversubscription({(iv, em.FluentExp(w.b)): 3}, env),
            "temporal-oversubscription-real": lambda: M.TemporalOversubscription({(iv, em.FluentExp(w.b)): Fraction(1, 2)}, env),
        }[it]()
        w.pb.add_quality_metric(mt)

    return fn


for _cls in ("plain", "htn", "contingent", "sched"):
    METRIC_POS["metric" + ("" if _cls == "plain" else "@" + _cls)] = (_cls, _mk_metric(_cls))

# ---------------------------------------------------------------- undefined initial values
UNDEF_ITEMS = ["bool", "int", "real", "object", "bool-partial", "int-partial", "object-partial", "bool-all-explicit", "int-no-objects"]
UNDEF_POS = OrderedDict()


def _mk_undef(cls):
    def fn(w, it):
        tm, env = w.tm, w.env
        E = tm.UserType("Empty")
        table = {
            "bool": (tm.BoolType(), {}),
            "int": (tm.IntType(), {}),
            "real": (tm.RealType(0, 1), {}),
            "object": (w.T, {}),
            "bool-partial": (tm.BoolType(), OrderedDict(o=w.T)),
            "int-partial": (tm.IntType(0, 3), OrderedDict(o=w.T)),
            "object-partial": (w.T, OrderedDict(o=w.S, o2=w.S)),
            "bool-all-explicit": (tm.BoolType(), OrderedDict(o=w.S)),
            "int-no-objects": (tm.IntType(), OrderedDict(o=E)),
        }
        t, sig = table[it]
        f = up.model.Fluent("z", t, OrderedDict(sig), env)
        if cls == "ma":
            w.agent.add_private_fluent(f)
        else:
            w.pb.add_fluent(f)
        if it == "bool-partial":
            w.pb.set_initial_value(f(w.o1), True)
        elif it == "int-partial":
            w.pb.set_initial_value(f(w.o1), 1)
            w.pb.set_initial_value(f(w.s1), 1)
        elif it == "bool-all-explicit":
            w.pb.set_initial_value(f(w.s1), True)

    return fn


for _cls in ("plain", "htn", "contingent", "sched"):
    UNDEF_POS["initial-state" + ("" if _cls == "plain" else "@" + _cls)] = (_cls, _mk_undef(_cls))

FAMILIES = OrderedDict(
    [
        ("cond", (COND_POS, COND_ITEM_NAMES)),
        ("eff", (EFF_POS, EFF_ITEM_NAMES)),
        ("cont", (CONT_POS, CONT_ITEMS)),
        ("dur", (DUR_POS, DUR_ITEMS)),
        ("cost", (COST_POS, COST_ITEMS)),
        ("param", (PARAM_POS, PARAM_ITEMS)),
        ("ftype", (FTYPE_POS, FTYPE_ITEMS)),
        ("metric", (METRIC_POS, METRIC_ITEMS)),
        ("undef", (UNDEF_POS, UNDEF_ITEMS)),
    ]
)

# second deviation, only for the items that read / write the otherwise unused numeric fluents
# u / ur: a bare world (no other numeric fluent, so INT/REAL_FLUENTS can only come from the swept
# position), optionally with u / ur ALSO read by a duration or by an action cost (the library then
# has to notice that the fluent is used elsewhere too)
CONTEXTS = ["none", "bare", "bare+duration", "bare+cost"]
NUMERIC_READ_ITEMS = ("readint", "readreal", "write-unused-int", "write-unused-real")


def cases():
    out = []
    for fam, (positions, items) in FAMILIES.items():
        for pos in positions:
            for it in items:
                for cx in CONTEXTS if it in NUMERIC_READ_ITEMS else ("none",):
                    out.append((fam, pos, it, cx))
    return out


def build(fam, pos, it, cx="none"):
    """-> problem, or raises Skip (combination has no syntax) / library exceptions"""
    positions, _items = FAMILIES[fam]
    cls, fn = positions[pos]
    w = W(cls, bare=cx.startswith("bare"))
    if cx == "bare+duration":
        if cls in ("sched", "contingent"):
            raise Skip("no durative context")
        d = up.model.DurativeAction("dctx", OrderedDict(x=w.T), w.env)
        d.set_closed_duration_interval(w.em.Plus(w.u, 1), w.em.Plus(w.ur, 5))
        d.add_effect(EndTiming(), w.p(d.parameter("x")), True)
        w.add_action(d)
    elif cx == "bare+cost":
        if cls in ("sched", "ma") or fam in ("cost", "metric") or "oversubscription" in pos:
            raise Skip("no second metric")
        w.pb.add_quality_metric(
            up.model.metrics.MinimizeActionCosts({w.w: w.em.Plus(w.u, 1)}, w.em.Plus(w.ur, 1), w.env)
        )
    fn(w, it)
    return w.pb
