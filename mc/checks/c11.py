"""C11 - simplification preserves meaning (DESIGN 4/C11).

Every U-EXPR tree of each narrowed profile is simplified by the environment simplifier
(`e.simplify()`) and - when it mentions a static fluent - by `Simplifier(env, problem)` for two
problems that make q and k static.  Oracles, per tree:
  value  for EVERY interpretation of the tree's fluents / parameters / free variables (complete
         product of the 3.1 value sets; static fluents fixed to their initial values):
         ref.eval(e) defined  =>  ref.eval(simplify(e)) == ref.eval(e)
  raises simplify raised although e has a value under some interpretation
  fvars  free variables of the result are free variables of e
  idem   simplify(simplify(e)) is simplify(e)
"""
from __future__ import annotations

from fractions import Fraction

from mc.kernel.runner import Acc
from mc.gen import uexpr as U
from mc.gen.spec import tj, fj, to_spec
from mc.ref.eval import Bottom, ev
from mc.checks import exprutil as X

PROPERTY = "C11"
LEVEL = "exploration"
RULE = (
    "all well-typed U-EXPR trees with <= N operator nodes above the atoms of each leaf-pool "
    "profile (see bounds), canonical specs, each under the environment simplifier and, if it "
    "mentions a static fluent, under Simplifier(env, problem) for 2 problems; per tree ALL "
    "interpretations = complete product of the per-symbol value sets; an evaluation = one "
    "(tree, mode, interpretation) with a defined reference value; non-trivial tree = "
    "simplify(e) is not e"
)
ASSUMPTIONS = [
    "reference evaluator mc/ref/eval.py is strict: a tree with a division by zero or an undefined "
    "read anywhere has no value under that interpretation and nothing is demanded there",
    "infinite domains are covered only at the stated sample points (endpoints, 0, +-1, +-10**6, "
    "+-(2**53+1)); object-valued g ranges over {a1,b1}",
    "trees whose construction raises are skipped and counted (C15's subject)",
]

B = lambda v: ("b", v)
I = lambda v: ("i", v)
FL = lambda n, *a: ("f", n) + a
O = lambda n: ("o", n)
V = ("v", "v", "A")
VB = ("v", "vb", "B")
V2 = ("v", "v2", "A")
V3 = ("v", "v3", "A")
PX = ("p", "x")
H = 2**53 + 1

PROFILES = [
    {
        "name": "bool",
        "leaves": [B(True), B(False), FL("p"), FL("q", O("a1")), FL("q", PX)],
        "ops": ["and", "or", "not", "implies", "iff"],
        "N": {"quick": 2, "thorough": 2},
    },
    {
        "name": "bool3",
        "leaves": [B(True), FL("p"), FL("q", PX)],
        "ops": ["and", "or", "not", "implies", "iff"],
        "arities": (2,),
        "N": {"thorough": 3},
    },
    {
        "name": "quant",
        "leaves": [
            FL("p"),
            FL("q", V),
            ("eq", V, PX),
            ("eq", V, FL("g", V)),
            ("eq", PX, VB),
            ("eq", O("a1"), V),
        ],
        "ops": ["and", "or", "not", "exists", "forall"],
        "qvars": (((("v", "A"),)), ((("vb", "B"),)), (("v", "A"), ("vb", "B"))),
        "N": {"quick": 2, "thorough": 2},
    },
    {
        "name": "quant3",
        "leaves": [FL("q", V), ("eq", V, FL("g", V)), ("eq", VB, PX), ("eq", V, O("a2"))],
        "ops": ["and", "not", "exists", "forall"],
        "arities": (2,),
        "N": {"thorough": 3},
    },
    {
        "name": "quant-eq",
        "leaves": [FL("q", V), FL("q", FL("g", PX)), V, VB, PX, O("a1"), O("b1"), FL("g", V), FL("g", O("a1"))],
        "ops": ["and", "exists", "forall", "eq"],
        "arities": (2,),
        "N": {"quick": 2, "thorough": 3},
        "sorts": ("bool",),
    },
    {
        "name": "arith",
        "leaves": [I(0), I(1), I(-1), ("r", 1, 2), FL("n"), FL("k"), FL("r")],
        "ops": ["+", "-", "*", "/", "eq", "le", "lt"],
        "arities": (2,),
        "N": {"quick": 2, "thorough": 2},
    },
    {
        "name": "arith-big",
        "leaves": [I(H), I(2**64), I(10**30), ("r", 1, 10**20), I(3), I(-1), FL("k")],
        "ops": ["+", "-", "*", "/", "eq", "le", "lt"],
        "arities": (2,),
        "N": {"quick": 2, "thorough": 2},
    },
    {
        "name": "arith3",
        "leaves": [I(2), ("r", -3, 2), FL("n"), FL("u")],
        "ops": ["+", "-", "*", "/", "le"],
        "arities": (2,),
        "N": {"thorough": 3},
    },
    {
        "name": "arith-big3",
        "leaves": [I(2**64), I(3), FL("h"), ("p", "j")],
        "ops": ["+", "-", "*", "/", "eq"],
        "arities": (2,),
        "N": {"thorough": 3},
    },
    {
        "name": "nary",
        "leaves": [I(0), I(1), I(2), ("r", 1, 2), ("r", -3, 2), I(H), FL("n"), FL("w"), ("p", "i")],
        "ops": ["+", "*"],
        "arities": (3,),
        "nary3_leaf_only": False,
        "N": {"quick": 1, "thorough": 1},
    },
    {
        "name": "static",
        "leaves": [FL("q", O("a1")), FL("q", O("a2")), FL("q", PX), FL("p"), FL("k"), FL("n"), I(2), I(H)],
        "ops": ["and", "or", "not", "implies", "eq", "le", "+", "*", "/"],
        "arities": (2,),
        "N": {"quick": 2, "thorough": 2},
    },
    {
        "name": "static-quant",
        "leaves": [FL("q", V), FL("q", O("b1")), ("eq", V, PX), ("le", FL("k"), I(2)), ("eq", FL("g", V), O("a1"))],
        "ops": ["and", "or", "not", "exists", "forall"],
        "arities": (2,),
        "N": {"quick": 2, "thorough": 3},
    },
    {
        # a free variable that is also bound by a nested quantifier: exists-elimination must
        # not capture it (exists v.((v == v2) & forall v2. q(v)))
        "name": "capture",
        "leaves": [FL("q", V), FL("q", V2), ("eq", V, V2)],
        "ops": ["and", "or", "exists", "forall"],
        "arities": (2,),
        "qvars": ((("v", "A"),), (("v2", "A"),)),
        "N": {"quick": 3, "thorough": 3},
    },
    {
        # the capturing binder sits two quantifiers deep inside the sibling conjunct and the outer
        # one binds a third variable (exists v.((v == v2) & exists v3. forall v2. q(v))): both
        # binders' variables are used (an unused one is dropped first, which flattens the nest); a capture
        # test that stops at the first quantifier it meets misses it (seed C11-3)
        "name": "capture-deep",
        "leaves": [
            ("eq", V, V2),
            ("forall", (("v2", "A"),), ("or", FL("q", V), FL("q", V2), FL("q", V3))),
            ("exists", (("v2", "A"),), ("and", FL("q", V), FL("q", V2))),
            FL("q", V3),
        ],
        "ops": ["and", "exists", "forall"],
        "arities": (2,),
        "qvars": ((("v", "A"),), (("v3", "A"),)),
        "N": {"quick": 3, "thorough": 4},
    },
    {
        "name": "ifun",
        "leaves": [
            ("ifun", "F", FL("n")),
            ("ifun", "F", I(2)),
            ("ifun", "F", I(H)),
            ("ifun", "G", FL("n")),
            ("ifun", "G", I(3)),
            ("ifun", "G", I(H)),
            ("ifun", "G", ("ifun", "F", I(2))),
            I(3),
        ],
        "ops": ["and", "not", "eq", "le", "+", "*"],
        "arities": (2,),
        "N": {"quick": 2, "thorough": 2},
    },
]

STATICS = {
    "P1": {("q", "a1"): True, ("q", "a2"): False, ("q", "b1"): True, ("k",): 2},
    "P2": {("q", "a1"): False, ("q", "a2"): True, ("q", "b1"): False, ("k",): H},
}
# "P2|P1": the SAME environment holds problem P1 and its clone with P2's initial values (clone
# keeps the name); every tree is first simplified relative to P1, then relative to the clone,
# and judged against P2's statics - a simplifier must not remember another problem's values.
STATICS["P2|P1"] = STATICS["P2"]
MODES = ["env", "P1", "P2", "P2|P1"]
STATIC_FLUENTS = ("q", "k")

VALS = dict(U.VALS_FULL)
VALS["g"] = ["a1", "b1"]


def bounds(tier):
    return {
        "profiles": X.profile_bounds(PROFILES, tier),
        "modes": MODES,
        "statics": {m: {"%s(%s)" % (k[0], ",".join(k[1:])): str(v) for k, v in d.items()} for m, d in STATICS.items()},
        "value_sets": {k: [str(x) for x in v] for k, v in VALS.items()},
    }


def shards(tier, seed):
    out = []
    for m in MODES:
        out.extend(X.make_shards(PROFILES, tier, per_shard=2500, extra={"mode": m}))
    out.sort(key=lambda s: s["level"])
    return out


def _world(mode):
    if mode == "P2|P1":
        w = U.World(statics=STATICS["P1"])
        w.problem2 = w.problem.clone()
        for key, v in STATICS["P2"].items():
            fe = w.em.FluentExp(w.ctx.fluents[key[0]], tuple(w.val(a) for a in key[1:]))
            w.problem2.set_initial_value(fe, w.val(v))
        return w
    return U.World(statics=STATICS[mode]) if mode != "env" else U.World()


def _mentions_static(spec):
    fl = U.symbols(spec)["fl"]
    return any(f in fl for f in STATIC_FLUENTS)


class Simp:
    def __init__(self, mode):
        self.mode = mode
        self.h = X.Holder(lambda: _world(mode))
        self._mk()

    def _mk(self):
        from unified_planning.model.walkers import Simplifier

        w = self.h.world
        self.s = Simplifier(w.env, w.problem) if self.mode != "env" else None
        self.s_pre = None
        if self.mode == "P2|P1":
            self.s_pre = self.s
            self.s = Simplifier(w.env, w.problem2)

    def renew(self):
        self.h.renew()
        self._mk()

    def simplify(self, e):
        if self.s_pre is not None:
            self.s_pre.simplify(e)
        return e.simplify() if self.s is None else self.s.simplify(e)


def _same(a, b):
    if isinstance(a, bool) or isinstance(b, bool):
        return a is b
    return a == b


def judge(sm, spec, stats=None):
    """-> (status, {sub-oracle: (what, detail)}).  Pure apart from renewing the world."""
    mode = sm.mode
    fixed = STATICS[mode] if mode != "env" else None
    axes = U.interp_axes([spec], VALS, fixed)
    try:
        e = X.build(sm.h.world, spec)
    except X.HarnessError:
        raise
    except Exception as ex:
        sm.renew()
        for It in U.interpretations(None, axes=axes):
            try:
                ev(spec, It)
            except Bottom:
                continue
            return "unbuildable-but-defined:" + type(ex).__name__, {}  # C15's subject
        return "unbuildable-undefined-everywhere:" + type(ex).__name__, {}
    try:
        s1 = sm.simplify(e)
    except Exception as ex:
        sm.renew()
        # a value under some interpretation?
        for It in U.interpretations(None, axes=axes):
            try:
                ev(spec, It)
            except Bottom:
                continue
            return "raises", {
                "raises:" + type(ex).__name__: (
                    "simplify raised %s: %s although the expression has a value under %s"
                    % (type(ex).__name__, ex, U.interp_label(It)),
                    {},
                )
            }
        return "vacuous-raises", {}
    out = {}
    spec1 = to_spec(s1)
    status = "unchanged" if s1 is e else ("constant" if s1.is_constant() else "rewritten")
    # idempotence
    try:
        s2 = sm.simplify(s1)
        if s2 is not s1:
            out["idem"] = ("simplify(simplify(e)) = %s but simplify(e) = %s" % (U.label(to_spec(s2)), U.label(spec1)), {})
    except Exception as ex:
        sm.renew()
        out["idem"] = ("simplify(simplify(e)) raised %s: %s; simplify(e) = %s" % (type(ex).__name__, ex, U.label(spec1)), {})
    # free variables
    new_fv = U.free_vars(spec1) - U.free_vars(spec)
    if new_fv:
        out["fvars"] = (
            "simplify(e) = %s has new free variable(s) %s" % (U.label(spec1), sorted(new_fv)),
            {},
        )
        return status, out
    if s1 is e:
        return status, out
    # value under every interpretation
    nev = 0
    for It in U.interpretations(None, axes=axes):
        try:
            v = ev(spec, It)
        except Bottom:
            continue
        nev += 1
        try:
            v1 = ev(spec1, It)
        except (Bottom, KeyError) as ex:
            v1 = "undefined(%s)" % (ex,)
        if not _same(v, v1):
            out["value"] = (
                "simplify(e) = %s evaluates to %s, e to %s under %s" % (U.label(spec1), v1, v, U.interp_label(It)),
                {"interp": U.interp_label(It)},
            )
            break
    if stats is not None:
        stats["evals"] = nev
    return status, out


def check_case(sm, spec, acc, profile=""):
    mode = sm.mode
    stats = {}
    status, viols = judge(sm, spec, stats)
    acc.count("trees")
    acc.count("evaluations", stats.get("evals", 0))
    acc.outcome(status)
    if status in ("rewritten", "constant"):
        acc.count("nontrivial")
    if not viols:
        return
    report(sm, spec, viols, acc, profile)


def fold_children(sm, spec):
    """spec with every child replaced by the spec of its simplification (None if that is not a
    canonical well-typed spec)."""
    ch = U.children(spec)
    if not ch or spec[0] in ("f", "ifun"):
        return None
    new = spec
    try:
        for i, c in enumerate(ch):
            new = X._replace_child(new, i, to_spec(sm.simplify(X.build(sm.h.world, c))))
    except X.HarnessError:
        raise
    except Exception:
        sm.renew()
        return None
    if X._cls(new) is None or not X.canonical(new):
        return None
    return new


def _names(viols):
    return {k.split(":")[0] for k in viols}


def report(sm, spec, viols, acc, profile=""):
    mode = sm.mode
    cache = {}

    def violated(c):
        if c not in cache:
            cache[c] = judge(sm, c)[1]
        return _names(cache[c])

    for so, m in X.localise(spec, violated, lambda c: fold_children(sm, c)):
        if m != spec:
            acc.count("violations_minimised")
        mv = cache[m]
        key = [k for k in mv if k.split(":")[0] == so][0]
        what, detail = mv[key]
        # static-specific?  (same tree fine under the plain environment simplifier)
        tag = ""
        if mode != "env":
            if so not in _names(judge(Simp("env"), m)[1]):
                tag = "static:"
        fp = "%s%s|%s" % (tag, key, U.shape(m, 1))
        case = {"spec": tj(m), "mode": mode, "profile": profile, "found_as": tj(spec)}
        case.update(detail)
        acc.violation(fp, "%s: e = %s; %s" % (mode, U.label(m), what), case)


def run_shard(shard, tier, seed):
    acc = Acc()
    prof, cs = X.shard_cases(PROFILES, shard, tier)
    mode = shard["mode"]
    sm = Simp(mode)
    for spec in cs:
        if mode != "env" and not _mentions_static(spec):
            acc.count("skipped_no_static_fluent")
            continue
        check_case(sm, spec, acc, prof["name"])
    acc.count("worlds_renewed", sm.h.renewed)
    if cs:
        acc.sample({"profile": prof["name"], "mode": mode, "level": shard["level"], "tree": U.label(cs[-1])})
    return acc


def replay(case):
    acc = Acc()
    spec = fj(case["spec"])
    sm = Simp(case.get("mode", "env"))
    status, viols = judge(sm, spec)
    if viols:
        report(sm, spec, viols, acc, case.get("profile", ""))
    return [(fp, e["cases"][0]["what"]) for fp, e in acc.viol.items()]
