"""C12 - NNF / DNF conversions are equivalent and in normal form (DESIGN 4/C12).

Every Boolean tree with <= N connectives (And Or Not Implies Iff) over a pool of atoms that
contains Boolean fluents, numeric comparisons of a bounded fluent and CONSTANT-ONLY atoms is
converted by Nnf(env).get_nnf_expression and Dnf(env).get_dnf_expression.  Oracles:
  nnf-equiv / dnf-equiv   same truth value as the input under EVERY interpretation of the atoms'
                          fluents (complete truth table; atoms evaluated by ref.eval)
  nnf-shape               only And / Or / Not, Not only directly above an atom
  dnf-shape               a disjunction of conjunctions of literals; degenerate 0/1-ary forms
                          (a single literal, a single conjunction, true, false) allowed
  *-raises                the conversion raised
"""
from __future__ import annotations

from mc.kernel.runner import Acc
from mc.gen import uexpr as U
from mc.gen.spec import tj, fj, to_spec
from mc.ref.eval import Bottom, ev
from mc.checks import exprutil as X

PROPERTY = "C12"
LEVEL = "exploration"
RULE = (
    "all Boolean trees with <= N connectives (and/or binary, in the -nary profiles also ternary "
    "directly above atoms; not, implies, iff) over the atom pool of each profile (see bounds: "
    "quick N=3 over 5 atoms, thorough N=3 over 7 atoms and N=4 over 3 atoms); per tree the complete truth "
    "table over the atoms' fluents (p, q(a1) Boolean, n in 0..2); an evaluation = one (tree, "
    "interpretation); non-trivial tree = NNF or DNF is not the input node"
)
ASSUMPTIONS = [
    "an atom is any node that is not And/Or/Not/Implies/Iff (comparisons, fluents, Boolean constants)",
    "Boolean constants are accepted wherever a literal is (degenerate conjunction / disjunction)",
]

FL = lambda n, *a: ("f", n) + a
I = lambda v: ("i", v)
P = FL("p")
QA1 = FL("q", ("o", "a1"))
N_LE_1 = ("le", FL("n"), I(1))
N_EQ_2 = ("eq", FL("n"), I(2))
T12 = ("le", I(1), I(2))
F21 = ("le", I(2), I(1))
T12_23 = ("and", T12, ("le", I(2), I(3)))
CONN = ["and", "or", "not", "implies", "iff"]

PROFILES = [
    {
        "name": "atoms5",
        "leaves": [P, QA1, N_LE_1, T12, F21],
        "ops": CONN,
        "arities": (2,),
        "N": {"quick": 3},
        "per_shard": 6000,
    },
    {"name": "atoms5-nary", "leaves": [P, QA1, N_LE_1, T12, F21], "ops": CONN, "N": {"quick": 2, "thorough": 3}, "per_shard": 8000},
    {
        "name": "atoms7",
        "leaves": [P, QA1, N_LE_1, N_EQ_2, T12, F21, T12_23],
        "ops": CONN,
        "arities": (2,),
        "N": {"thorough": 3},
        "per_shard": 8000,
    },
    {
        "name": "atoms3-deep",
        "leaves": [P, N_LE_1, T12],
        "ops": CONN,
        "arities": (2,),
        "N": {"thorough": 4},
        "per_shard": 8000,
    },
    {
        "name": "consts-deep",
        "leaves": [P, T12, F21],
        "ops": ["and", "or", "not"],
        "arities": (2,),
        "N": {"quick": 3, "thorough": 4},
        "per_shard": 8000,
    },
]

VALS = {"p": [False, True], "q": [False, True], "n": [0, 1, 2]}
CONNECTIVES = ("and", "or", "not", "implies", "iff")


def bounds(tier):
    return {"profiles": X.profile_bounds(PROFILES, tier), "value_sets": {k: [str(x) for x in v] for k, v in VALS.items()}}


def shards(tier, seed):
    return X.make_shards(PROFILES, tier)


class Conv:
    def __init__(self):
        self.h = X.Holder(lambda: U.World(fluents=("p", "q", "n")))
        self.cache, self.memo = {}, {}
        self._mk()

    def _mk(self):
        from unified_planning.model.walkers import Dnf, Nnf

        env = self.h.world.env
        self.nnf, self.dnf = Nnf(env), Dnf(env)

    def renew(self):
        self.h.renew()
        self._mk()


def nnf_shape(s):
    """None if s is in NNF, else a short reason."""
    t = s[0]
    if t in ("implies", "iff"):
        return "contains-" + t
    if t == "not":
        return None if s[1][0] not in CONNECTIVES else "not-above-" + s[1][0]
    if t in ("and", "or"):
        for a in s[1:]:
            r = nnf_shape(a)
            if r:
                return r
    return None


def _literal(s):
    if s[0] == "not":
        return s[1][0] not in CONNECTIVES
    return s[0] not in CONNECTIVES


def _conj(s):
    if s[0] == "and":
        return all(_literal(a) for a in s[1:])
    return _literal(s)


def dnf_shape(s):
    if s[0] == "or":
        bad = [a for a in s[1:] if not _conj(a)]
        return None if not bad else "disjunct-is-" + bad[0][0]
    if _conj(s):
        return None
    return "top-" + s[0] + ("-of-non-literals" if s[0] == "and" else "")


def tshape(s, depth=3):
    """root-cause key: connective skeleton; a literal is T / F when it is constant (closed) with
    that value, x otherwise."""
    if _literal(s):
        cv_ = U.closed_value(s)
        return "x" if cv_ is None or isinstance(cv_, Bottom) else ("T" if cv_ else "F")
    if depth <= 0:
        return s[0]
    parts = [tshape(a, depth - 1) for a in s[1:]]
    if s[0] in ("and", "or", "iff"):
        parts.sort()
    return "%s(%s)" % (s[0], ",".join(parts))


def judge(cv, spec, stats=None):
    """-> (status, {sub-oracle[:detail]: (what, extra)})"""
    out = {}
    try:
        e = X.build(cv.h.world, spec)
    except X.HarnessError:
        raise
    except Exception as ex:
        cv.renew()
        return "unbuildable:" + type(ex).__name__, {}
    # history: the converters are shared by all trees of a shard (as the compilers share one
    # converter for all conditions of a problem); additionally every compound child of the tree is
    # converted on its own first, so that "a sub-expression was converted earlier, now it
    # re-appears below another operator / under a negation" is always part of the history
    for ch in U.children(spec):
        if isinstance(ch, tuple) and ch and ch[0] in CONNECTIVES:
            try:
                ce = X.build(cv.h.world, ch)
                cv.nnf.get_nnf_expression(ce)
                cv.dnf.get_dnf_expression(ce)
            except X.HarnessError:
                raise
            except Exception:
                cv.renew()
                e = X.build(cv.h.world, spec)
    axes = U.interp_axes([spec], VALS)
    table = []
    for It in U.interpretations(None, axes=axes):
        table.append((It, ev(spec, It)))
    if stats is not None:
        stats["evals"] = len(table)
    status = []
    for name, fn, shape_fn in (
        ("nnf", lambda x: cv.nnf.get_nnf_expression(x), nnf_shape),
        ("dnf", lambda x: cv.dnf.get_dnf_expression(x), dnf_shape),
    ):
        try:
            r = fn(e)
        except Exception as ex:
            cv.renew()
            e = X.build(cv.h.world, spec)
            out["%s-raises:%s" % (name, type(ex).__name__)] = ("%s conversion raised %s: %s" % (name, type(ex).__name__, ex), {})
            continue
        rs = to_spec(r)
        status.append("%s-%s" % (name, "same" if r is e else "const" if r.is_constant() else "changed"))
        why = shape_fn(rs)
        if why:
            out["%s-shape:%s" % (name, why)] = ("%s(e) = %s is not in normal form (%s)" % (name, U.label(rs), why), {})
        for It, v in table:
            try:
                v1 = ev(rs, It)
            except (Bottom, KeyError) as ex:
                v1 = "undefined(%s)" % (ex,)
            if v1 is not v:
                out["%s-equiv" % name] = (
                    "%s(e) = %s is %s but e is %s under %s" % (name, U.label(rs), v1, v, U.interp_label(It)),
                    {"interp": U.interp_label(It)},
                )
                break
    return ",".join(status), out


def _names(v):
    return {k.split(":")[0] for k in v}


def report(cv, spec, viols, acc, profile=""):
    cache = cv.cache

    def violated(c):
        if c not in cache:
            cache[c] = judge(cv, c)[1] if U.sort_of(c) == "bool" else {}
        return _names(cache[c])

    def nnf_of(c):
        # candidate generator only: the NNF of a counterexample is judged like any other tree
        try:
            return to_spec(cv.nnf.get_nnf_expression(X.build(cv.h.world, c)))
        except X.HarnessError:
            raise
        except Exception:
            cv.renew()
            return None

    cache[spec] = viols
    for so, m in X.localise(spec, violated, nnf_of, cv.memo):
        if m != spec:
            acc.count("violations_minimised")
        mv = cache[m]
        key = [k for k in mv if k.split(":")[0] == so][0]
        what, detail = mv[key]
        case = {"spec": tj(m), "profile": profile, "found_as": tj(spec)}
        case.update(detail)
        acc.violation("%s|%s" % (key, tshape(m)), "e = %s; %s" % (U.label(m), what), case)


def run_shard(shard, tier, seed):
    acc = Acc()
    prof, cs = X.shard_cases(PROFILES, shard, tier)
    cv = Conv()
    for spec in cs:
        stats = {}
        status, viols = judge(cv, spec, stats)
        acc.count("trees")
        acc.count("evaluations", stats.get("evals", 0))
        acc.outcome(status)
        if "changed" in status or "const" in status:
            acc.count("nontrivial")
        if viols:
            report(cv, spec, viols, acc, prof["name"])
    acc.count("worlds_renewed", cv.h.renewed)
    if cs:
        acc.sample({"profile": prof["name"], "level": shard["level"], "tree": U.label(cs[-1])})
    return acc


def replay(case):
    acc = Acc()
    spec = fj(case["spec"])
    cv = Conv()
    status, viols = judge(cv, spec)
    if viols:
        report(cv, spec, viols, acc, case.get("profile", ""))
    return [(fp, e["cases"][0]["what"]) for fp, e in acc.viol.items()]
