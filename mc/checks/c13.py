"""C13 - substitution replaces exactly the free maximal occurrences of its keys (DESIGN 4/C13).

Cases = (tree with <= 2 operators over a profile's atoms) x (substitution map with <= 2 entries
whose keys are non-constant sub-terms of the tree - variables, parameters, fluent expressions,
compound terms, nested in each other or not - and whose values come from a small per-sort pool
plus incompatible values).  Oracles:
  result     e.substitute(m) IS the node built from mc/ref/subst.py's result spec
  semantic   capture-free maps with symbol keys: ref.eval(result, I) == ref.eval(e, I[k -> eval(v, I)])
             for EVERY interpretation I
  reject     a map with an incompatible entry raises UPTypeError; a compatible map does not
  usable     after a rejected map an unrelated substitute on the SAME environment returns what
             the reference says (then the environment is discarded anyway)
"""
from __future__ import annotations

from itertools import combinations

from mc.kernel.runner import Acc
from mc.gen import uexpr as U
from mc.gen.spec import tj, fj, to_spec
from mc.ref.eval import Bottom, Interp, ev
from mc.ref import subst as RS
from mc.checks import exprutil as X

PROPERTY = "C13"
LEVEL = "exploration"
RULE = (
    "all trees with <= 2 operators of each profile x all maps with <= 2 entries, keys = distinct "
    "non-constant sub-terms of the tree, values per key = first 2 (quick) / 3 (thorough) pool "
    "values of the key's sort + 1 kind-incompatible + (bounded leaf keys) 1 out-of-bounds value; "
    "maps with an incompatible entry (exactly one) only for trees with <= 1 operator - rejection is "
    "decided before the tree is looked at; an evaluation = "
    "one (tree, map) substitute call; non-trivial = result is not the input node"
)
ASSUMPTIONS = [
    "type-compatible = value kind assignable to the key's kind (bool/bool, user subtype, int->int, "
    "int|real->real); must-reject = kind mismatch; numeric maps with disjoint declared intervals "
    "(i:int[0,2] := 7) and compound numeric keys (interval inferred, C15): either outcome accepted",
    "semantic clause only for keys that are parameters, free variables or fluents whose every "
    "occurrence in the tree has constant arguments, and values that mention no variable bound in "
    "the tree (the statement does not promise capture avoidance)",
    "cases whose reference result cannot be constructed (e.g. constant zero divisor) are skipped",
]

B = lambda v: ("b", v)
I_ = lambda v: ("i", v)
FL = lambda n, *a: ("f", n) + a
O = lambda n: ("o", n)
V = ("v", "v", "A")
VB = ("v", "vb", "B")
VSB = ("v", "v", "B")  # named like V, typed like VB
PX = ("p", "x")
PI = ("p", "i")

PROFILES = [
    {
        "name": "bool",
        "leaves": [FL("p"), FL("q", PX), FL("q", O("a1")), ("le", FL("n"), PI)],
        "ops": ["and", "or", "not", "implies", "iff"],
        "arities": (2,),
        "N": {"quick": 2, "thorough": 2},
    },
    {
        "name": "quant",
        "leaves": [FL("q", V), FL("q", PX), FL("q", FL("g", V)), ("eq", V, PX)],
        "ops": ["and", "not", "exists", "forall"],
        "arities": (2,),
        "qvars": ((("v", "A"),), (("v", "A"), ("vb", "B"))),
        "N": {"quick": 2},
    },
    {
        "name": "quant-p",
        "leaves": [FL("q", V), FL("q", PX), FL("q", FL("g", V)), ("eq", V, PX), FL("p")],
        "ops": ["and", "not", "exists", "forall"],
        "arities": (2,),
        "qvars": ((("v", "A"),), (("v", "A"), ("vb", "B"))),
        "N": {"thorough": 2},
    },
    {
        "name": "quant-b",
        "leaves": [FL("q", VB), ("eq", VB, V), FL("q", FL("g", VB)), FL("q", V)],
        "ops": ["or", "exists", "forall"],
        "arities": (2,),
        "qvars": ((("vb", "B"),), (("v", "A"),)),
        "N": {"quick": 1, "thorough": 2},
    },
    {
        # two variables with ONE name and different types: binding one must not shield the other
        "name": "quant-shadow",
        "leaves": [FL("q", V), FL("q", VSB), ("eq", VSB, V), FL("q", PX)],
        "ops": ["and", "exists", "forall"],
        "arities": (2,),
        "qvars": ((("v", "B"),), (("v", "A"),)),
        "N": {"quick": 2, "thorough": 2},
    },
    {
        "name": "num",
        "leaves": [FL("n"), PI, FL("r"), I_(1), ("ifun", "F", PI)],
        "ops": ["+", "*", "-", "le", "eq"],
        "arities": (2,),
        "N": {"quick": 2, "thorough": 2},
    },
    {
        "name": "nested",
        "leaves": [FL("q", FL("g", FL("g", PX))), FL("q", FL("g", O("a1"))), ("eq", FL("g", PX), PX), FL("p")],
        "ops": ["and", "or", "not"],
        "arities": (2,),
        "N": {"quick": 2, "thorough": 2},
    },
]

POOL = {
    "bool": [FL("p"), FL("q", PX), B(False), FL("q", V)],
    "int": [PI, FL("n"), I_(1), FL("k")],
    "real": [FL("r"), ("r", 1, 2), FL("n"), FL("u")],
    "A": [PX, O("a2"), V, FL("g", PX), VB],
    "B": [O("b1"), VB],
    "C": [O("c1")],
}
KIND_BAD = {"bool": I_(1), "int": B(True), "real": O("a1"), "A": O("c1"), "B": O("a1"), "C": O("a1")}
OUT_OF_BOUNDS = {"int": I_(7), "real": I_(7)}

VALS = dict(U.VALS_SMALL)
VALS.update({"g": ["a1", "b1"], "k": [0, U.H], "r": [-1, U.Fraction(1, 3)], "u": [U.Fraction(1, 2), -U.H],
             "n": [0, 2], "i": [0, 1]})

PROBE = ("and", FL("p"), FL("q", PX))
PROBE_MAP = ((FL("p"), FL("q", O("a1"))),)


def bounds(tier):
    return {
        "profiles": X.profile_bounds(PROFILES, tier),
        "value_sets_semantic_clause": {k: [str(x) for x in v] for k, v in VALS.items()},
        "values_per_key": 2 if tier == "quick" else 3,
        "pool": {k: [U.label(x) for x in v] for k, v in POOL.items()},
        "kind_incompatible": {k: U.label(v) for k, v in KIND_BAD.items()},
        "out_of_bounds": {k: U.label(v) for k, v in OUT_OF_BOUNDS.items()},
    }


def shards(tier, seed):
    return X.make_shards(PROFILES, tier, per_shard=120)


# ---- maps of one tree -----------------------------------------------------------------------
def keys_of(spec):
    return [s for s in U.subterms(spec) if s[0] not in ("b", "i", "r", "o")]


def values_for(k, nvals):
    """[(value, expected compat)]"""
    so = U.sort_of(k)
    good = []
    for v in POOL.get(so, []):
        if v != k and RS.compatible(k, v) is True or (v != k and RS.declared_interval(k) is None and RS.compatible(k, v) is None):
            good.append(v)
        if len(good) >= nvals:
            break
    out = [(v, RS.compatible(k, v)) for v in good]
    c = RS.compatible(k, KIND_BAD[so])
    if c is not False:
        raise X.HarnessError("value %r should be incompatible with key %r" % (KIND_BAD[so], k))
    out.append((KIND_BAD[so], False))
    iv = RS.declared_interval(k) if so in U.NUM else None
    if iv is not None and (iv[1] is not None or iv[2] is not None) and k[0] in ("p", "f"):
        out.append((OUT_OF_BOUNDS[so], "oob"))  # disjoint declared intervals: either outcome
    return out


def maps_of(spec, level, nvals):
    """all maps of the tree: tuples of (key, value) pairs (insertion order = pre-order of keys).
    Entries that are (or may be) rejected - kind-incompatible / out-of-bounds values - occur at
    most once per map and only for trees with <= 1 operator."""
    ks = keys_of(spec)
    vals = {k: values_for(k, nvals) for k in ks}
    rej = lambda c: c is False or c == "oob"
    for k in ks:
        for v, c in vals[k]:
            if rej(c) and level > 1:
                continue
            yield ((k, v),)
    for k1, k2 in combinations(ks, 2):
        for v1, c1 in vals[k1]:
            for v2, c2 in vals[k2]:
                nbad = rej(c1) + rej(c2)
                if nbad == 2 or (nbad == 1 and level > 1):
                    continue
                yield ((k1, v1), (k2, v2))


def expectation(m):
    cs = [RS.compatible(k, v) for k, v in m]
    if any(c is False for c in cs):
        return "reject"
    if any(c is None for c in cs):
        return "either"
    return "accept"


# ---- the judge -------------------------------------------------------------------------------
def semantic_applicable(spec, m):
    bound_in_e = _bound(spec)
    occ = _fluent_occurrences(spec)
    for k, v in m:
        if k[0] == "p":
            pass
        elif k[0] == "v":
            pass
        elif k[0] == "f":
            if not all(a[0] == "o" for a in k[2:]):
                return False
            if any(not all(a[0] == "o" for a in o[2:]) for o in occ.get(k[1], [])):
                return False
        else:
            return False
        if U.free_vars(v) & bound_in_e:
            return False
    return True


def _bound(s):
    out = set()
    if s[0] in ("exists", "forall"):
        out |= set(tuple(x) for x in s[1])
    for c in U.children(s):
        out |= _bound(c)
    return out


def _fluent_occurrences(s, acc=None):
    if acc is None:
        acc = {}
    if s[0] == "f":
        acc.setdefault(s[1], []).append(s)
    for c in U.children(s):
        _fluent_occurrences(c, acc)
    return acc


def _ev(s, It):
    try:
        return ev(s, It)
    except (Bottom, KeyError):
        return "undefined"


def _same(a, b):
    if isinstance(a, bool) or isinstance(b, bool):
        return a is b
    return a == b


def judge(h, spec, m, stats=None):
    """-> (status, {sub-oracle: what}).  h: exprutil.Holder of a plain World."""
    out = {}
    w = h.world
    exp = expectation(m)
    md = dict(m)
    if len(md) != len(m):
        raise X.HarnessError("duplicate key in map %r" % (m,))
    try:
        e = X.build(w, spec)
        um = {w.ctx.e(k): w.ctx.e(v) for k, v in m}
    except X.HarnessError:
        raise
    except Exception as ex:
        h.renew()
        return "unbuildable:" + type(ex).__name__, {}
    ref_spec = RS.subst(spec, md)
    from unified_planning.exceptions import UPTypeError

    try:
        r = e.substitute(um)
    except Exception as ex:
        raised = ex
        r = None
    else:
        raised = None
    if raised is None:
        if exp == "reject":
            out["reject:accepted-incompatible"] = (
                "map %s has an incompatible entry but substitute returned %s" % (mlabel(m), U.label(to_spec(r)))
            )
            return "accepted-incompatible", out
        try:
            want = w.ctx.e(ref_spec)
        except Exception as ex:
            h.renew()
            return "ref-unbuildable:" + type(ex).__name__, {}
        if r is not want:
            out["result"] = "substitute(%s) = %s, reference %s" % (mlabel(m), U.label(to_spec(r)), U.label(to_spec(want)))
            return "wrong-result", out
        status = "unchanged" if r is e else "substituted"
        if semantic_applicable(spec, m):
            rs = to_spec(r)
            specs = [spec, rs] + [v for _, v in m] + [k for k, _ in m]
            n = 0
            for It in U.interpretations(specs, VALS):
                fl, params, vs = dict(It.fl), dict(It.params), dict(It.vars)
                bad = False
                for k, v in m:
                    val = _ev(v, It)
                    if val == "undefined":
                        bad = True
                        break
                    if k[0] == "p":
                        params[k[1]] = val
                    elif k[0] == "v":
                        vs[(k[1], k[2])] = val
                    else:
                        fl[(k[1],) + tuple(a[1] for a in k[2:])] = val
                if bad:
                    continue
                It2 = Interp(fl=fl, params=params, vars=vs, objs=It.objs, ifuns=It.ifuns)
                a, b = _ev(rs, It), _ev(spec, It2)
                n += 1
                if not _same(a, b):
                    out["semantic"] = "result %s evaluates to %s, e under the updated interpretation to %s; I = %s" % (
                        U.label(rs),
                        a,
                        b,
                        U.interp_label(It),
                    )
                    break
            if stats is not None:
                stats["sem_evals"] = n
            status += "+semantic"
        return status, out
    # ---- the call raised -----------------------------------------------------------------
    status = "raised:" + type(raised).__name__
    if isinstance(raised, UPTypeError):
        if exp == "accept":
            out["reject:rejected-compatible"] = "map %s is type compatible but substitute raised UPTypeError: %s" % (
                mlabel(m),
                raised,
            )
    else:
        # not the documented rejection: fine only if the result cannot be constructed at all
        try:
            X.Holder(h.factory).world.ctx.e(ref_spec)
            constructible = True
        except Exception:
            constructible = False
        if exp == "reject":
            out["reject:other-exception"] = "incompatible map %s raised %s instead of UPTypeError: %s" % (
                mlabel(m),
                type(raised).__name__,
                raised,
            )
        elif constructible:
            out["raises:" + type(raised).__name__] = "substitute(%s) raised %s: %s; reference result %s" % (
                mlabel(m),
                type(raised).__name__,
                raised,
                U.label(ref_spec),
            )
        else:
            status = "vacuous-raise"
    if not isinstance(raised, UPTypeError):
        h.renew()  # C14's subject: no demand on the environment after other failures
        return status, out
    # "rejected before anything changes": the same environment must still work
    try:
        pe = w.ctx.e(PROBE)
        got = pe.substitute({w.ctx.e(k): w.ctx.e(v) for k, v in PROBE_MAP})
        want = w.ctx.e(RS.subst(PROBE, dict(PROBE_MAP)))
        if got is not want:
            out["usable"] = "after %s on map %s, an unrelated substitute returned %s, reference %s" % (
                type(raised).__name__,
                mlabel(m),
                U.label(to_spec(got)),
                U.label(to_spec(want)),
            )
    except Exception as ex:
        out["usable"] = "after %s on map %s, an unrelated substitute raised %s: %s" % (
            type(raised).__name__,
            mlabel(m),
            type(ex).__name__,
            ex,
        )
    h.renew()
    return status, out


def mlabel(m):
    return "{" + ", ".join("%s: %s" % (U.label(k), U.label(v)) for k, v in m) + "}"


def mshape(m):
    return ",".join(sorted("%s->%s" % (U.shape(k, 1), U.shape(v, 1)) for k, v in m))


def _names(v):
    return {k.split(":")[0] for k in v}


def minimise_case(h, spec, m, so):
    """smallest (sub-term of the tree, sub-map) that still violates sub-oracle `so`."""
    cur, curm = spec, m
    progress = True
    while progress:
        progress = False
        if len(curm) > 1:
            for i in range(len(curm)):
                m2 = curm[:i] + curm[i + 1 :]
                if so in _names(judge(h, cur, m2)[1]):
                    curm, progress = m2, True
                    break
            if progress:
                continue
        for st in sorted(X.proper_subterms(cur), key=lambda s: (U.nodes(s), repr(s))):
            if X._cls(st) is None or not X.canonical(st) or st[0] in ("b", "i", "r", "o"):
                continue
            if so in _names(judge(h, st, curm)[1]):
                cur, progress = st, True
                break
    return cur, curm


def report(h, spec, m, viols, acc, profile=""):
    for so in sorted(_names(viols)):
        ms, mm = minimise_case(h, spec, m, so)
        mv = judge(h, ms, mm)[1]
        key = [k for k in mv if k.split(":")[0] == so][0]
        if (ms, mm) != (spec, m):
            acc.count("violations_minimised")
        fp = "%s|%s|%s" % (key, U.shape(ms), mshape(mm))
        case = {"spec": tj(ms), "map": tj(mm), "profile": profile, "found_as": {"spec": tj(spec), "map": tj(m)}}
        acc.violation(fp, "e = %s; %s" % (U.label(ms), mv[key]), case)


def run_shard(shard, tier, seed):
    acc = Acc()
    prof, cs = X.shard_cases(PROFILES, shard, tier)
    h = X.Holder(lambda: U.World())
    nvals = 2 if tier == "quick" else 3
    for spec in cs:
        acc.count("trees")
        for m in maps_of(spec, shard["level"], nvals):
            stats = {}
            status, viols = judge(h, spec, m, stats)
            acc.count("evaluations")
            acc.count("semantic_evaluations", stats.get("sem_evals", 0))
            acc.outcome(status)
            if status.startswith("substituted"):
                acc.count("nontrivial")
            if viols:
                report(h, spec, m, viols, acc, prof["name"])
    acc.count("worlds_renewed", h.renewed)
    if cs:
        acc.sample({"profile": prof["name"], "level": shard["level"], "tree": U.label(cs[-1])})
    return acc


def replay(case):
    acc = Acc()
    spec = fj(case["spec"])
    m = tuple((tuple(k), tuple(v)) for k, v in fj(case["map"]))
    h = X.Holder(lambda: U.World())
    status, viols = judge(h, spec, m)
    if viols:
        report(h, spec, m, viols, acc, case.get("profile", ""))
    return [(fp, e["cases"][0]["what"]) for fp, e in acc.viol.items()]
