"""C14 - shared environment walkers are history-independent, even after failed calls (DESIGN 4/C14).

Explicit-state search over CALL SEQUENCES on ONE environment.  A search state is the history
reaching it; it is materialised by replaying the history on a fresh environment (fresh World).
Oracle: the outcome of every call (result spec through the public accessors, or exception type)
equals the outcome of the same call made ALONE on a fresh environment.

Alphabet: simplify, substitute (same expression with different maps), type inference,
fluent / free-variable / name extraction, quantifier removal, state evaluation - and calls
engineered to FAIL in the middle of a walk (constant folding that divides by zero below pending
parents, a substitution that rebuilds 1/0, a substitution producing an ill-typed fluent argument,
a quantifier over a non-groundable type, evaluation in a state with a missing fluent).  A failing
call is a *deviation*; histories carry at most DEV_BOUND of them.

Canonical state (used only to decide which histories are EXTENDED; every generated history is
executed and judged): for each shared walker its memo table (spec -> canonical value), its work
stack and its per-walk fields, plus the set of node specs of the expression manager.  These are all
the mutable fields a later walk can read, so equal canonical states have equal futures; a finer
key only costs time.  If a walker does not expose these fields the history itself is the key.
"""
from __future__ import annotations

import unified_planning as up
from unified_planning.model.walkers import ExpressionQuantifiersRemover, StateEvaluator

from mc.kernel.runner import Acc, HarnessError
from mc.gen.spec import Ctx, to_spec, fresh_env, tj, fj
from mc.checks import minviol

PROPERTY = "C14"
LEVEL = "model_checking"
RULE = (
    "BFS over all call sequences of length <= D (D=3 quick, 4 thorough) from an alphabet of 23 walker calls "
    "(8 of them fail) on one environment, at most 2 failing calls per history; every call's outcome is "
    "compared with the same call alone on a fresh environment; histories are extended from one representative "
    "per canonical walker state (per first call); non-trivial history = contains a failing call followed by "
    "another call, or two calls on the same walker"
)
ASSUMPTIONS = [
    "outcome of a call = spec of the returned value through public accessors, or the exception TYPE",
    "a history whose call deviates is reported and not extended (later calls would only cascade)",
]

DEV_BOUND = 2


def bounds(tier):
    return {"depth": 3 if tier == "quick" else 4, "failing_calls_per_history": DEV_BOUND, "alphabet": [c[0] for c in CALLS]}


# ---------------------------------------------------------------------------------------------
# universe

P = ("f", "p")
K = ("f", "k")
A1, A2 = ("o", "a1"), ("o", "a2")
V = ("v", "v", "A")
PI, PJ = ("p", "i"), ("p", "jp")


def Q(x):
    return ("f", "q", x)


EXPRS = {
    # simplify
    "e1": ("and", P, ("or", Q(A1), ("not", P)), ("le", ("+", K, ("i", 1)), ("i", 3)), ("lt", ("*", ("i", 2), ("i", 3)), ("i", 7))),
    # constant folding divides by zero below two pending parents: 0*k -> 0, then 1/0
    "ediv0": ("and", P, ("lt", ("i", 0), ("/", ("i", 1), ("*", ("i", 0), K)))),
    # substitution target: {i:0} rebuilds 1/0 mid-walk, {i:1} and {p:..} are fine
    "esub": ("and", P, ("lt", ("i", 0), ("/", ("i", 1), PI))),
    # {jp:5} rebuilds c(5) with c : int[0,2] -> int  (ill-typed fluent argument mid-walk)
    "ecj": ("le", ("+", ("f", "c", PJ), ("i", 1)), ("i", 2)),
    "cj": ("f", "c", PJ),
    "e2": ("and", P, ("or", Q(A1), P), ("exists", (("v", "A"),), ("and", Q(V), P))),
    "efree": ("or", Q(V), ("exists", (("v", "A"),), Q(V))),
    "eq": ("and", P, ("forall", (("v", "A"),), ("or", Q(V), P))),
    "eev": ("and", P, ("or", Q(A2), Q(A1)), ("forall", (("v", "A"),), ("or", Q(V), P))),
    "eev2": ("or", ("not", P), ("lt", K, ("i", 3))),
}

# (label, kind, expression name, extra, fails)
CALLS = [
    ("simp(e1)", "simp", "e1", None, False),
    ("simp(esub)", "simp", "esub", None, False),
    ("simp(ediv0)!", "simp", "ediv0", None, True),
    ("sub(esub,{i:0})!", "sub", "esub", ((PI, ("i", 0)),), True),
    ("sub(esub,{i:1})", "sub", "esub", ((PI, ("i", 1)),), False),
    ("sub(ecj,{jp:5})!", "sub", "ecj", ((PJ, ("i", 5)),), True),
    ("sub(cj,{jp:5})!", "sub", "cj", ((PJ, ("i", 5)),), True),
    ("sub(ecj,{jp:1})", "sub", "ecj", ((PJ, ("i", 1)),), False),
    ("sub(e2,{p:q(a1)})", "sub", "e2", ((P, Q(A1)),), False),
    ("sub(e2,{p:false})", "sub", "e2", ((P, ("b", False)),), False),
    ("type(e1)", "type", "e1", None, False),
    # construct a NEW expression (runs the shared type checker on it) and infer its type
    ("type(new k+k/2)", "mk", None, ("+", K, ("/", K, ("i", 2))), False),
    ("type(new p&k)!", "mk", None, ("and", P, K), True),
    ("type(new p&0<1/0)!", "mk", None, ("and", P, ("lt", ("i", 0), ("/", ("i", 1), ("i", 0)))), True),
    ("fluents(e2)", "fve", "e2", None, False),
    ("freevars(efree)", "fvo", "efree", None, False),
    ("names(e2)", "names", "e2", None, False),
    ("rq(eq)", "rq", "eq", None, False),
    ("rq(eq,failing-objects-set)!", "rq", "eq", "broken", True),
    ("eval(eev,s_missing)!", "ev", "eev", "s_missing", True),
    ("eval(eev,s_ok)", "ev", "eev", "s_ok", False),
    ("eval(eev,s_alt)", "ev", "eev", "s_alt", False),
    ("eval(eev2,s_ok)", "ev", "eev2", "s_ok", False),
]
FAILS = [c[4] for c in CALLS]
WALKER_OF = {"mk": "type_checker", "simp": "simplifier", "sub": "substituter", "type": "type_checker", "fve": "free_vars_extractor",
             "fvo": "free_vars_oracle", "names": "names_extractor", "rq": "quantifier_remover", "ev": "state_evaluator"}


class FailingObjectsSet:
    """an objects set whose lookup fails: makes quantifier grounding raise inside walk_forall,
    below a pending parent"""

    def objects(self, typename):
        raise up.exceptions.UPValueError("no objects available")


class World:
    def __init__(self):
        env = fresh_env()
        self.env = env
        ctx = Ctx(env)
        self.ctx = ctx
        ctx.utype("A")
        a1, a2 = ctx.obj("a1", "A"), ctx.obj("a2", "A")
        fl = [
            ctx.fluent("p", ("bool",)),
            ctx.fluent("q", ("bool",), (("x", ("user", "A")),)),
            ctx.fluent("k", ("int", None, None)),
            ctx.fluent("c", ("int", None, None), (("x", ("int", 0, 2)),)),
        ]
        ctx.param("i", ("int", 0, 2))
        ctx.param("jp", ("int", None, None))
        self.prob = up.model.Problem("w", env)
        for f in fl:
            self.prob.add_fluent(f)
        self.prob.add_objects([a1, a2])
        self.x = {n: ctx.e(s) for n, s in EXPRS.items()}
        em = env.expression_manager
        E = ctx.e
        self.states = {
            "s_ok": up.model.UPState({E(P): em.TRUE(), E(Q(A1)): em.FALSE(), E(Q(A2)): em.TRUE(), E(K): em.Int(1)}, self.prob),
            "s_alt": up.model.UPState({E(P): em.FALSE(), E(Q(A1)): em.TRUE(), E(Q(A2)): em.TRUE(), E(K): em.Int(5)}, self.prob),
            "s_missing": up.model.UPState({E(P): em.TRUE(), E(Q(A2)): em.TRUE(), E(K): em.Int(1)}, self.prob),
        }
        self.remover = ExpressionQuantifiersRemover(env)
        self.evaluator = StateEvaluator(self.prob)

    def walkers(self):
        env = self.env
        return [
            ("simplifier", env.simplifier), ("substituter", env.substituter), ("type_checker", env.type_checker),
            ("free_vars_extractor", env.free_vars_extractor), ("free_vars_oracle", env.free_vars_oracle),
            ("names_extractor", env.names_extractor), ("quantifier_remover", self.remover),
            ("state_evaluator", self.evaluator),
        ]

    def call(self, idx):
        """-> ("ok", canonical result) | ("exc", exception type name)"""
        _lab, kind, en, extra, _f = CALLS[idx]
        e = self.x.get(en)
        env = self.env
        try:
            if kind == "mk":
                n = self.ctx.e(extra)
                r = (n, n.type)
            elif kind == "simp":
                r = e.simplify()
            elif kind == "sub":
                r = e.substitute({self.ctx.e(k): self.ctx.e(v) for k, v in extra})
            elif kind == "type":
                r = e.type
            elif kind == "fve":
                r = env.free_vars_extractor.get(e)
            elif kind == "fvo":
                r = env.free_vars_oracle.get_free_variables(e)
            elif kind == "names":
                r = env.names_extractor.extract_names(e)
            elif kind == "rq":
                r = self.remover.remove_quantifiers(e, FailingObjectsSet() if extra == "broken" else self.prob)
            elif kind == "ev":
                r = self.evaluator.evaluate(e, self.states[extra])
            else:
                raise HarnessError(kind)
        except HarnessError:
            raise
        except Exception as ex:
            return ("exc", type(ex).__name__)
        return ("ok", canon(r))

    def canonical_state(self):
        out = []
        for name, w in self.walkers():
            memo = getattr(w, "memoization", None)
            stack = getattr(w, "stack", None)
            if not isinstance(memo, dict) or not isinstance(stack, list):
                return None
            fields = tuple(
                (f, canon(getattr(w, f))) for f in ("_assignments", "_variable_assignments") if hasattr(w, f)
            )
            out.append((name, canon(memo), canon(stack), fields))
        exprs = getattr(self.env.expression_manager, "expressions", None)
        if not isinstance(exprs, dict):
            return None
        out.append(("nodes", tuple(sorted((repr(to_spec(n)) for n in exprs.values())))))
        return tuple(out)


def canon(x):
    """canonical, hashable, JSON-able rendering of anything a walker returns or memoizes."""
    if isinstance(x, up.model.FNode):
        return ("n", to_spec(x))
    if isinstance(x, up.model.Type):
        return ("t", str(x))
    if isinstance(x, (frozenset, set)):
        return ("set",) + tuple(sorted((canon(y) for y in x), key=repr))
    if isinstance(x, dict):
        return ("map",) + tuple(sorted(((canon(k), canon(v)) for k, v in x.items()), key=repr))
    if isinstance(x, (tuple, list)):
        return ("seq",) + tuple(canon(y) for y in x)
    if isinstance(x, up.model.Variable):
        return ("var", x.name, str(x.type))
    if x is None or isinstance(x, (bool, int, str)):
        return x
    return ("repr", repr(x))


_REF = {}


def reference():
    """outcome of every call alone on a fresh environment (computed once per process)."""
    if not _REF:
        for i, c in enumerate(CALLS):
            o1, o2 = World().call(i), World().call(i)
            if o1 != o2:
                raise HarnessError("call %s is not deterministic on fresh environments: %r vs %r" % (c[0], o1, o2))
            _REF[i] = o1
            FAILS[i] = o1[0] == "exc"  # a deviation is a call that fails ALONE (measured, not assumed)
    return _REF


def shards(tier, seed):
    n = len(CALLS)
    if tier == "quick":
        return [{"level": 0, "first": [i]} for i in range(n)]
    return [{"level": 0, "first": [i, j]} for i in range(n) for j in range(n)]


def hist_label(hist):
    return ";".join(CALLS[i][0] for i in hist)


def run_history(hist, ref):
    """replay on a fresh world; -> (world, deviation or None); deviation = (pos, got, want)"""
    w = World()
    for pos, ci in enumerate(hist):
        got = w.call(ci)
        if got != ref[ci]:
            return w, (pos, got, ref[ci])
    return w, None


def outcome_class(got, want):
    if got[0] == "exc" and want[0] == "exc":
        return "raises-%s-instead-of-%s" % (got[1], want[1])
    if got[0] == "exc":
        return "raises-%s" % got[1]
    if want[0] == "exc":
        return "returns-instead-of-raising-%s" % want[1]
    return "wrong-result"


def minimise(hist, dev, ref):
    """drop every call whose removal keeps the LAST call deviating in the same way (each candidate
    is replayed on a fresh environment); the calls that remain before the victim are the poisoners."""
    pos, got, want = dev
    cur = list(hist[: pos + 1])
    cls = outcome_class(got, want)
    changed = True
    while changed and len(cur) > 1:
        changed = False
        for k in range(len(cur) - 1):
            cand = tuple(cur[:k] + cur[k + 1:])
            _w, d = run_history(cand, ref)
            if d is not None and d[0] == len(cand) - 1 and outcome_class(d[1], d[2]) == cls:
                cur = list(cand)
                dev = d
                changed = True
                break
    return tuple(cur), dev


def classify(hist, dev, ref):
    """-> (sub-oracle, minimal history, what).  sub-oracle = walker of the deviating call, how it
    deviates, and the classes of the calls that must precede it for the deviation to occur."""
    mh, mdev = minimise(hist, dev, ref)
    pos, got, want = mdev
    victim = CALLS[mh[pos]]
    before = sorted({("failed-%s-%s" % (CALLS[i][1], ref[i][1])) if FAILS[i] else ("ok-%s" % CALLS[i][1]) for i in mh[:pos]})
    sub = "%s:%s:after[%s]" % (WALKER_OF[victim[1]], outcome_class(got, want), ",".join(before))
    what = "history [%s]: call #%d %s gave %r, alone on a fresh environment it gives %r" % (
        hist_label(mh), pos + 1, victim[0], got, want)
    return sub, mh, what


def nontrivial(hist):
    for a in range(len(hist)):
        for b in range(a + 1, len(hist)):
            if FAILS[hist[a]] or CALLS[hist[a]][1] == CALLS[hist[b]][1]:
                return True
    return False


def run_shard(shard, tier, seed):
    acc = Acc()
    mv = minviol.MinViol(acc)
    ref = reference()
    depth = bounds(tier)["depth"]
    first = tuple(shard["first"])
    seen = {}
    last = None
    if first == (0,) * len(first):
        acc.count("alphabet_failing_calls", sum(FAILS))
        acc.count("alphabet_expectation_mismatch", sum(1 for i, c in enumerate(CALLS) if c[4] != FAILS[i]))
    # proper prefixes of `first` are judged (once, by the shard whose `first` ends in call 0); a
    # deviating prefix is not extended, so this shard is then empty
    todo = [first]
    for n in range(1, len(first)):
        pre = first[:n]
        _w, dev = run_history(pre, ref)
        if first[n:] == (0,) * (len(first) - n):
            acc.count("transitions")
            if dev is not None:
                sub, mh, what = classify(pre, dev, ref)
                mv.add(sub, [len(mh), hist_label(mh)], hist_label(mh), what, {"hist": list(mh)})
        if dev is not None:
            todo = []
            break
    while todo:
        nxt = []
        for hist in todo:
            if sum(1 for i in hist if FAILS[i]) > DEV_BOUND:
                acc.count("pruned_deviation_bound")
                continue
            w, dev = run_history(hist, ref)
            acc.count("transitions")
            if nontrivial(hist):
                acc.count("nontrivial")
            if dev is not None:
                sub, mh, what = classify(hist, dev, ref)
                mv.add(sub, [len(mh), hist_label(mh)], hist_label(mh), what, {"hist": list(mh), "found_as": list(hist)})
                acc.outcome("deviates")
                continue
            acc.outcome("agrees:%d-calls:%d-failing" % (len(hist), sum(1 for i in hist if FAILS[i])))
            key = w.canonical_state()
            if key is None:
                key = ("hist", hist)
            if len(hist) >= depth:
                acc.count("traces")
                last = hist
                seen.setdefault(key, hist)
                continue
            if key in seen:
                acc.count("traces")
                acc.count("merged_into_seen_state")
                continue
            seen[key] = hist
            for ci in range(len(CALLS)):
                nxt.append(hist + (ci,))
        todo = nxt
    acc.count("states", len(seen))
    if last is not None:
        acc.sample({"history": [CALLS[i][0] for i in last]})
    mv.flush()
    return acc


finalize = minviol.finalize


def replay(case):
    ref = reference()
    hist = tuple(case["hist"])
    _w, dev = run_history(hist, ref)
    if dev is None:
        return []
    sub, mh, what = classify(hist, dev, ref)
    return minviol.filter_replay(case, [("%s|%s" % (sub, hist_label(mh)), what)])
