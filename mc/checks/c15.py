"""C15 - expression type inference is sound and symmetric (DESIGN 4/C15).

(a) every numeric U-EXPR tree with <= N operators over bounded / half-bounded / unbounded int and
    real leaves and small / huge constants is built; for EVERY valuation of its leaves from the
    3.1 sample sets the exact (Fraction) reference value must lie inside [lower_bound,
    upper_bound] of `e.type`, and be integral when the type is an int type.  Boolean and
    user-typed trees must get exactly their type.  A construction that raises although the tree
    has a value under some valuation is a violation too (constant-zero divisors have none).
(b) Equals(x, y) is accepted iff Equals(y, x) is accepted, for all ordered pairs of operands of
    the kinds bool / int / real / A-object / B-object / C-object / A-fluent / B-variable / time,
    each construction in its own fresh environment.
"""
from __future__ import annotations

from fractions import Fraction
from itertools import product

from mc.kernel.runner import Acc
from mc.gen import uexpr as U
from mc.gen.spec import tj, fj, to_spec, Ctx
from mc.ref.eval import Bottom, ev
from mc.checks import exprutil as X

PROPERTY = "C15"
LEVEL = "exploration"
RULE = (
    "(a) all numeric trees with <= N operators (+ - * / binary, + * also ternary at the leaves) of "
    "each leaf-pool profile, plus Boolean / user-typed trees of the 'exact' profile; per tree ALL "
    "valuations = complete product of the leaves' value sets; an evaluation = one (tree, "
    "valuation) with a defined value; non-trivial tree = inferred type has at least one finite "
    "bound that is not a leaf's declared bound; (b) all ordered pairs of 13 typed operands for "
    "Equals, each in a fresh environment"
)
ASSUMPTIONS = [
    "unbounded sides are sampled at 0, +-1, +-10**6, +-(2**53+1); bounded real r at -1, 0, 1/3, 1",
    "a tree with no value under any valuation (division by a constant zero) demands nothing",
]

I = lambda v: ("i", v)
FL = lambda n, *a: ("f", n) + a
P = lambda n: ("p", n)
O = lambda n: ("o", n)
H = 2**53 + 1
ARITH = ["+", "-", "*", "/"]

PROFILES = [
    {
        "name": "bounded",
        "leaves": [FL("n"), P("i"), P("j"), FL("r"), I(1), I(-1), I(2), I(3), ("r", 1, 2)],
        "ops": ARITH,
        "N": {"quick": 2, "thorough": 2},
    },
    {
        "name": "unbounded",
        "leaves": [FL("h"), FL("w"), FL("k"), FL("u"), FL("n"), P("j"), I(-1), I(2), I(0)],
        "ops": ARITH,
        "arities": (2,),
        "N": {"quick": 2, "thorough": 2},
    },
    {
        "name": "huge",
        "leaves": [I(H), I(2**64), I(10**30), ("r", 1, 10**20), I(3), I(-1), FL("n"), FL("r")],
        "ops": ARITH,
        "arities": (2,),
        "N": {"quick": 2, "thorough": 2},
    },
    {
        "name": "deep",
        "leaves": [FL("n"), FL("r"), FL("h"), I(3), ("r", -3, 2)],
        "ops": ARITH,
        "arities": (2,),
        "N": {"thorough": 3},
    },
    {
        "name": "deep-huge",
        "leaves": [I(2**64), I(3), FL("w"), P("j")],
        "ops": ARITH,
        "arities": (2,),
        "N": {"thorough": 3},
    },
    {
        "name": "exact",
        "leaves": [
            FL("p"),
            FL("q", P("x")),
            FL("g", P("x")),
            P("x"),
            ("v", "vb", "B"),
            O("a1"),
            O("c1"),
            FL("n"),
            I(1),
            ("ifun", "G", FL("n")),
            ("ifun", "F", FL("n")),
        ],
        "ops": ["and", "or", "not", "implies", "iff", "exists", "forall", "eq", "le", "lt"],
        "arities": (2,),
        "N": {"quick": 2, "thorough": 2},
    },
]

VALS = U.VALS_FULL


def bounds(tier):
    return {
        "profiles": X.profile_bounds(PROFILES, tier),
        "value_sets": {k: [str(x) for x in v] for k, v in VALS.items()},
        "equality_operands": [k for k, _ in EQ_OPERANDS],
    }


def shards(tier, seed):
    out = [{"level": 0, "equality": True}]
    out.extend(X.make_shards(PROFILES, tier, per_shard=2500))
    out.sort(key=lambda s: s["level"])
    return out


# ---- (a) bounds --------------------------------------------------------------------------------
def _fr(x):
    return None if x is None else Fraction(x)


def judge(h, spec, stats=None):
    out = {}
    so = U.sort_of(spec)
    axes = U.interp_axes([spec], VALS)
    try:
        e = X.build(h.world, spec)
        t = e.type
    except X.HarnessError:
        raise
    except Exception as ex:
        h.renew()
        for It in U.interpretations(None, axes=axes):
            try:
                v = ev(spec, It)
            except Bottom:
                continue
            out["raises:" + type(ex).__name__] = (
                "constructing the expression raised %s: %s although it has the value %s under %s"
                % (type(ex).__name__, ex, v, U.interp_label(It))
            )
            return "raises", out
        return "undefined-everywhere", out
    if so == "bool":
        if not t.is_bool_type():
            out["exact-type"] = "Boolean expression has type %s" % (t,)
        return "bool", out
    if so not in U.NUM:
        if not (t.is_user_type() and t.name == so):
            out["exact-type"] = "expression of user type %s has type %s" % (so, t)
        return "user", out
    if not (t.is_int_type() or t.is_real_type()):
        out["exact-type"] = "numeric expression has type %s" % (t,)
        return "numeric-mistyped", out
    try:
        lo, hi = _fr(t.lower_bound), _fr(t.upper_bound)
    except Exception as ex:
        out["exact-type"] = "bounds of %s are not numbers (%s)" % (t, ex)
        return "numeric-mistyped", out
    n = 0
    for It in U.interpretations(None, axes=axes):
        try:
            v = ev(spec, It)
        except Bottom:
            continue
        n += 1
        if lo is not None and v < lo:
            out.setdefault("bounds", "value %s under %s is below the inferred lower bound of %s" % (v, U.interp_label(It), t))
        if hi is not None and v > hi:
            out.setdefault("bounds", "value %s under %s is above the inferred upper bound of %s" % (v, U.interp_label(It), t))
        if t.is_int_type() and not isinstance(v, int):
            out.setdefault("integrality", "value %s under %s is not an integer but the inferred type is %s" % (v, U.interp_label(It), t))
        if out:
            break
    if stats is not None:
        stats["evals"] = n
    status = "int" if t.is_int_type() else "real"
    status += "[%s,%s]" % ("-inf" if lo is None else "b", "inf" if hi is None else "b")
    return status, out


def _big(s):
    if s[0] == "i":
        return abs(s[1]) > 2**53
    if s[0] == "r":
        return max(abs(s[1]), abs(s[2])) > 2**53
    return any(_big(c) for c in U.children(s))


def cshape(s):
    """root-cause key of a minimal counterexample (no proper sub-term fails, so the unsound step
    is the top operator): the operator, and whether a constant beyond 2**53 is involved."""
    return "%s:%s" % (s[0], "beyond-2^53" if _big(s) else "small")


def _names(v):
    return {k.split(":")[0] for k in v}


def report(h, spec, viols, acc, profile=""):
    cache = {spec: viols}

    def violated(c):
        if c not in cache:
            cache[c] = judge(h, c)[1]
        return _names(cache[c])

    for so, m in X.localise(spec, violated, None, h.memo):
        if m != spec:
            acc.count("violations_minimised")
        mv = cache[m] if m in cache else judge(h, m)[1]
        key = [k for k in mv if k.split(":")[0] == so][0]
        acc.violation(
            "%s|%s" % (key, cshape(m)),
            "e = %s; %s" % (U.label(m), mv[key]),
            {"spec": tj(m), "profile": profile, "found_as": tj(spec)},
        )


def _nontrivial(spec, status):
    return "b" in status and U.size(spec) > 0


# ---- (b) equality symmetry ---------------------------------------------------------------------
def _operand(ctx, name):
    import unified_planning as up

    em = ctx.em
    if name == "time:start":
        return em.TimingExp(up.model.StartTiming())
    if name == "time:global+1":
        return em.TimingExp(up.model.GlobalStartTiming(1))
    if name.startswith("deep:"):
        # a hierarchy of depth 3: E > P, E > V > K (nearest common ancestor of P and K is the
        # father of one but the grandfather of the other)
        for tn, fa in (("E", None), ("P", "E"), ("V", "E"), ("K", "V")):
            ctx.utype(tn, fa)
        tn = name[5]
        return em.ObjectExp(ctx.obj("deep_" + tn.lower(), tn))
    return ctx.e(dict(EQ_OPERANDS)[name])


EQ_OPERANDS = [
    ("bool:true", ("b", True)),
    ("bool:p", FL("p")),
    ("int:5", I(5)),
    ("int:n", FL("n")),
    ("real:1/2", ("r", 1, 2)),
    ("real:r", FL("r")),
    ("A-object:a1", O("a1")),
    ("B-object:b1", O("b1")),
    ("C-object:c1", O("c1")),
    ("A-fluent:g(a1)", FL("g", O("a1"))),
    ("B-variable:vb", ("v", "vb", "B")),
    ("time:start", None),
    ("time:global+1", None),
    ("deep:E-object", None),
    ("deep:P-object", None),
    ("deep:V-object", None),
    ("deep:K-object", None),
]
_CLASS = {"bool": "bool", "int": "num", "real": "num", "A-object": "user", "B-object": "user", "C-object": "user",
          "A-fluent": "user", "B-variable": "user", "time": "time", "deep": "user"}


def try_equals(a, b):
    """Equals(a, b) in a FRESH environment -> None if accepted, else the exception."""
    w = U.World()
    x, y = _operand(w.ctx, a), _operand(w.ctx, b)
    try:
        w.em.Equals(x, y)
        return None
    except Exception as ex:
        return ex


def judge_pair(a, b):
    r1, r2 = try_equals(a, b), try_equals(b, a)
    if (r1 is None) != (r2 is None):
        acc_, rej = ((a, b), (b, a)) if r1 is None else ((b, a), (a, b))
        ex = r2 if r1 is None else r1
        return (
            "Equals(%s, %s) is accepted but Equals(%s, %s) raises %s: %s"
            % (acc_[0], acc_[1], rej[0], rej[1], type(ex).__name__, str(ex)[:120])
        )
    return None


def _eq_fp(a, b):
    """root-cause key: the type class of the LEFT operand of the accepted direction (the type
    checker decides from the left operand's point of view)."""
    left = a if try_equals(a, b) is None else b
    return "equals-asymmetric|accepted-with-left=%s" % _CLASS[left.split(":")[0]]


def run_equality(acc):
    names = [k for k, _ in EQ_OPERANDS]
    for a, b in product(names, names):
        acc.count("equality_pairs")
        acc.count("evaluations")
        r = try_equals(a, b)
        acc.outcome("Equals:" + ("accepted" if r is None else type(r).__name__))
        if names.index(a) < names.index(b):
            what = judge_pair(a, b)
            if what:
                acc.count("nontrivial")
                acc.violation(_eq_fp(a, b), what, {"equality": [a, b]})
    acc.sample({"equality_operands": names})


# ---- runner ------------------------------------------------------------------------------------
def run_shard(shard, tier, seed):
    acc = Acc()
    if shard.get("equality"):
        run_equality(acc)
        return acc
    prof, cs = X.shard_cases(PROFILES, shard, tier)
    h = X.Holder(lambda: U.World())
    h.memo = {}
    for spec in cs:
        stats = {}
        status, viols = judge(h, spec, stats)
        acc.count("trees")
        acc.count("evaluations", stats.get("evals", 0))
        acc.outcome(status)
        if _nontrivial(spec, status):
            acc.count("nontrivial")
        if viols:
            report(h, spec, viols, acc, prof["name"])
    acc.count("worlds_renewed", h.renewed)
    if cs:
        acc.sample({"profile": prof["name"], "level": shard["level"], "tree": U.label(cs[-1])})
    return acc


def replay(case):
    acc = Acc()
    if "equality" in case:
        a, b = case["equality"]
        what = judge_pair(a, b)
        return [(_eq_fp(a, b), what)] if what else []
    spec = fj(case["spec"])
    h = X.Holder(lambda: U.World())
    h.memo = {}
    status, viols = judge(h, spec)
    if viols:
        report(h, spec, viols, acc, case.get("profile", ""))
    return [(fp, e["cases"][0]["what"]) for fp, e in acc.viol.items()]
