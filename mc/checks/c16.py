"""C16 - expressions are hash-consed and constructors normalise as documented (DESIGN 4/C16).

Explicit-state search over CONSTRUCTION HISTORIES in one environment.  A search state is the
history (sequence of constructor calls) reaching it, materialised by replaying it on a fresh
environment.  After every call these invariants are judged:

 norm      the result's structure (read through node_type/args/payload accessors) is the documented
           normal form of the call, computed by an independent reference normaliser: And/Or/Plus/
           Times with 0 or 1 argument, Not(Not x), GE/GT as mirrored LE/LT, numeric literals
           (int, float, Fraction, str) as canonical Int / Real constants
 identity  every node reachable from the result whose structure was built before IS the node built
           before; a structure not built before is a new object with a new node_id
 distinct  no object stands for two different structures; all node_ids (reachable nodes and, when
           exposed, the manager's table) are pairwise different
 frozen    node_type, args (identity), payload, node_id and structure of every node created earlier
           are what they were when it was created

Canonical state = set of structures present in the environment (order-free: ids are compared only
for uniqueness).  create_node reads nothing else (table keyed by content; the id counter only has to
be fresh), so equal canonical states have equal futures.  Every generated history is executed and
judged; the canonical state only decides which histories are extended.

Scope: a call that is ILL-TYPED is in the alphabet as a disturbance (it must not break any invariant
for the other nodes) but its own outcome is not judged here (what a repeated ill-typed construction
does is history dependence, C14's subject).
"""
from __future__ import annotations

from fractions import Fraction

import unified_planning as up
from unified_planning.model.operators import OperatorKind as OK

from mc.kernel.runner import Acc, HarnessError
from mc.gen.spec import Ctx, to_spec, fresh_env
from mc.checks import minviol

PROPERTY = "C16"
LEVEL = "model_checking"
RULE = (
    "BFS over all sequences of D constructor calls: the first D-1 from a pool of 54, the last from a sub-pool of 21 "
    "with one route per structure class (D=3 quick, 4 thorough; all shorter sequences over the full pool) "
    "(0/1/2-ary And/Or/Plus/Times, list forms, repeated structures through different routes, GE/GT, nested Not, "
    "Int(1) vs 1 vs '1' vs 1.0 vs Fraction(2,2), Real(1/2) vs 0.5 vs '0.5' vs '1/2' vs Fraction(2,4), Real(1) vs Int(1) "
    "vs True, negative literals, fluent auto-promotion, python operator routes, quantifiers, two ill-typed calls); invariants norm/identity/distinct/frozen "
    "after every call; histories are extended from one representative per canonical state (set of structures) per "
    "first call; non-trivial history = some call rebuilds a structure that an earlier call of the history built"
)
ASSUMPTIONS = [
    "documented normal forms = the reference normaliser `norm` below (docstrings of ExpressionManager + C16 statement)",
    "floats in the pool are exactly representable (0.5, 1.0, 0.0, 2.5): Real(Fraction(float)) is unambiguous",
]


def bounds(tier):
    return {"depth": 3 if tier == "quick" else 4, "pool": [show(c) for c in POOL],
            "full_pool_calls": 2 if tier == "quick" else 3, "last_call_pool": [show(c) for c in PROBE]}


# ---------------------------------------------------------------------------------------------
# constructor-call language (input side) -------------------------------------------------------
# ("F", name, arg...)  em.FluentExp(fluent, args)        ("Fl", name)  raw Fluent object (auto-promoted)
# ("O", name) ("V", name)  ObjectExp / VariableExp        ("lit", kind, text)  raw python literal
# ("Int", v) ("Real", n, d) ("TRUE",) ("FALSE",)          ("And", ...) ("AndL", ...)=list form, etc.

p, s, n, r = ("F", "p"), ("F", "s"), ("F", "n"), ("F", "r")
L1 = ("lit", "int", "1")


def lit(kind, text):
    return ("lit", kind, text)


POOL = [
    ("And",), ("And", p), ("And", p, s), ("AndL", p, s), ("And", s, p), ("And", ("Fl", "p"), s),
    ("Or",), ("Or", p), ("Or", p, s), ("OrL", p, s),
    ("Plus",), ("Plus", n), ("Plus", n, L1), ("Plus", n, lit("float", "1.0")), ("PlusL", n, ("Int", 1)),
    ("Times",), ("Times", n), ("Times", n, lit("frac", "2/2")),
    ("Not", p), ("Not", ("Not", p)), ("Not", ("Not", ("Not", p))), ("Not", ("And", p, s)),
    ("LE", n, L1), ("GE", L1, n), ("GE", n, L1), ("LT", n, r), ("GT", r, n), ("GT", n, r),
    ("Int", 1), L1, lit("str", "1"), lit("float", "1.0"), lit("frac", "2/2"), lit("bool", "True"),
    ("Real", 1, 2), lit("float", "0.5"), lit("str", "0.5"), lit("str", "1/2"), lit("frac", "2/4"),
    ("Real", 1, 1), lit("float", "0.0"),
    ("Equals", n, ("Real", 1, 1)), ("Equals", n, L1), ("Equals", L1, n),
    ("Real", -1, 2), lit("str", "-3/6"), lit("int", "-1"),
    # strings that denote an integer without being int() literals
    lit("str", "1.0"), lit("str", "2/2"),
    # python operator routes
    ("OpAdd", n, L1), ("OpGE", n, L1), ("OpInv", ("OpInv", p)), ("OpAnd", p, s),
    ("Exists", (("v", "A"),), ("F", "q", ("V", "v"))),
    # ill-typed disturbances
    ("And", p, n), ("Plus", n, p),
]
ILL = {("And", p, n), ("Plus", n, p)}
# the LAST call of a maximal-length history is drawn from this sub-pool (one route per structure class)
PROBE = [
    ("And", p, s), ("AndL", p, s), ("Or",), ("Plus",), ("Plus", n, L1), ("Times", n, lit("frac", "2/2")),
    ("Not", ("Not", p)), ("Not", ("Not", ("Not", p))), ("GE", L1, n), ("GT", r, n), ("Int", 1), lit("str", "1"),
    lit("float", "1.0"), lit("bool", "True"), lit("float", "0.5"), lit("str", "1/2"), ("Real", 1, 1),
    lit("str", "1.0"), lit("str", "2/2"),
    ("Equals", n, ("Real", 1, 1)), ("OpGE", n, L1), ("Exists", (("v", "A"),), ("F", "q", ("V", "v"))), ("And", p, n),
]

_NARY = {"And": "and", "Or": "or", "Plus": "+", "Times": "*"}
_UNIT = {"And": ("b", True), "Or": ("b", False), "Plus": ("i", 0), "Times": ("i", 1)}
_OPS = {"OpAdd": "Plus", "OpGE": "GE", "OpInv": "Not", "OpAnd": "And"}
_BIN = {"LE": "le", "LT": "lt", "Equals": "eq", "Minus": "-", "Div": "/", "Implies": "implies", "Iff": "iff"}


def show(c):
    if c[0] == "lit":
        return {"str": repr(c[2]), "frac": "Fraction(%s)" % c[2].replace("/", ",")}.get(c[1], c[2])
    if c[0] in ("F", "Fl", "O", "V"):
        return c[1] + ("(%s)" % ",".join(show(a) for a in c[2:]) if len(c) > 2 else "") + ("*" if c[0] == "Fl" else "")
    if c[0] in ("Int", "Real"):
        return "%s(%s)" % (c[0], "/".join(str(x) for x in c[1:]))
    if c[0] in ("Exists", "Forall"):
        return "%s(%s. %s)" % (c[0], ",".join(v for v, _ in c[1]), show(c[2]))
    if c[0].endswith("L") and c[0][:-1] in _NARY:
        return "%s([%s])" % (c[0][:-1], ", ".join(show(a) for a in c[1:]))
    return "%s(%s)" % (c[0], ", ".join(show(a) for a in c[1:]))


def litval(kind, text):
    if kind == "int":
        return int(text)
    if kind == "float":
        return float(text)
    if kind == "frac":
        a, b = text.split("/")
        return Fraction(int(a), int(b))
    if kind == "str":
        return text
    if kind == "bool":
        return text == "True"
    raise ValueError(kind)


def norm(c):
    """reference normaliser: constructor call -> documented structure (spec.py language)."""
    t = c[0]
    if t == "F":
        return ("f", c[1]) + tuple(norm(a) for a in c[2:])
    if t == "Fl":
        return ("f", c[1])
    if t == "O":
        return ("o", c[1])
    if t == "V":
        return ("v", c[1], "A")
    if t == "TRUE":
        return ("b", True)
    if t == "FALSE":
        return ("b", False)
    if t == "Int":
        return ("i", c[1])
    if t == "Real":
        f = Fraction(c[1], c[2])
        return ("r", f.numerator, f.denominator)
    if t == "lit":
        if c[1] == "bool":
            return ("b", c[2] == "True")
        v = litval(c[1], c[2])
        f = Fraction(v)  # exact also for float and str
        return ("i", f.numerator) if f.denominator == 1 else ("r", f.numerator, f.denominator)
    if t in _OPS:
        return norm((_OPS[t],) + tuple(c[1:]))
    base = t[:-1] if t.endswith("L") and t[:-1] in _NARY else t
    if base in _NARY:
        args = tuple(norm(a) for a in c[1:])
        if len(args) == 0:
            return _UNIT[base]
        if len(args) == 1:
            return args[0]
        return (_NARY[base],) + args
    if t == "Not":
        x = norm(c[1])
        return x[1] if x[0] == "not" else ("not", x)
    if t == "GE":
        return ("le", norm(c[2]), norm(c[1]))
    if t == "GT":
        return ("lt", norm(c[2]), norm(c[1]))
    if t in _BIN:
        return (_BIN[t], norm(c[1]), norm(c[2]))
    if t in ("Exists", "Forall"):
        return (t.lower(), tuple(c[1]), norm(c[2]))
    raise ValueError(c)


class World:
    def __init__(self):
        self.env = fresh_env()
        ctx = Ctx(self.env)
        self.ctx = ctx
        self.em = self.env.expression_manager
        ctx.utype("A")
        ctx.obj("a1", "A")
        ctx.fluent("p", ("bool",))
        ctx.fluent("s", ("bool",))
        ctx.fluent("n", ("int", None, None))
        ctx.fluent("r", ("real", None, None))
        ctx.fluent("q", ("bool",), (("x", ("user", "A")),))
        self.registry = {}  # structure -> node
        self.meta = {}  # id(node) -> (node, structure, node_id, node_type, args, payload)

    def build(self, c):
        """run the constructor call through the real ExpressionManager API."""
        em, ctx = self.em, self.ctx
        t = c[0]
        if t == "F":
            return em.FluentExp(ctx.fluents[c[1]], tuple(self.build(a) for a in c[2:]))
        if t == "Fl":
            return ctx.fluents[c[1]]  # raw object: auto-promoted by the consumer
        if t == "O":
            return em.ObjectExp(ctx.objects[c[1]])
        if t == "V":
            return em.VariableExp(ctx.var(c[1], "A"))
        if t == "TRUE":
            return em.TRUE()
        if t == "FALSE":
            return em.FALSE()
        if t == "Int":
            return em.Int(c[1])
        if t == "Real":
            return em.Real(Fraction(c[1], c[2]))
        if t == "lit":
            return litval(c[1], c[2])  # raw literal: auto-promoted by the consumer
        if t in _OPS:
            a = [self.build(x) for x in c[1:]]
            if t == "OpAdd":
                return a[0] + a[1]
            if t == "OpGE":
                return a[0] >= a[1]
            if t == "OpInv":
                return ~a[0]
            return a[0] & a[1]
        if t.endswith("L") and t[:-1] in _NARY:
            return getattr(em, t[:-1])([self.build(a) for a in c[1:]])
        if t in _NARY or t in ("Not", "GE", "GT") or t in _BIN:
            return getattr(em, t)(*[self.build(a) for a in c[1:]])
        if t in ("Exists", "Forall"):
            return getattr(em, t)(self.build(c[2]), *[ctx.var(v, tn) for v, tn in c[1]])
        raise ValueError(c)

    def call(self, c):
        """top-level call -> FNode (raw literals / fluents are promoted with auto_promote)."""
        r = self.build(c)
        if not isinstance(r, up.model.FNode):
            (r,) = self.em.auto_promote(r)
        return r


def reachable(node):
    seen, out, todo = set(), [], [node]
    while todo:
        x = todo.pop()
        if id(x) in seen:
            continue
        seen.add(id(x))
        out.append(x)
        todo.extend(x.args)
    return out


def raw(node):
    """(node_type, args identities, payload) through the public accessors"""
    nt = node.node_type
    pl = None
    if node.is_constant() and not node.is_object_exp():
        pl = ("const", type(node.constant_value()).__name__, str(node.constant_value()))
    elif node.is_fluent_exp():
        pl = ("fluent", node.fluent().name)
    elif node.is_variable_exp():
        pl = ("var", node.variable().name)
    elif node.is_object_exp():
        pl = ("obj", node.object().name)
    elif node.is_exists() or node.is_forall():
        pl = ("vars", tuple(v.name for v in node.variables()))
    return (nt, tuple(id(a) for a in node.args), pl)


def step(w, c, judge=True):
    """perform call c in world w, update the registry, return list of (sub, what)."""
    out = []
    try:
        res = w.call(c)
    except Exception as e:
        if c in ILL:
            res = None
        else:
            return [("norm:raises:%s" % type(e).__name__, "%s raised %r" % (show(c), e))]
    if c in ILL:
        res = None  # outcome of an ill-typed call is not judged; its side effects are (below)
    if res is not None:
        want = norm(c)
        got = to_spec(res)
        if judge and got != want:
            out.append(("norm:%s" % c[0].rstrip("L") if c[0] != "lit" else "norm:literal-%s" % c[1],
                        "%s built %r, documented normal form %r" % (show(c), got, want)))
        ids = {m[2] for m in w.meta.values()}
        for x in reachable(res):
            sp = to_spec(x)
            known = w.registry.get(sp)
            if known is not None:
                if known is not x and judge:
                    out.append(("identity:rebuilt-structure-is-a-new-node:%s" % sp[0],
                                "%s: structure %r was built before (node_id %d) but a different node (node_id %d) was returned"
                                % (show(c), sp, known.node_id, x.node_id)))
                continue
            if id(x) in w.meta:
                if judge:
                    out.append(("distinct:one-node-two-structures", "%s: node %d stands for %r and for %r"
                                % (show(c), x.node_id, w.meta[id(x)][1], sp)))
                continue
            if x.node_id in ids and judge:
                out.append(("distinct:node_id-reused", "%s: new structure %r got node_id %d which is already in use"
                            % (show(c), sp, x.node_id)))
            ids.add(x.node_id)
            w.registry[sp] = x
            w.meta[id(x)] = (x, sp, x.node_id) + raw(x)
    if judge:
        # frozen: every node created earlier is unchanged
        for node, sp, nid, nt, args, pl in w.meta.values():
            now = (to_spec(node), node.node_id) + raw(node)
            if now != (sp, nid, nt, args, pl):
                what_changed = [k for k, a, b in zip(("structure", "node_id", "node_type", "args", "payload"), now, (sp, nid, nt, args, pl)) if a != b]
                out.append(("frozen:%s-changed" % "+".join(what_changed), "after %s node %r changed: now %r" % (show(c), sp, now[0])))
                break
        table = getattr(w.em, "expressions", None)
        if isinstance(table, dict):
            allids = [x.node_id for x in table.values()]
            if len(allids) != len(set(allids)):
                out.append(("distinct:manager-table-has-duplicate-node_ids", "after %s the manager holds %d nodes with %d distinct ids"
                            % (show(c), len(allids), len(set(allids)))))
    return out


def canonical_state(w):
    table = getattr(w.em, "expressions", None)
    if isinstance(table, dict):
        return frozenset(repr(to_spec(x)) for x in table.values())
    return frozenset(repr(sp) for sp in w.registry)


def run_history(hist):
    """replay; prefix calls update the registry and are judged as well (cheap), the verdicts of the
    LAST call are returned together with everything found on the way."""
    w = World()
    found = []
    for k, ci in enumerate(hist):
        for sub, what in step(w, POOL[ci]):
            found.append((k, sub, what))
    return w, found


def label(hist):
    return ";".join(show(POOL[i]) for i in hist)


def nontrivial(hist):
    seen = set()
    for ci in hist:
        if POOL[ci] in ILL:
            continue
        sp = repr(norm(POOL[ci]))
        if sp in seen:
            return True
        seen.add(sp)
    return False


PROBE_IDX = [POOL.index(c) for c in PROBE]


def shards(tier, seed):
    return [{"level": 0, "first": i} for i in range(len(POOL))]


def run_shard(shard, tier, seed):
    acc = Acc()
    mv = minviol.MinViol(acc)
    depth = bounds(tier)["depth"]
    full = bounds(tier)["full_pool_calls"]
    seen = {}
    todo = [(shard["first"],)]
    last = None
    while todo:
        nxt = []
        for hist in todo:
            w, found = run_history(hist)
            acc.count("transitions")
            if nontrivial(hist):
                acc.count("nontrivial")
            if found:
                for k, sub, what in found:
                    h = hist[: k + 1]
                    mv.add(sub, [len(h), label(h)], label(h), "history [%s]: %s" % (label(h), what), {"hist": list(h)})
                acc.outcome("violates")
                continue
            acc.outcome("ok:%d-calls:%d-nodes" % (len(hist), len(w.registry)))
            key = canonical_state(w)
            if len(hist) >= depth or key in seen:
                acc.count("traces")
                if key in seen:
                    acc.count("merged_into_seen_state")
                seen.setdefault(key, hist)
                last = hist
                continue
            seen[key] = hist
            for ci in (range(len(POOL)) if len(hist) < full else PROBE_IDX):
                nxt.append(hist + (ci,))
        todo = nxt
    acc.count("states", len(seen))
    if last is not None:
        acc.sample({"history": [show(POOL[i]) for i in last]})
    mv.flush()
    return acc


finalize = minviol.finalize


def replay(case):
    hist = tuple(case["hist"])
    _w, found = run_history(hist)
    res = [("%s|%s" % (sub, label(hist[: k + 1])), "history [%s]: %s" % (label(hist[: k + 1]), what)) for k, sub, what in found]
    return minviol.filter_replay(case, res)
