"""C17 - linearity / monotonicity analysis is sound (DESIGN 4/C17).

Every numeric tree with <= N operators over the bounded fluents n:int[0,2], r:real[-1,1],
z:int[-2,-1], the parameters i:int[0,2], j:int[-2,-1], t:int[-1,1] and small constants is given
to LinearChecker(environment).get_fluents and - when it mentions the static fluent z - to
LinearChecker(problem).get_fluents (z static with value -2).  Oracles, by exhaustive exact
evaluation over the FULL finite domains (r: -1,-1/2,0,1/2,1):
  mono:pos / mono:neg   reported linear, fluent f only in the positive (negative) set: for all
                        valuations of the other leaves and all v < v' of f, value(v) <= (>=)
                        value(v'); valuations where either value is undefined are skipped
  nonlinear:product     root is a product with two factors that each depend on a (non-static)
                        fluent, and the product itself depends on one: must not be reported linear
  nonlinear:quotient    root is a quotient whose divisor depends on a fluent (and so does the
                        quotient): must not be reported linear
  raises                get_fluents raised on a tree that has a value
"""
from __future__ import annotations

from fractions import Fraction
from itertools import product

from mc.kernel.runner import Acc
from mc.gen import uexpr as U
from mc.gen.spec import tj, fj, to_spec
from mc.ref.eval import Bottom, Interp, ev
from mc.checks import exprutil as X

PROPERTY = "C17"
LEVEL = "exploration"
RULE = (
    "all numeric trees with <= N operators (+ - * / binary) of each leaf-pool profile, under "
    "LinearChecker(environment) and, if the tree mentions z, LinearChecker(problem) with z static; "
    "per tree and per fluent claimed monotone: all valuations of the other leaves over their full "
    "finite domains x all ordered pairs of the fluent's domain; an evaluation = one such pair "
    "with both values defined; non-trivial tree = reported linear with a fluent in exactly one set"
)
ASSUMPTIONS = [
    "real fluent r in [-1,1] is sampled at -1, -1/2, 0, 1/2, 1; all integer domains are complete",
    "'depends on a fluent' is decided semantically by exhaustive evaluation (a factor such as 0*n "
    "is not fluent-dependent), and the non-linearity demand is made at the root operator only",
    "interpreted functions are outside the universe (opaque to a linearity analysis)",
]

I = lambda v: ("i", v)
FL = lambda n: ("f", n)
P = lambda n: ("p", n)
ARITH = ["+", "-", "*", "/"]

PROFILES = [
    {
        "name": "symbols",
        "leaves": [FL("n"), FL("r"), FL("z"), P("i"), P("j"), P("t"), I(2), I(-1)],
        "ops": ARITH,
        "arities": (2,),
        "N": {"quick": 2, "thorough": 2},
    },
    {
        "name": "consts",
        "leaves": [FL("n"), FL("z"), P("j"), P("t"), I(-2), I(0), I(1), ("r", 1, 2)],
        "ops": ARITH,
        "arities": (2,),
        "N": {"quick": 2, "thorough": 2},
    },
    {
        "name": "nary",
        "leaves": [FL("n"), FL("r"), P("j"), P("t"), I(-2), I(2)],
        "ops": ["+", "*"],
        "arities": (3,),
        "nary3_leaf_only": False,
        "N": {"quick": 1, "thorough": 2},
    },
    {
        "name": "deep",
        "leaves": [FL("n"), FL("r"), P("j"), P("t"), I(-1)],
        "ops": ARITH,
        "arities": (2,),
        "N": {"thorough": 3},
    },
    {
        "name": "deep-z",
        "leaves": [FL("n"), FL("z"), P("i"), I(2)],
        "ops": ARITH,
        "arities": (2,),
        "N": {"thorough": 3},
    },
]

H = Fraction(1, 2)
VALS = {
    "n": [0, 1, 2],
    "r": [Fraction(-1), -H, 0, H, 1],
    "z": [-2, -1],
    "i": [0, 1, 2],
    "j": [-2, -1],
    "t": [-1, 0, 1],
}
STATICS = {("z",): -2}
MODES = ["env", "static"]
FLUENTS = ("n", "r", "z")


def bounds(tier):
    return {
        "profiles": X.profile_bounds(PROFILES, tier),
        "modes": MODES,
        "static": {"z": -2},
        "domains": {k: [str(x) for x in v] for k, v in VALS.items()},
    }


def shards(tier, seed):
    out = []
    for m in MODES:
        out.extend(X.make_shards(PROFILES, tier, per_shard=2500, extra={"mode": m}))
    out.sort(key=lambda s: s["level"])
    return out


class LC:
    def __init__(self, mode):
        self.mode = mode
        self.h = X.Holder(lambda: U.World(statics=STATICS if mode == "static" else None, fluents=FLUENTS))
        self.memo = {}
        self._mk()

    def _mk(self):
        from unified_planning.model.walkers import LinearChecker

        w = self.h.world
        self.lc = LinearChecker(w.problem) if self.mode == "static" else LinearChecker(environment=w.env)

    def renew(self):
        self.h.renew()
        self._mk()


def _vals(mode):
    v = dict(VALS)
    if mode == "static":
        v["z"] = [STATICS[("z",)]]
    return v


def _symbols(spec):
    sy = U.symbols(spec)
    return sorted(sy["fl"]), sorted(sy["params"])


def _table(spec, vals):
    """{(valuation tuple over fluents+params in sorted order): value or None}"""
    fls, ps = _symbols(spec)
    names = [("f", f) for f in fls] + [("p", p) for p in ps]
    tab = {}
    for combo in product(*[vals[n] for _, n in names]):
        It = Interp(
            fl={(n,): v for (k, n), v in zip(names, combo) if k == "f"},
            params={n: v for (k, n), v in zip(names, combo) if k == "p"},
        )
        try:
            tab[combo] = ev(spec, It)
        except Bottom:
            tab[combo] = None
    return names, tab


def depends_on_fluent(spec, vals, which=None):
    """does the value vary with some (non-fixed) fluent, other leaves held equal?"""
    names, tab = _table(spec, vals)
    for idx, (k, n) in enumerate(names):
        if k != "f" or len(vals[n]) < 2 or (which is not None and n != which):
            continue
        groups = {}
        for combo, v in tab.items():
            if v is None:
                continue
            groups.setdefault(combo[:idx] + combo[idx + 1 :], set()).add(v)
        if any(len(s) > 1 for s in groups.values()):
            return True
    return False


def monotone(spec, f, vals, sign):
    """-> (n_pairs, counterexample or None). sign=+1: non-decreasing in f."""
    names, tab = _table(spec, vals)
    idx = names.index(("f", f))
    dom = sorted(vals[f])
    n = 0
    groups = {}
    for combo, v in tab.items():
        groups.setdefault(combo[:idx] + combo[idx + 1 :], {})[combo[idx]] = v
    for rest, byv in groups.items():
        for a in range(len(dom)):
            for b in range(a + 1, len(dom)):
                va, vb = byv.get(dom[a]), byv.get(dom[b])
                if va is None or vb is None:
                    continue
                n += 1
                if (sign > 0 and va > vb) or (sign < 0 and va < vb):
                    others = {nm: str(x) for (k, nm), x in zip(names[:idx] + names[idx + 1 :], rest)}
                    return n, "%s=%s gives %s but %s=%s gives %s (others: %s)" % (f, dom[a], va, f, dom[b], vb, others)
    return n, None


def judge(lc, spec, stats=None):
    out = {}
    vals = _vals(lc.mode)
    try:
        e = X.build(lc.h.world, spec)
    except X.HarnessError:
        raise
    except Exception as ex:
        lc.renew()
        return "unbuildable:" + type(ex).__name__, out
    try:
        lin, pos, neg = lc.lc.get_fluents(e)
        pos = {to_spec(x) for x in pos}
        neg = {to_spec(x) for x in neg}
    except Exception as ex:
        lc.renew()
        _, tab = _table(spec, vals)
        if any(v is not None for v in tab.values()):
            out["raises:" + type(ex).__name__] = "get_fluents raised %s: %s" % (type(ex).__name__, ex)
            return "raises", out
        return "undefined-everywhere", out
    if not lin:
        return "nonlinear", out
    status = "linear"
    # non-linearity demand at the root
    t = spec[0]
    if t == "*":
        dep = [a for a in spec[1:] if depends_on_fluent(a, vals)]
        if len(dep) >= 2 and depends_on_fluent(spec, vals):
            out["nonlinear:product"] = "product of the fluent-dependent factors %s is reported linear (pos=%s neg=%s)" % (
                ", ".join(U.label(a) for a in dep),
                sorted(U.label(x) for x in pos),
                sorted(U.label(x) for x in neg),
            )
    if t == "/":
        if depends_on_fluent(spec[2], vals) and depends_on_fluent(spec, vals):
            out["nonlinear:quotient"] = "quotient with the fluent-dependent divisor %s is reported linear" % U.label(spec[2])
    # monotonicity claims
    fls, _ = _symbols(spec)
    n = 0
    for f in fls:
        fs = ("f", f)
        if len(vals[f]) < 2:
            continue
        if fs in pos and fs not in neg:
            k, cex = monotone(spec, f, vals, +1)
            n += k
            status = "linear+claims"
            if cex:
                out["mono:pos"] = "%s is reported only positive (pos=%s neg=%s) but %s" % (
                    f, sorted(U.label(x) for x in pos), sorted(U.label(x) for x in neg), cex)
        elif fs in neg and fs not in pos:
            k, cex = monotone(spec, f, vals, -1)
            n += k
            status = "linear+claims"
            if cex:
                out["mono:neg"] = "%s is reported only negative (pos=%s neg=%s) but %s" % (
                    f, sorted(U.label(x) for x in pos), sorted(U.label(x) for x in neg), cex)
        elif fs not in pos and fs not in neg:
            # no claim in the statement about a fluent in neither set: recorded, not judged
            if depends_on_fluent(spec, vals, f):
                status = "linear+relevant-fluent-in-neither-set"
    if stats is not None:
        stats["evals"] = n
    return status, out


def key_of(so, m):
    """root-cause key of a minimal counterexample (no proper sub-term fails, so the unsound step
    is the root operator): sub-oracle family, root operator and - for / and * - whether the
    divisor / the fluent-free factors are literal constants."""
    fam = "mono" if so.startswith("mono") else so
    t = m[0]
    if t == "/":
        d = m[2]
        return "%s|/:divisor=%s" % (fam, "constant" if d[0] in ("i", "r") else "non-constant")
    if t == "*":
        free = [a for a in m[1:] if not U.symbols(a)["fl"]]
        kinds = sorted({"constant" if a[0] in ("i", "r") else "non-constant" for a in free})
        return "%s|*:fluent-free-factors=%s" % (fam, "+".join(kinds) or "none")
    return "%s|%s" % (fam, t)


def _fix_statics(s):
    """the static fluent replaced by its value (same meaning under the static problem)."""
    if s[0] == "f" and (s[1],) in STATICS:
        return ("i", STATICS[(s[1],)])
    if s[0] in ("i", "r", "p", "f"):
        return s
    return (s[0],) + tuple(_fix_statics(a) for a in s[1:])


def report(lc, spec, viols, acc, profile=""):
    cache = {spec: viols}

    def violated(c):
        if c not in cache:
            cache[c] = judge(lc, c)[1] if U.sort_of(c) in U.NUM else {}
        return set(cache[c])

    for so, m in X.localise(spec, violated, None, lc.memo):
        if m != spec:
            acc.count("violations_minimised")
        mv = cache[m] if m in cache else judge(lc, m)[1]
        tag = ""
        if lc.mode == "static":
            # static-specific only if the same tree with z written as its value is fine for the
            # plain checker
            m2 = _fix_statics(m)
            if not X.canonical(m2) or so not in judge(LC("env"), m2)[1]:
                tag = "static:"
        acc.violation(
            "%s%s" % (tag, key_of(so, m)),
            "%s: e = %s; %s" % (lc.mode, U.label(m), mv[so]),
            {"spec": tj(m), "mode": lc.mode, "profile": profile, "found_as": tj(spec)},
        )


def run_shard(shard, tier, seed):
    acc = Acc()
    prof, cs = X.shard_cases(PROFILES, shard, tier)
    mode = shard["mode"]
    lc = LC(mode)
    for spec in cs:
        if U.sort_of(spec) not in U.NUM:
            continue
        if mode == "static" and "z" not in U.symbols(spec)["fl"]:
            acc.count("skipped_no_static_fluent")
            continue
        stats = {}
        status, viols = judge(lc, spec, stats)
        acc.count("trees")
        acc.count("evaluations", stats.get("evals", 0))
        acc.outcome(status)
        if status == "linear+claims":
            acc.count("nontrivial")
        if viols:
            report(lc, spec, viols, acc, prof["name"])
    acc.count("worlds_renewed", lc.h.renewed)
    if cs:
        acc.sample({"profile": prof["name"], "mode": mode, "level": shard["level"], "tree": U.label(cs[-1])})
    return acc


def replay(case):
    acc = Acc()
    spec = fj(case["spec"])
    lc = LC(case.get("mode", "env"))
    status, viols = judge(lc, spec)
    if viols:
        report(lc, spec, viols, acc, case.get("profile", ""))
    return [(fp, e["cases"][0]["what"]) for fp, e in acc.viol.items()]
