"""C18 - PDDL write/read round trip preserves problem semantics and plans (DESIGN 4/C18).

Per generated problem P (spec A): PDDLWriter(P) -> domain/problem text -> each reader ->
re-read problem (spec B = problem_to_spec).  Oracle = mc/ref/bisim.compare(A, B) under the
writer's renaming (get_pddl_name): objects per type, initial state, lock-step BFS to depth D
with the reference semantics (applicability, successors, goal verdict), metric on all
executable plans <= k; plans: every ground-action sequence <= 2 written with get_plan and
parsed back (against the original problem through get_item_named, and against the re-read
problem by name) must be the same sequence.  Temporal instances: ioutil.temporal_compare.
Writer histories: text of P2 written after P1 in the same process == text of P2 alone.

Reader outcomes: a reader refusing a text with its documented error / a parse error of the
text is "outside that reader's fragment" (counted).  The AI-planning based reader is built on
a third-party parser (package `pddl`): every failure inside DomainParser/ProblemParser is
"outside"; a non-documented exception inside UP's own converter (interop/from_pddl.py) or
inside the UP reader on text the writer produced is reported (`read-<reader>:crash:<Exc>`).
"""
from __future__ import annotations

from fractions import Fraction
from itertools import product

from mc.kernel.runner import Acc
from mc.gen import pddlfrag as pf
from mc.gen import problem as gp
from mc.gen import naming
from mc.gen.spec import tj, fresh_env
from mc.ref import bisim
from mc.ref.seqsem import RefProblem
from mc.checks import simutil as su
from mc.checks import ioutil as io

PROPERTY = "C18"
LEVEL = "model_checking"
RULE = (
    "all U-PROB instances projected on the PDDL fragment (no object fluents / interpreted "
    "functions / oversubscription, unbounded numerics) with <= d deviating slots x fixed U-NAME "
    "renamings x {UP reader, AI-planning reader}; temporal instances (durative action with "
    "start/end conditions and effects, over-all, duration forms, timed initial literals) with <= d "
    "deviations; per instance product BFS to depth D of original and re-read problem under the "
    "reference semantics + all ground-action sequences <= 2 through get_plan/parse_plan_string; "
    "ordered pairs of 6 representative problems for writer histories; non-trivial transition = "
    "successor differs from the pre-state or inapplicable for a reason other than a false "
    "precondition"
)
ASSUMPTIONS = [
    "reference semantics mc/ref/seqsem.py on both sides (DESIGN A.1); a re-read problem is observed through problem_to_spec",
    "numeric fluents are unbounded in the generated problems (PDDL has no bounded numbers)",
    "rationals have finite decimal expansions",
    "problems the writer rejects with UPProblemDefinitionError/UPTypeError/UPUnsupportedProblemTypeError are skipped and counted",
    "text refused by a reader with a parse error / UPUnsupportedProblemTypeError / SyntaxError is outside that reader's fragment (counted)",
    "temporal structure: time structure compared exactly, expressions compared semantically on the BFS states x parameter bindings",
]

# (namespace, item) -> adversarial name ; <= 3 per assignment (U-NAME)
NAMINGS = [
    (),
    ((("object", "o1"), "A"), (("object", "o2"), "a")),
    ((("fluent", "p"), "at"), (("action", "a1"), "and"), (("type", "T"), "object")),
    ((("object", "o1"), "1a"), (("fluent", "b"), "a-b"), (("param", ("a1", "x")), "?x")),
    ((("object", "o1"), "a_0"), (("object", "o2"), "A"), (("object", "s1"), "a")),
    ((("fluent", "n"), "start"), (("action", "a2"), "move"), (("object", "o2"), "move_a")),
    ((("object", "o1"), "é"), (("fluent", "p"), "a b"), (("type", "S"), "1a")),
    ((("fluent", "p"), "P"), (("fluent", "b"), "p"), (("action", "a3"), "A1")),
]
READERS = ("up", "ai")


def _depth(tier, level=0):
    if tier == "quick":
        return 2
    return 3 if level <= 1 else 2


def bounds(tier):
    return {
        "inst_plan": [list(map(str, x)) for x in _inst_plan(tier)],
        "temporal_plan": _temp_plan(tier),
        "depth": {str(lv): _depth(tier, lv) for lv in (0, 1, 2)},
        "plan_k": 2,
        "namings": [naming.label(a) for a in NAMINGS],
        "readers": list(READERS),
        "history_problems": len(HIST),
    }


Q2_SLOTS = ["a1.pre1", "a1.eff1", "a1.eff2", "a2.eff2", "goal", "metric"]


def _inst_plan(tier):
    # (level, core_only, slots (None = all), namings used)
    if tier == "quick":
        return [(0, False, None, "all"), (1, False, None, "some"), (2, True, Q2_SLOTS, "plain")]
    return [(0, False, None, "all"), (1, False, None, "all"), (2, True, None, "some"), (2, False, None, "plain")]


def _temp_plan(tier):
    if tier == "quick":
        return [(0, False), (1, False), (2, True)]
    return [(0, False), (1, False), (2, False)]


def _nidx(which):
    if which == "all":
        return list(range(len(NAMINGS)))
    if which == "some":
        return [0, 2, 4]
    return [0]


def shards(tier, seed):
    ids = []
    seen = set()
    for level, core, slots, which in _inst_plan(tier):
        for cid, _ps in pf.instances(level, slots=slots, core_only=core):
            for ni in _nidx(which):
                if (cid, ni) not in seen:
                    seen.add((cid, ni))
                    ids.append((level, ("inst", cid, ni)))
    for level, core in _temp_plan(tier):
        for cid, _ps in pf.t_instances(level, core_only=core):
            ids.append((level, ("temp", cid, 0)))
        if level == 0:
            for cid, _ps in pf.t_instances(0):
                for ni in range(1, len(NAMINGS)):
                    ids.append((level, ("temp", cid, ni)))
    out = su.chunk_cases(ids, seed, per_level_chunks={0: 8, 1: 64, 2: 160 if tier == "quick" else 640})
    out.insert(1, {"level": 0, "hist": True})
    return out


def run_shard(shard, tier, seed):
    acc = Acc()
    if shard.get("hist"):
        run_histories(acc)
        return acc
    depth = _depth(tier, shard.get("level", 0))
    for kind, cid, ni in shard["cids"]:
        cid = tuple((s, i) for s, i in cid)
        io.run_minimised((kind, cid, ni), lambda k, a: check_case(k[0], k[1], k[2], depth, a), _smaller, acc)
    return acc


def _smaller(key):
    kind, cid, ni = key
    for j in range(len(cid)):
        yield (kind, cid[:j] + cid[j + 1:], ni)
    if ni:
        yield (kind, cid, 0)


def replay(case):
    acc = Acc()
    if case.get("kind") == "hist":
        run_histories(acc, only=(case["first"], case["second"]))
    else:
        cid = tuple((s, i) for s, i in case["cid"])
        check_case(case["kind"], cid, case["naming"], case.get("depth", 2), acc, readers=case.get("readers"))
    return [(fp, e["cases"][0]["what"]) for fp, e in acc.viol.items()]


def finalize(acc, tier=None):
    """same sub-oracle + same input failing for BOTH readers = one root cause on the writer's
    side: merged into a `both:` fingerprint; then superset pruning in which the reader prefix
    does not count (a case in which only one reader accepted the text is subsumed by the smaller
    input that fails for both)."""
    for fp in list(acc.viol):
        if fp.startswith("up:"):
            twin = "ai:" + fp[3:]
            if twin in acc.viol:
                e, t = acc.viol.pop(fp), acc.viol.pop(twin)
                e["count"] += t["count"]
                acc.viol["both:" + fp[3:]] = e

    def parse(fp):
        sub, _, lab = fp.rpartition("|")
        for pre in ("both:", "up:", "ai:"):
            if sub.startswith(pre):
                sub = sub[len(pre):]
                break
        return sub, frozenset(lab.split(",")) if lab != "base" else frozenset()

    parsed = {fp: parse(fp) for fp in acc.viol}
    drop = set()
    for fp, (sub, labs) in parsed.items():
        for fp2, (sub2, labs2) in parsed.items():
            if fp2 != fp and sub2 == sub and labs2 < labs:
                drop.add(fp)
                break
    for fp in drop:
        acc.c["violations_subsumed"] += acc.viol[fp]["count"]
        del acc.viol[fp]


# ------------------------------------------------------------------------------ one case
def _needs_rewrite(ps):
    def nonconst_bool(e):
        kind, fl, val, cond, fa = e
        return kind == "assign" and val[0] not in ("b", "i", "r") and _is_bool(ps, fl)

    for a in ps.get("actions", ()):
        if any(nonconst_bool(e) for e in a["eff"]):
            return True
    for a in ps.get("dactions", ()):
        if any(nonconst_bool(e) for _t, e in a["effs"]):
            return True
    return False


def _is_bool(ps, fl):
    for name, ts, _sig, _d in ps["fluents"]:
        if name == fl[1]:
            return ts[0] == "bool"
    return False


def check_case(kind, cid, ni, depth, acc, readers=None):
    base = pf.make(dict(cid)) if kind == "inst" else pf.t_make(dict(cid))
    if base is None:
        return
    assign = NAMINGS[ni]
    lab = "%s%s%s" % ("T:" if kind == "temp" else "", pf.label(cid), ("," + naming.label(assign)) if assign else "")
    case = {"kind": kind, "cid": tj(cid), "naming": ni, "depth": depth}

    def viol(sub, what, extra=None):
        c = dict(case)
        if extra:
            c.update(extra)
        acc.violation("%s|%s" % (sub, lab), what, c)

    # (reader, problem variant, writer flags).  The AI-planning parser (third-party package
    # `pddl`) dies with TypeError on an action without :precondition, so above the base level the
    # instance is the variant "P+pre" in which every precondition-less action requires the static
    # true literal st(o1) (same text for both readers); at the base level the plain problem P is
    # also written (default flags and empty_preconditions=True) and read.
    if kind == "temp":
        jobs = [("up", "P", "default")]  # the AI-planning reader has no durative actions at all
        if len(cid) == 0:
            jobs.append(("up", "P", "empty_pre"))
    elif len(cid) == 0:
        jobs = [("up", "P", "default"), ("up", "P", "empty_pre"), ("ai", "P", "empty_pre"), ("up", "P+pre", "default"), ("ai", "P+pre", "default")]
    else:
        jobs = [("up", "P+pre", "default"), ("ai", "P+pre", "default")]
    written = {}
    for kindr, variant, flags in jobs:
        if readers and kindr not in readers:
            continue
        key = (variant, flags)
        if key not in written:
            src = base if variant == "P" else pf.with_preconditions(base)
            ps = naming.rename_spec(src, assign) if assign else src
            written[key] = (ps, write_problem(ps, flags, acc, viol))
        ps, wr = written[key]
        if wr is None:
            continue
        if kindr == "ai" and _duplicate_effects(ps):
            # package `pddl` builds `and` nodes from a SET of operands: two syntactically equal
            # effects of one action collapse into one inside the third-party parser
            acc.count("outside_fragment_ai")
            acc.outcome("ai:outside:duplicate-and-operands")
            continue
        read_and_compare(kind, ps, wr, kindr, depth, acc, viol, tag="" if variant == "P+pre" or key == ("P", "default") else "%s/%s:" % key)
    acc.sample({"case": lab})


def _duplicate_effects(ps):
    return any(len(set(a["eff"])) != len(a["eff"]) for a in ps.get("actions", ()))


def write_problem(ps, flags, acc, viol):
    """-> (problem, writer, domain text, problem text) or None (skip / violation recorded)"""
    from unified_planning.io import PDDLWriter

    io.reset_writer_state()
    try:
        b = io.build(ps, acc)
    except Exception as e:  # UP refuses the model (name clashes etc.): not a case
        acc.count("skipped_up_rejects_model")
        acc.outcome("build-rejected:" + io.exc_name(e))
        return None
    if b is None:
        return None
    prob, _ctx = b
    acc.count("problems")
    rewrite = _needs_rewrite(ps)
    if rewrite:
        # the default writer must refuse with its documented error
        try:
            PDDLWriter(prob).get_domain()
            acc.outcome("nonconst-bool-assign written without rewrite flag")
        except Exception as e:
            if not io.is_documented_writer_rejection(e):
                viol("write:raises:" + io.exc_name(e), "PDDLWriter.get_domain raised %s: %s" % (io.exc_name(e), e))
                return None
            acc.count("writer_documented_rejections")
    try:
        w = PDDLWriter(prob, rewrite_bool_assignments=rewrite, empty_preconditions=(flags == "empty_pre"))
        return prob, w, w.get_domain(), w.get_problem()
    except Exception as e:
        if io.is_documented_writer_rejection(e):
            acc.count("skipped_writer_rejects")
            acc.outcome("writer-rejects:" + io.exc_name(e))
            return None
        viol("write:raises:" + io.exc_name(e), "PDDLWriter(%s) raised %s: %s" % (flags, io.exc_name(e), e))
        return None


def read_and_compare(kind, ps, wr, kindr, depth, acc, viol0, tag=""):
    prob, w, dom, prb = wr

    def viol(sub, what, extra=None):
        extra = dict(extra or {})
        extra["readers"] = [kindr]
        viol0(tag + sub, what, extra)

    ren = io.pddl_renaming(w, prob)
    status, payload = io.read_pddl(kindr, dom, prb)
    if status == "outside":
        acc.outcome("%s:outside:%s" % (kindr, payload))
        if kindr == "up":
            # the UP reader is the writer's own counterpart: refusing the writer's output for an
            # in-fragment problem breaks the round trip
            viol("read-up:rejects:%s" % payload, "UP reader refuses the text PDDLWriter produced (%s)" % payload)
        else:
            acc.count("outside_fragment_" + kindr)
        return
    if status == "crash":
        acc.outcome("%s:crash:%s" % (kindr, io.exc_name(payload)))
        viol("read-%s:crash:%s" % (kindr, io.exc_name(payload)),
             "reader %s raised %s: %s on text written by PDDLWriter" % (kindr, io.exc_name(payload), payload))
        return
    reread = payload
    try:
        spec_b = gp.problem_to_spec(reread)
    except Exception as e:
        viol("read-%s:malformed:%s" % (kindr, io.exc_name(e)), "re-read problem cannot be inspected: %s" % (e,))
        return
    acc.count("roundtrips")
    acc.count("roundtrips_" + kindr)
    try:
        res = bisim.compare(ps, spec_b, ren, depth=depth, plan_k=2)
    except Exception as e:  # the re-read problem contains something the spec language cannot express
        viol("%s:not-comparable:%s" % (kindr, io.exc_name(e)), "re-read problem cannot be interpreted by the reference: %s" % (e,))
        return
    for k in ("states", "transitions", "nontrivial", "traces", "plans"):
        acc.count(k, res.c[k])
    for k, v in res.outcomes.items():
        acc.outcome(k, v)
    for sub, what, wit in res.diffs:
        viol("%s:%s" % (kindr, sub), what, {"witness": wit})
    if kind == "temp" and not any(s in ("objects", "fluents", "init") for s, _w, _x in res.diffs):
        try:
            tdiffs, n_eval = io.temporal_compare(ps, spec_b, ren, res.pairs)
        except Exception as e:
            viol("%s:not-comparable:%s" % (kindr, io.exc_name(e)), "temporal part of the re-read problem cannot be interpreted by the reference: %s" % (e,))
            return
        acc.count("temporal_evaluations", n_eval)
        for sub, what, wit in tdiffs:
            viol("%s:%s" % (kindr, sub), what, {"witness": wit})
    if not res.diffs:
        plan_roundtrip(ps, prob, w, reread, spec_b, ren, kindr, acc, viol)


# ------------------------------------------------------------------------------ plans
_PLAN_READER = []


def _plan_reader():
    """parse_plan_string is a line-by-line regular-expression parser that keeps no state; one
    PDDLReader per process is shared (constructing one builds the whole pyparsing grammar)."""
    from unified_planning.io import PDDLReader

    if not _PLAN_READER:
        _PLAN_READER.append(PDDLReader(fresh_env(set_global=False)))
    return _PLAN_READER[0]


def _valid(P, steps):
    st = P.initial_state()
    if not P.state_ok(st):
        return False
    for an, args in steps:
        st, _why = P.apply(st, an, args)
        if st is None:
            return False
    return P.is_goal(st)


def plan_roundtrip(ps, prob, w, reread, spec_b, ren, kindr, acc, viol):
    """every ground-action sequence <= 2 (instantaneous actions) + one time-triggered plan
    per durative ground action on the time grid."""
    import unified_planning as up
    from unified_planning.io import PDDLReader
    from unified_planning.plans import ActionInstance, SequentialPlan, TimeTriggeredPlan

    A, B = RefProblem(ps), RefProblem(spec_b)
    em = prob.environment.expression_manager
    gas = A.ground_actions()
    if not gas:
        return
    seqs = [()] + [(g,) for g in gas] + [(g, h) for g in gas for h in gas[:3]]
    rd_o = rd_b = _plan_reader()

    def inst(ga):
        return ActionInstance(prob.action(ga[0]), tuple(em.ObjectExp(prob.object(o)) for o in ga[1]))

    insts = {ga: inst(ga) for ga in gas}
    for seq in seqs:
        acc.count("plans_roundtripped")
        plan = SequentialPlan([insts[g] for g in seq])
        try:
            text = w.get_plan(plan)
            back_o = rd_o.parse_plan_string(prob, text, w.get_item_named)
            back_b = rd_b.parse_plan_string(reread, text)
        except Exception as e:
            viol("%s:plan:raises:%s" % (kindr, io.exc_name(e)), "plan %s: %s: %s" % (list(seq), io.exc_name(e), e), {"plan": tj(seq)})
            return
        got_o = [(ai.action.name, tuple(p.object().name for p in ai.actual_parameters)) for ai in back_o.actions]
        got_b = [(ai.action.name, tuple(p.object().name for p in ai.actual_parameters)) for ai in back_b.actions]
        if got_o != list(seq) or any(ai.action is not prob.action(ai.action.name) for ai in back_o.actions):
            viol("%s:plan:get_item_named" % kindr, "plan %s parsed back (through get_item_named) as %s" % (list(seq), got_o), {"plan": tj(seq)})
            return
        want_b = [ren.ga(g) for g in seq]
        if got_b != want_b:
            viol("%s:plan:reread-names" % kindr, "plan %s parsed against the re-read problem as %s, expected %s" % (list(seq), got_b, want_b), {"plan": tj(seq)})
            return
        if _valid(A, seq) != _valid(B, got_b):
            viol("%s:plan:validity" % kindr, "plan %s valid=%s, parsed plan valid=%s" % (list(seq), _valid(A, seq), _valid(B, got_b)), {"plan": tj(seq)})
            return
    # time-triggered plans (temporal instances): structure only
    das = ps.get("dactions", ())
    if not das:
        return
    grid_s = [Fraction(0), Fraction(1, 2), Fraction(3, 2), Fraction(3)]
    grid_d = [Fraction(1), Fraction(5, 2)]
    for a in das:
        act = prob.action(a["name"])
        doms = [A.domain(pt) for _pn, pt in a["params"]]
        for combo in product(*doms):
            for s, d in product(grid_s, grid_d):
                acc.count("plans_roundtripped")
                ai = ActionInstance(act, tuple(em.ObjectExp(prob.object(o)) for o in combo))
                items = [(s, ai, d)]
                if gas:
                    items.append((s + d, insts[gas[0]], None))
                plan = TimeTriggeredPlan(items)
                try:
                    text = w.get_plan(plan)
                    back_o = rd_o.parse_plan_string(prob, text, w.get_item_named)
                    back_b = rd_b.parse_plan_string(reread, text)
                except Exception as e:
                    viol("%s:ttplan:raises:%s" % (kindr, io.exc_name(e)), "time-triggered plan: %s: %s" % (io.exc_name(e), e), None)
                    return
                want = [(Fraction(t), x.action.name, tuple(p.object().name for p in x.actual_parameters), None if dd is None else Fraction(dd)) for t, x, dd in items]
                for back, mapped in ((back_o, False), (back_b, True)):
                    if not isinstance(back, TimeTriggeredPlan):
                        viol("%s:ttplan:kind" % kindr, "time-triggered plan parsed back as %s" % type(back).__name__, None)
                        return
                    got = [(Fraction(t), x.action.name, tuple(p.object().name for p in x.actual_parameters), None if dd is None else Fraction(dd)) for t, x, dd in back.timed_actions]
                    exp = want if not mapped else [(t, ren.a(n), tuple(ren.o(o) for o in args), dd) for t, n, args, dd in want]
                    if got != exp:
                        viol("%s:ttplan:content" % kindr, "time-triggered plan %s parsed back as %s" % (exp, got), None)
                        return


# ------------------------------------------------------------------------------ histories
def _hist_specs():
    """6 representative problems: classical, numeric+costs, PDDL3 constraint, temporal,
    temporal with TIL, adversarial names that are temporal/PDDL3 keywords."""
    out = []
    out.append(("classical", pf.make({})))
    out.append(("numeric-costs", pf.make({"a1.eff2": 14, "metric": 2})))
    out.append(("pddl3", pf.make({"inv": 0})))
    out.append(("temporal", pf.t_make({})))
    out.append(("temporal-til", pf.t_make({"til": 0, "d1.cond1": 2})))
    kw = naming.rename_spec(
        pf.make({"a1.pre1": 0}),
        ((("fluent", "p"), "at"), (("fluent", "b"), "always"), (("object", "o1"), "start"), (("action", "a2"), "over"), (("object", "o2"), "end")),
    )
    out.append(("keyword-names", kw))
    return out


HIST = ["classical", "numeric-costs", "pddl3", "temporal", "temporal-til", "keyword-names"]


def _write(ps):
    from unified_planning.io import PDDLWriter

    prob, _ctx = io.build(ps, Acc())
    w = PDDLWriter(prob)
    return w.get_domain() + "\n#####\n" + w.get_problem()


def run_histories(acc, only=None):
    specs = _hist_specs()
    alone = {}
    for name, ps in specs:
        io.reset_writer_state()
        try:
            alone[name] = _write(ps)
        except Exception as e:
            acc.violation("write:raises:%s|hist:%s" % (io.exc_name(e), name), "writing %r raised %s: %s" % (name, io.exc_name(e), e),
                          {"kind": "hist", "first": name, "second": name})
    for (n1, p1), (n2, p2) in product(specs, specs):
        if only and (n1, n2) != tuple(only):
            continue
        if n1 not in alone or n2 not in alone:
            continue
        io.reset_writer_state()
        acc.count("transitions", 2)
        acc.count("states")
        try:
            _write(p1)
            t2 = _write(p2)
        except Exception as e:
            acc.violation("history:raises:%s|%s" % (io.exc_name(e), n2), "writing %r after %r raised %s: %s" % (n2, n1, io.exc_name(e), e),
                          {"kind": "hist", "first": n1, "second": n2})
            continue
        acc.count("histories")
        if t2 != alone[n2]:
            acc.count("nontrivial")
            diff = _first_diff(alone[n2], t2)
            acc.outcome("history-changes-text")
            acc.violation(
                "history:text|%s" % n2,
                "text of %r written after %r differs from the text written alone: %s" % (n2, n1, diff),
                {"kind": "hist", "first": n1, "second": n2},
            )
        else:
            acc.count("traces")
            acc.outcome("history-same-text")
    io.reset_writer_state()


def _first_diff(a, b):
    la, lb = a.splitlines(), b.splitlines()
    for x, y in zip(la, lb):
        if x != y:
            return "alone %r vs after %r" % (x.strip(), y.strip())
    return "length %d vs %d" % (len(la), len(lb))
