"""C19 - ANML write/read round trip preserves problem semantics (DESIGN 4/C19).

Per generated problem P (spec A): ANMLWriter(P).get_problem() -> ANMLReader.parse_problem_string
-> re-read problem (spec B).  Renaming = ANMLWriter's table through hook H1.
Instantaneous behaviour: mc/ref/bisim.compare (objects per type, initial state, lock-step BFS to
depth D: applicability, successors, goal verdict).  Temporal structure (durative actions,
timed effects, timed goals): ioutil.temporal_compare - time structure exact (which timepoints
/ interval pieces carry conditions and effects, duration openness, TIL/timed-goal times),
expressions semantically on the BFS states x parameter bindings.

Not demanded (not in the statement / not expressible in ANML): quality metrics and trajectory
constraints (ANMLWriter does not write them), interpreted functions.
"""
from __future__ import annotations

from mc.kernel.runner import Acc
from mc.gen import pddlfrag as pf
from mc.gen import problem as gp
from mc.gen import naming
from mc.gen import uprob
from mc.gen.spec import tj, fresh_env
from mc.ref import bisim
from mc.checks import simutil as su
from mc.checks import ioutil as io

PROPERTY = "C19"
LEVEL = "model_checking"
RULE = (
    "all U-PROB instances in the ANML fragment (bounded numerics and object fluents kept, no "
    "interpreted functions, no metric / trajectory slots) with <= d deviating slots; temporal "
    "instances (durative action d1 with start/end/intermediate timings, open/closed intervals, "
    "duration forms, timed effects, timed goals) with <= d deviating slots; fixed U-NAME renamings "
    "on both base problems; per instance product BFS to depth D of original and re-read problem "
    "under the reference semantics; non-trivial transition = successor differs from the pre-state "
    "or inapplicable for a reason other than a false precondition"
)
ASSUMPTIONS = [
    "reference semantics mc/ref/seqsem.py on both sides; a re-read problem is observed through problem_to_spec",
    "renaming taken from hook H1 (ANMLWriter._verif_names_mapping, UP_VERIF=1)",
    "problem-level `start + d` and `global start + d` denote the same instant",
    "ANMLSyntaxError / UPUnsupportedProblemTypeError from the reader = documented limitation (counted), any other reader failure on writer output is reported",
    "pyparsing is slow (0.4-1.5 s per round trip of these problems): quick = core alternatives at deviation level 1; the level actually completed is in levels_completed",
]

NAMINGS = [
    (),
    ((("object", "o1"), "A"), (("object", "o2"), "a")),
    ((("fluent", "p"), "at"), (("action", "a1"), "and"), (("type", "T"), "object")),
    ((("object", "o1"), "1a"), (("fluent", "b"), "a_b"), (("param", ("a1", "x")), "?x")),
    ((("object", "o1"), "start"), (("fluent", "n"), "end"), (("action", "a2"), "duration")),
    ((("object", "o1"), "é"), (("fluent", "p"), "_a"), (("type", "S"), "1a")),
    ((("object", "o1"), "o_1a"), (("object", "o2"), "1a"), (("fluent", "b"), "f_1a")),
    ((("fluent", "p"), "a-b"), (("object", "s1"), "a b")),
]
I_SLOTS = list(uprob.BASE_SLOTS)
# conditional effects whose condition is (headed by) a quantifier: `when (exists(T v) {...})`
#   and a real constant with a finite decimal expansion that is not a binary fraction (m += 1/10)
QUICK_EXTRA = [(("a1.eff2", 31),), (("a1.eff2", 32),), (("a2.eff1", 31),), (("a1.eff2", 33),), (("a2.eff2", 33),)]
Q2_SLOTS = ["a1.pre1", "a1.eff1", "a1.eff2", "a2.eff1", "goal", "init", "undef"]


def _depth(tier):
    return 2 if tier == "quick" else 3


def _plan(tier):
    # (kind, level, core_only, slots)
    if tier == "quick":
        # ~0.4-1.5 s per round trip (pyparsing): deviation level 1 is what fits the quick budget
        return [("inst", 0, False, None), ("temp", 0, False, None), ("inst", 1, True, None), ("temp", 1, False, None)]
    return [("inst", 0, False, None), ("temp", 0, False, None), ("inst", 1, True, None), ("temp", 1, False, None),
            ("inst", 1, False, None),
            ("temp", 2, True, None), ("inst", 2, True, Q2_SLOTS), ("temp", 2, False, None)]


def bounds(tier):
    return {"plan": [list(map(str, x)) for x in _plan(tier)], "depth": _depth(tier),
            "namings": [naming.label(a) for a in NAMINGS]}


def _instances(kind, level, core, slots):
    if kind == "inst":
        return pf.instances(level, slots=slots or I_SLOTS, core_only=core, keep_bounds=True, keep_r=True)
    return pf.t_instances(level, core_only=core, anml=True, keep_bounds=True, keep_r=True)


def shards(tier, seed):
    ids = []
    seen = set()
    for kind, level, core, slots in _plan(tier):
        for cid, _ps in _instances(kind, level, core, slots):
            if (kind, cid) in seen:
                continue
            seen.add((kind, cid))
            ids.append((level, (kind, cid, 0)))
        if level == 0:
            for ni in range(1, len(NAMINGS)):
                ids.append((level, (kind, (), ni)))
    for cid in QUICK_EXTRA:  # non-core alternatives the quick tier must not skip
        if ("inst", cid) not in seen:
            seen.add(("inst", cid))
            ids.append((1, ("inst", cid, 0)))
    return su.chunk_cases(ids, seed, per_level_chunks={0: 16, 1: 96, 2: 640})


def run_shard(shard, tier, seed):
    acc = Acc()
    depth = _depth(tier)
    for kind, cid, ni in shard["cids"]:
        cid = tuple((s, i) for s, i in cid)
        io.run_minimised((kind, cid, ni), lambda k, a: check_case(k[0], k[1], k[2], depth, a), _smaller, acc)
    return acc


def _smaller(key):
    kind, cid, ni = key
    for j in range(len(cid)):
        yield (kind, cid[:j] + cid[j + 1:], ni)
    if ni:
        yield (kind, cid, 0)


def replay(case):
    acc = Acc()
    check_case(case["kind"], tuple((s, i) for s, i in case["cid"]), case["naming"], case.get("depth", 2), acc)
    return [(fp, e["cases"][0]["what"]) for fp, e in acc.viol.items()]


finalize = su.prune_supersets


def make(kind, cid):
    if kind == "inst":
        return pf.make(dict(cid), keep_bounds=True, keep_r=True)
    return pf.t_make(dict(cid), keep_bounds=True, keep_r=True)


def check_case(kind, cid, ni, depth, acc):
    base = make(kind, cid)
    if base is None:
        return
    if base.get("metric") is not None or base.get("traj"):
        return
    assign = NAMINGS[ni]
    ps = naming.rename_spec(base, assign) if assign else base
    lab = "%s%s%s" % ("T:" if kind == "temp" else "", pf.label(cid), ("," + naming.label(assign)) if assign else "")
    case = {"kind": kind, "cid": tj(cid), "naming": ni, "depth": depth}

    def viol(sub, what, extra=None):
        c = dict(case)
        if extra:
            c.update(extra)
        acc.violation("%s|%s" % (sub, lab), what, c)

    try:
        b = io.build(ps, acc)
    except Exception as e:
        acc.count("skipped_up_rejects_model")
        acc.outcome("build-rejected:" + io.exc_name(e))
        return
    if b is None:
        return
    prob, _ctx = b
    acc.count("problems")
    from unified_planning.io import ANMLReader, ANMLWriter
    import unified_planning.exceptions as ux
    import pyparsing

    try:
        w = ANMLWriter(prob)
        text = w.get_problem()
    except Exception as e:
        if io.is_documented_writer_rejection(e):
            acc.count("skipped_writer_rejects")
            acc.outcome("writer-rejects:" + io.exc_name(e))
            return
        viol("write:raises:" + io.exc_name(e), "ANMLWriter raised %s: %s" % (io.exc_name(e), e))
        return
    mapping = getattr(w, "_verif_names_mapping", None)
    if mapping is None:
        from mc.kernel.runner import HarnessError

        raise HarnessError("hook H1 missing: UP_VERIF=1 not set or ANMLWriter not hooked")
    ren = io.anml_renaming(mapping, prob)
    env = fresh_env()
    try:
        reread = ANMLReader(env).parse_problem_string(text, "reread")
    except (ux.ANMLSyntaxError, ux.UPUnsupportedProblemTypeError) as e:
        acc.count("outside_reader_fragment")
        acc.outcome("reader-documented:" + io.exc_name(e) + ":" + str(e)[:60])
        return
    except pyparsing.ParseBaseException as e:
        acc.outcome("reader-parse-error")
        viol("read:rejects:parse", "ANMLReader cannot parse the text ANMLWriter produced: %s" % (str(e)[:200],))
        return
    except Exception as e:
        acc.outcome("reader-crash:" + io.exc_name(e))
        viol("read:crash:" + io.exc_name(e), "ANMLReader raised %s: %s on text written by ANMLWriter" % (io.exc_name(e), str(e)[:200]))
        return
    try:
        spec_b = gp.problem_to_spec(reread)
    except Exception as e:
        viol("read:malformed:" + io.exc_name(e), "re-read problem cannot be inspected: %s" % (e,))
        return
    acc.count("roundtrips")
    try:
        res = bisim.compare(ps, spec_b, ren, depth=depth, plan_k=0, check_metric=False)
    except Exception as e:  # the re-read problem contains something the spec language cannot express
        viol("not-comparable:" + io.exc_name(e), "re-read problem cannot be interpreted by the reference: %s" % (e,))
        return
    for k in ("states", "transitions", "nontrivial", "traces"):
        acc.count(k, res.c[k])
    for k, v in res.outcomes.items():
        acc.outcome(k, v)
    for sub, what, wit in res.diffs:
        viol(sub, what, {"witness": wit})
    if not any(s in ("objects", "fluents", "init") for s, _w, _x in res.diffs):
        if ps.get("dactions") or ps.get("teffs") or ps.get("tgoals") or spec_b.get("dactions") or spec_b.get("teffs") or spec_b.get("tgoals"):
            try:
                tdiffs, n_eval = io.temporal_compare(ps, spec_b, ren, res.pairs)
            except Exception as e:
                viol("not-comparable:" + io.exc_name(e), "temporal part of the re-read problem cannot be interpreted by the reference: %s" % (e,))
                return
            acc.count("temporal_evaluations", n_eval)
            for sub, what, wit in tdiffs:
                viol(sub, what, {"witness": wit})
    acc.sample({"case": lab, "anml_chars": len(text)})
