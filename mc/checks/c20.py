"""C20 - protobuf round trip is lossless (DESIGN 4/C20).

Oracle:  reader.convert(parse(serialize(writer.convert(x))), ...) == x   (and equal `kind` for
problems); writer-accepted => reader must not raise.  The message goes through the wire format
(SerializeToString / ParseFromString) because that is what the gRPC interface does.

Families (all enumerated completely; see RULE):
  uprob / utemp   slot-grammar problems
  types           numeric type sweep: {int, real} x 4 bound combinations x {small, huge, negative,
                  rational} in every type position (fluent value, fluent parameter, action parameter,
                  durative-action parameter, task / method parameter, task-network variable,
                  scheduling variable, activity parameter)
  consts          constants sweep in every constant position
  timings         every timepoint kind x delay in every timing / interval position, 4 openness forms
  plans           SequentialPlan / TimeTriggeredPlan / PartialOrderPlan up to 2 steps
  results         CompilerResults of grounder (+ a second compiler on the grounded problem),
                  ValidationResults (real ones of the sequential validator + field sweep)
  corpus          example problems and plans; hierarchical + scheduling examples with additive
                  one-slot numeric-type mutations
"""
from __future__ import annotations

import json
import traceback
from collections import OrderedDict
from fractions import Fraction
from itertools import product

import unified_planning as up
from unified_planning.model.timing import (
    Timing,
    Timepoint,
    TimepointKind,
    TimeInterval,
    DurationInterval,
    StartTiming,
    EndTiming,
    GlobalStartTiming,
    GlobalEndTiming,
)

from mc.kernel.runner import Acc
from mc.gen import uprob, tempfam
from mc.gen import problem as gp
from mc.gen.spec import tj, fresh_env
from mc.checks import simutil as su

PROPERTY = "C20"
LEVEL = "exploration"
RULE = (
    "every U-PROB problem (15 slots) and U-TEMP-lite problem (12 slots, no continuous effects) with <= d "
    "deviating slots; numeric type sweep (2 kinds x 4 bound combinations x 5 magnitudes incl. a zero bound x 9 positions); "
    "constants sweep (15 constants x 10 positions); timing sweep (4 timepoint kinds x 5 delays x positions, "
    "4 openness forms of time and duration intervals); all sequential plans <= 2 steps over 13 ground "
    "actions, all time-triggered plans <= 2 steps over a start/duration grid, partial-order plans <= 2 "
    "nodes; reader histories (one reader: a problem, then every one-step plan of the same or of a twin problem "
    "whose equally named objects have other types); CompilerResults of up_grounder (and of a second compiler run on the grounded problem) for all "
    "U-PROB problems with <= 1 deviation; ValidationResults of the sequential validator for all plans <= 2 "
    "steps plus a field sweep; the example corpus (problems and plans) and additive numeric-type mutations "
    "of its hierarchical and scheduling problems. One evaluation = one object pushed through writer, wire "
    "format and reader; non-trivial = the writer accepted it and the object is not the family's base object"
)
ASSUMPTIONS = [
    "objects the writer rejects (raises) are outside the property and only counted",
    "continuous effects, processes/events and interpreted functions are not representable in the schema "
    "(the library's own round-trip test excludes them) and are excluded",
    "ValidationResult: only the fields the schema has (status, engine_name, log_messages, metrics) are compared; "
    "CompilerResult: problem, map_back on every ground instance, engine_name, log_messages, metrics; only "
    "compiled problems whose actions are parameterless (the schema maps action NAME -> original instance)",
    "empty metrics dict / None log_messages / the class of an EMPTY plan are not distinguishable in the proto3 "
    "schema and are not enumerated",
]


def _rw():
    from unified_planning.grpc.proto_reader import ProtobufReader
    from unified_planning.grpc.proto_writer import ProtobufWriter

    return ProtobufReader(), ProtobufWriter()


def wire(msg):
    m2 = type(msg)()
    m2.ParseFromString(msg.SerializeToString())
    return m2


def _where(exc):
    """innermost frame inside the grpc package (root-cause hint for the fingerprint)"""
    tb = traceback.extract_tb(exc.__traceback__)
    for fr in reversed(tb):
        if "/grpc/" in fr.filename:
            return "%s" % fr.name
    return tb[-1].name if tb else "?"


# ------------------------------------------------------------------ structural diff
def _action_diff(a, b):
    if type(a) is not type(b):
        return "class"
    if [(p.name, str(p.type)) for p in a.parameters] != [(p.name, str(p.type)) for p in b.parameters]:
        return "parameters"
    if isinstance(a, up.model.InstantaneousAction):
        if a.preconditions != b.preconditions:
            return "preconditions"
        if a.effects != b.effects:
            return "effects"
    else:
        if a.duration != b.duration:
            da, db = a.duration, b.duration
            if (da.is_left_open(), da.is_right_open()) != (db.is_left_open(), db.is_right_open()):
                return "duration.openness"
            return "duration.bounds"
        if a.conditions != b.conditions:
            ka, kb = set(a.conditions), set(b.conditions)
            if ka != kb:
                if {(k.lower, k.upper) for k in ka} == {(k.lower, k.upper) for k in kb}:
                    return "conditions.interval-openness"
                return "conditions.interval"
            return "conditions.expr"
        if a.effects != b.effects:
            if set(a.effects) != set(b.effects):
                return "effects.timing"
            return "effects.effect"
    return "other"


def problem_diff(a, b):
    """name of the first component on which two problems differ (None if no component differs)"""
    if type(a) is not type(b):
        return "class"
    if a.name != b.name:
        return "name"
    try:
        if set(a.user_types) != set(b.user_types):
            return "user_types"
        if set(a.all_objects) != set(b.all_objects):
            return "objects"
        fa = {f.name: f for f in a.fluents}
        fb = {f.name: f for f in b.fluents}
        if set(fa) != set(fb):
            return "fluents.names"
        for n_, f in fa.items():
            if str(f.type) != str(fb[n_].type):
                return "fluents.type"
            if [(p.name, str(p.type)) for p in f.signature] != [(p.name, str(p.type)) for p in fb[n_].signature]:
                return "fluents.signature"
        if {k.name: v for k, v in a.fluents_defaults.items()} != {k.name: v for k, v in b.fluents_defaults.items()}:
            return "fluents.defaults"
        if hasattr(a, "actions"):
            aa = {x.name: x for x in a.actions}
            ab = {x.name: x for x in b.actions}
            if set(aa) != set(ab):
                return "actions.names"
            for n_, x in aa.items():
                if x != ab[n_]:
                    return "action." + _action_diff(x, ab[n_])
            if a.timed_effects != b.timed_effects:
                if set(a.timed_effects) != set(b.timed_effects):
                    return "timed_effects.timing"
                return "timed_effects.effect"
            if a.timed_goals != b.timed_goals:
                ka, kb = set(a.timed_goals), set(b.timed_goals)
                if ka != kb:
                    if {(k.lower, k.upper) for k in ka} == {(k.lower, k.upper) for k in kb}:
                        return "timed_goals.interval-openness"
                    return "timed_goals.interval"
                return "timed_goals.expr"
            if set(a.goals) != set(b.goals):
                return "goals"
            if set(a.trajectory_constraints) != set(b.trajectory_constraints):
                return "trajectory_constraints"
        if a.quality_metrics != b.quality_metrics:
            return "metrics:" + ",".join(sorted({type(m).__name__ for m in a.quality_metrics}))
        if (a.epsilon, a.discrete_time, a.self_overlapping) != (b.epsilon, b.discrete_time, b.self_overlapping):
            return "time-model"
        if isinstance(a, up.model.htn.HierarchicalProblem):
            if {t.name: t for t in a.tasks} != {t.name: t for t in b.tasks}:
                return "htn.tasks"
            if {m.name: m for m in a.methods} != {m.name: m for m in b.methods}:
                return "htn.methods"
            if a.task_network != b.task_network:
                return "htn.task_network"
        if isinstance(a, up.model.scheduling.SchedulingProblem):
            if [(v.name, str(v.type)) for v in a.base_variables] != [(v.name, str(v.type)) for v in b.base_variables]:
                return "sched.variables"
            if {x.name: x for x in a.activities} != {x.name: x for x in b.activities}:
                return "sched.activities"
            if a.base_conditions != b.base_conditions:
                return "sched.base_conditions"
            if a.base_effects != b.base_effects:
                return "sched.base_effects"
            if a.base_scoped_constraints != b.base_scoped_constraints:
                return "sched.base_constraints"
        if a.explicit_initial_values != b.explicit_initial_values:
            return "initial_values"
    except Exception as e:  # diffing is best effort; the verdict does not depend on it
        return "diff-error:" + type(e).__name__
    return "unlocated"


# ------------------------------------------------------------------ judges
def judge_problem(acc, pb, family, label, case, level, base=False):
    acc.count("evaluations")
    R, W = _rw()

    def viol(sub, what):
        acc.violation("%s|%s:%s" % (sub, family, label), what, dict(case, _level=level))

    try:
        msg = wire(W.convert(pb))
    except Exception as e:
        acc.count("writer_rejected")
        acc.outcome("writer-rejected:%s@%s" % (type(e).__name__, _where(e)))
        return None
    if not base:
        acc.count("nontrivial")
    try:
        back = R.convert(msg, pb.environment)
    except Exception as e:
        viol(
            "reader-raises:%s@%s" % (type(e).__name__, _where(e)),
            "writer accepted the problem but the reader raised %s: %s" % (type(e).__name__, str(e)[:200]),
        )
        acc.outcome("reader-raises")
        return None
    try:
        same = back == pb
    except Exception as e:
        viol("eq-raises:%s" % type(e).__name__, "comparing the read problem raised %r" % (e,))
        return None
    if not same:
        d = problem_diff(pb, back)
        viol("not-equal:problem.%s" % d, "problem read back differs from the original in %s" % d)
        acc.outcome("not-equal")
        return back
    try:
        k1, k2 = pb.kind, back.kind
        if k1 != k2:
            viol(
                "kind-differs",
                "kind differs after round trip: only original %s, only read %s"
                % (sorted(k1.features - k2.features), sorted(k2.features - k1.features)),
            )
            return back
    except Exception as e:
        viol("kind-raises:%s" % type(e).__name__, "kind raised after round trip: %r" % (e,))
        return back
    acc.outcome("equal")
    return back


def judge_plan(acc, plan, pb, family, label, case, level, rw=None):
    acc.count("evaluations")
    R, W = rw or _rw()

    def viol(sub, what):
        acc.violation("%s|%s:%s" % (sub, family, label), what, dict(case, _level=level))

    try:
        msg = wire(W.convert(plan))
    except Exception as e:
        acc.count("writer_rejected")
        acc.outcome("writer-rejected:%s:%s@%s" % (type(plan).__name__, type(e).__name__, _where(e)))
        return
    steps = getattr(plan, "timed_actions", None) or getattr(plan, "actions", None)
    if callable(steps) or steps is None or len(steps) > 0:
        acc.count("nontrivial")
    try:
        back = R.convert(msg, pb)
    except Exception as e:
        viol(
            "reader-raises:%s@%s:%s" % (type(e).__name__, _where(e), type(plan).__name__),
            "writer accepted the plan but the reader raised %s: %s" % (type(e).__name__, str(e)[:200]),
        )
        return
    if type(back) is not type(plan):
        viol("not-equal:plan.class:%s->%s" % (type(plan).__name__, type(back).__name__), "plan %s read back as %s" % (plan, back))
        return
    if not (back == plan):
        viol("not-equal:plan:%s" % type(plan).__name__, "plan %s read back as %s" % (plan, back))
        return
    acc.outcome("equal-plan:" + type(plan).__name__)


# ------------------------------------------------------------------ family: grammars
UTEMP_SLOTS = [s for s in tempfam.SLOT_NAMES if s != "d1.ceff"]


def _label(cid):
    return ",".join("%s#%d" % (s, i) for s, i in cid) or "base"


def run_grammar(acc, fam, cid, level):
    ps = (uprob if fam == "uprob" else tempfam).make(dict(cid))
    try:
        pb, _ctx = gp.build_problem(ps) if fam == "uprob" else tempfam.build(ps)
    except Exception as e:
        from unified_planning.exceptions import UPException

        if not isinstance(e, UPException):
            raise
        acc.count("skipped_rejected_at_build")
        return
    judge_problem(acc, pb, fam, _label(cid), {"family": fam, "cid": tj(cid)}, level, base=(level == 0))
    if level == 1:
        acc.sample({"family": fam, "cid": tj(cid)}, limit=1)


# ------------------------------------------------------------------ family: types
KINDS = ["int", "real"]
BOUNDS = ["none", "lower", "upper", "both"]
MAGS = ["small", "huge", "negative", "rational", "upto-zero"]
TYPE_POS = [
    "fluent", "fluent-parameter", "action-parameter", "durative-action-parameter", "task-parameter",
    "method-parameter", "task-network-variable", "sched-variable", "activity-parameter",
]


def num_type(tm, kind, bounds, mag):
    lo, hi = {
        "small": (0, 5),
        "huge": (2**53 + 1, 10**30),
        "negative": (-7, -2),
        "rational": (Fraction(-1, 3), Fraction(10**20 + 1, 3)),
        "upto-zero": (-3, 0),  # a bound that is exactly zero (falsy)
    }[mag]
    if kind == "int":
        if mag == "rational":
            return None
        lo, hi = int(lo), int(hi)
    else:
        lo, hi = Fraction(lo), Fraction(hi)
    if bounds in ("none", "upper"):
        lo = None
    if bounds in ("none", "lower"):
        hi = None
    return tm.IntType(lo, hi) if kind == "int" else tm.RealType(lo, hi)


def _mini(cls="plain"):
    """tiny base problem of each class: T, o1, b, action a(x:T): b := true"""
    env = fresh_env()
    tm = env.type_manager
    T = tm.UserType("T")
    if cls == "htn":
        pb = up.model.htn.HierarchicalProblem("mini", env)
    elif cls == "sched":
        pb = up.model.scheduling.SchedulingProblem("mini", env)
    else:
        pb = up.model.Problem("mini", env)
    b = up.model.Fluent("b", tm.BoolType(), None, env)
    pb.add_fluent(b, default_initial_value=False)
    pb.add_object(up.model.Object("o1", T, env))
    a = None
    if cls != "sched":
        a = up.model.InstantaneousAction("a", OrderedDict(x=T), env)
        a.add_effect(b, True)
        pb.add_action(a)
        pb.add_goal(b)
    return env, pb, T, b, a


def build_type_case(kind, bounds, mag, pos):
    cls = {"task-parameter": "htn", "method-parameter": "htn", "task-network-variable": "htn", "sched-variable": "sched", "activity-parameter": "sched"}.get(pos, "plain")
    env, pb, T, b, a = _mini(cls)
    t = num_type(env.type_manager, kind, bounds, mag)
    if t is None:
        return None
    if pos == "fluent":
        f = up.model.Fluent("f", t, None, env)
        pb.add_fluent(f)
    elif pos == "fluent-parameter":
        f = up.model.Fluent("f", env.type_manager.BoolType(), OrderedDict(k=t), env)
        pb.add_fluent(f, default_initial_value=False)
    elif pos == "action-parameter":
        a2 = up.model.InstantaneousAction("a2", OrderedDict(x=T, k=t), env)
        a2.add_effect(b, False)
        pb.add_action(a2)
    elif pos == "durative-action-parameter":
        d = up.model.DurativeAction("d", OrderedDict(k=t), env)
        d.set_fixed_duration(1)
        d.add_effect(EndTiming(), b, True)
        pb.add_action(d)
    elif pos == "task-parameter":
        pb.add_task("tk", k=t)
    elif pos == "method-parameter":
        task = pb.add_task("tk", x=T)
        m = up.model.htn.Method("m", OrderedDict(x=T, k=t), env)
        m.set_task(task, m.parameter("x"))
        m.add_subtask(a, m.parameter("x"))
        pb.add_method(m)
    elif pos == "task-network-variable":
        pb.task_network.add_variable("tv", t)
    elif pos == "sched-variable":
        pb.add_variable("sv", t)
    elif pos == "activity-parameter":
        act = pb.add_activity("act", duration=2)
        act.add_parameter("k", t)
    return pb


def type_cases():
    out = []
    for pos in TYPE_POS:
        for k in KINDS:
            for bd in BOUNDS:
                for mg in MAGS:
                    if k == "int" and mg == "rational":
                        continue
                    # a fluent parameter must have a finite, enumerable domain (Problem.__eq__ grounds all fluents)
                    if pos == "fluent-parameter" and not (k == "int" and bd == "both" and mg in ("small", "negative", "upto-zero")):
                        continue
                    out.append((k, bd, mg, pos))
    return out


def run_type(acc, c):
    k, bd, mg, pos = c
    try:
        pb = build_type_case(*c)
    except Exception as e:
        acc.count("skipped_rejected_at_build")
        acc.outcome("build-rejected:%s:%s" % (pos, type(e).__name__))
        return
    if pb is None:
        return
    # the label orders the inputs: unbounded < both bounds < one bound, small first
    judge_problem(acc, pb, "types", "%s/%s/%s/%s" % (pos, k, bd, mg), {"family": "types", "case": list(c)}, 1 + MAGS.index(mg))
    acc.sample({"family": "types", "case": list(c)}, limit=1)


# ------------------------------------------------------------------ family: constants
class RealLit(Fraction):
    """an explicit Real(...) constant whose value is integral (must stay a real constant)"""


CONSTS = [
    0, 1, -1, 7, 2**31, 2**53 + 1, 2**63 - 1, -(2**63), 2**64, 10**30,
    Fraction(1, 2), Fraction(-3, 2), Fraction(10**18 + 1, 3), Fraction(1, 10**18), Fraction(-(2**70), 7),
    RealLit(6), RealLit(-4), RealLit(0),
]
REALLIT_POS = ("default-value", "initial-value", "effect-value", "increase-value", "condition", "goal")
CONST_POS = [
    "default-value", "initial-value", "effect-value", "increase-value", "condition", "goal", "duration", "timing-delay",
    "timed-effect-delay", "timed-goal-delay", "action-cost", "oversubscription-weight", "temporal-oversubscription-weight",
    "epsilon", "plan-parameter", "ttp-start", "ttp-duration",
]


def build_const_case(ci, pos):
    """-> (problem, plan|None)"""
    v = CONSTS[ci]
    env, pb, T, b, a = _mini()
    tm, em = env.type_manager, env.expression_manager
    isint = isinstance(v, int)
    nt = tm.IntType() if isint else tm.RealType()
    f = up.model.Fluent("f", nt, None, env)
    plan = None
    o1 = pb.object("o1")
    vx = v
    if isinstance(v, RealLit):
        if pos not in REALLIT_POS:
            return None, None
        vx = em.Real(Fraction(v))
    if pos == "default-value":
        pb.add_fluent(f, default_initial_value=vx)
        return pb, None
    pb.add_fluent(f, default_initial_value=0)
    if pos == "initial-value":
        pb.set_initial_value(f, vx)
    elif pos == "effect-value":
        a.add_effect(f, vx)
    elif pos == "increase-value":
        a.add_increase_effect(f, vx)
    elif pos == "condition":
        a.add_precondition(em.LE(f, vx))
    elif pos == "goal":
        pb.add_goal(em.Equals(em.Plus(f, vx), 3))
    elif pos in ("duration", "timing-delay", "ttp-start", "ttp-duration"):
        d = up.model.DurativeAction("d", OrderedDict(), env)
        if pos == "duration":
            if v <= 0:
                return None, None
            d.set_closed_duration_interval(v, em.Plus(em.Real(Fraction(v)) if not isint else em.Int(v), 1))
        else:
            d.set_fixed_duration(5)
        if pos == "timing-delay":
            d.add_effect(Timing(v, Timepoint(TimepointKind.END if v < 0 else TimepointKind.START)), b, True)
        else:
            d.add_effect(EndTiming(), b, True)
        pb.add_action(d)
        if pos == "ttp-start":
            if v < 0:
                return None, None
            plan = up.plans.TimeTriggeredPlan([(Fraction(v), up.plans.ActionInstance(d), Fraction(5))], env)
        elif pos == "ttp-duration":
            if v <= 0:
                return None, None
            plan = up.plans.TimeTriggeredPlan([(Fraction(1), up.plans.ActionInstance(d), Fraction(v))], env)
    elif pos == "timed-effect-delay":
        if v < 0:
            return None, None
        pb.add_timed_effect(GlobalStartTiming(v), b, True)
    elif pos == "timed-goal-delay":
        if v < 0:
            return None, None
        pb.add_timed_goal(GlobalStartTiming(v), b)
    elif pos == "action-cost":
        pb.add_quality_metric(up.model.metrics.MinimizeActionCosts({a: em.Int(v) if isint else em.Real(v)}, None, env))
    elif pos == "oversubscription-weight":
        pb.add_quality_metric(up.model.metrics.Oversubscription({em.FluentExp(b): v}, env))
    elif pos == "temporal-oversubscription-weight":
        iv = TimeInterval(GlobalStartTiming(1), GlobalStartTiming(2))
        pb.add_quality_metric(up.model.metrics.TemporalOversubscription({(iv, em.FluentExp(b)): v}, env))
    elif pos == "epsilon":
        if v <= 0:
            return None, None
        pb.epsilon = Fraction(v)
    elif pos == "plan-parameter":
        a3 = up.model.InstantaneousAction("a3", OrderedDict(k=nt), env)
        a3.add_effect(b, True)
        pb.add_action(a3)
        plan = up.plans.SequentialPlan([up.plans.ActionInstance(a3, (em.Int(v) if isint else em.Real(v),))], env)
    return pb, plan


def const_cases():
    return [(ci, pos) for pos in CONST_POS for ci in range(len(CONSTS))]


def run_const(acc, c):
    ci, pos = c
    try:
        pb, plan = build_const_case(ci, pos)
    except Exception as e:
        acc.count("skipped_rejected_at_build")
        acc.outcome("build-rejected:%s:%s" % (pos, type(e).__name__))
        return
    if pb is None:
        return
    label = "%s/%s" % (pos, CONSTS[ci])
    case = {"family": "consts", "case": list(c)}
    judge_problem(acc, pb, "consts", label, case, 1 + ci)
    if plan is not None:
        judge_plan(acc, plan, pb, "consts", label, case, 1 + ci)
    acc.sample(case, limit=1)


# ------------------------------------------------------------------ family: timings / intervals
TKINDS = ["start", "end", "gstart", "gend"]
DELAYS = [0, 1, -1, Fraction(1, 2), Fraction(-3, 2)]
OPEN = [(False, False), (True, False), (False, True), (True, True)]
TIMING_POS = [
    "durative-effect", "durative-condition-lower", "durative-condition-upper", "durative-condition-point",
    "timed-effect", "timed-goal-lower", "timed-goal-upper", "timed-goal-point", "temporal-oversubscription",
    "sched-activity-condition", "sched-activity-effect", "sched-base-condition", "sched-base-effect", "timing-expression",
]
_TK = {"start": TimepointKind.START, "end": TimepointKind.END, "gstart": TimepointKind.GLOBAL_START, "gend": TimepointKind.GLOBAL_END}


def build_timing_case(pos, tk, di, oi):
    d = DELAYS[di]
    lop, rop = OPEN[oi]
    sched = pos.startswith("sched")
    env, pb, T, b, a = _mini("sched" if sched else "plain")
    em = env.expression_manager
    container = None
    act = None
    if sched:
        act = pb.add_activity("act", duration=4)
        other = pb.add_activity("oth", duration=2)
        container = "oth" if tk in ("start", "end") else None
    t = Timing(d, Timepoint(_TK[tk], container))
    point = pos.endswith("point") or pos in ("durative-effect", "timed-effect", "sched-activity-effect", "sched-base-effect", "timing-expression")
    if point and oi != 0:
        return None
    fe = em.FluentExp(b)
    if pos.startswith("durative"):
        da = up.model.DurativeAction("d", OrderedDict(), env)
        da.set_fixed_duration(4)
        da.add_effect(EndTiming(), b, True)
        if pos == "durative-effect":
            b2 = up.model.Fluent("b2", env.type_manager.BoolType(), None, env)
            pb.add_fluent(b2, default_initial_value=False)
            da.add_effect(t, b2, True)
        elif pos == "durative-condition-lower":
            da.add_condition(TimeInterval(t, EndTiming() + 3, lop, rop), fe)
        elif pos == "durative-condition-upper":
            da.add_condition(TimeInterval(StartTiming() - 3, t, lop, rop), fe)
        else:
            da.add_condition(t, fe)
        pb.add_action(da)
    elif pos == "timed-effect":
        pb.add_timed_effect(t, b, True)
    elif pos == "timed-goal-lower":
        pb.add_timed_goal(TimeInterval(t, GlobalEndTiming(), lop, rop), fe)
    elif pos == "timed-goal-upper":
        pb.add_timed_goal(TimeInterval(GlobalStartTiming(), t, lop, rop), fe)
    elif pos == "timed-goal-point":
        pb.add_timed_goal(t, fe)
    elif pos == "temporal-oversubscription":
        iv = TimeInterval(t, GlobalEndTiming(), lop, rop)
        pb.add_quality_metric(up.model.metrics.TemporalOversubscription({(iv, fe): 2}, env))
    elif pos == "sched-activity-condition":
        act.add_condition(TimeInterval(t, Timing(9, Timepoint(TimepointKind.END, "act")), lop, rop), fe)
    elif pos == "sched-activity-effect":
        act.add_effect(t, b, True)
    elif pos == "sched-base-condition":
        pb.add_condition(TimeInterval(t, GlobalEndTiming(), lop, rop), fe)
    elif pos == "sched-base-effect":
        pb.add_effect(t, b, True)
    elif pos == "timing-expression":
        # a timing inside an expression (scheduling constraints compare timepoints)
        env, pb, T, b, a = _mini("sched")
        act = pb.add_activity("act", duration=4)
        cont = "act" if tk in ("start", "end") else None
        t = Timing(d, Timepoint(_TK[tk], cont))
        pb.add_constraint(env.expression_manager.LE(t, Timing(7, Timepoint(TimepointKind.GLOBAL_START))))
    return pb


def timing_cases():
    return [(pos, tk, di, oi) for pos in TIMING_POS for tk in TKINDS for di in range(len(DELAYS)) for oi in range(4)]


DUR_FORMS = [(lo, hi, lop, rop) for (lo, hi) in ((2, 2), (1, 3), (Fraction(1, 2), Fraction(7, 2))) for lop, rop in OPEN]


def run_timing(acc, c):
    pos, tk, di, oi = c
    try:
        pb = build_timing_case(*c)
    except Exception as e:
        acc.count("skipped_rejected_at_build")
        acc.outcome("build-rejected:%s:%s" % (pos, type(e).__name__))
        return
    if pb is None:
        return
    label = "%s/%s%+s/%s" % (pos, tk, DELAYS[di], "[(".__getitem__(OPEN[oi][0]) + "])".__getitem__(OPEN[oi][1]))
    judge_problem(acc, pb, "timings", label, {"family": "timings", "case": list(c)}, 1 + (di > 0) + (oi > 0))
    acc.sample({"family": "timings", "case": list(c)}, limit=1)


def run_durations(acc):
    for i, (lo, hi, lop, rop) in enumerate(DUR_FORMS):
        for holder in ("durative-action", "activity"):
            env, pb, T, b, a = _mini("sched" if holder == "activity" else "plain")
            if lo == hi and (lop or rop):
                continue
            if holder == "durative-action":
                d = up.model.DurativeAction("d", OrderedDict(), env)
                em = env.expression_manager
                d.set_duration_constraint(DurationInterval(em.auto_promote(lo)[0], em.auto_promote(hi)[0], lop, rop))
                d.add_effect(EndTiming(), b, True)
                pb.add_action(d)
            else:
                act = pb.add_activity("act")
                em = env.expression_manager
                act._set_duration_constraint(DurationInterval(em.auto_promote(lo)[0], em.auto_promote(hi)[0], lop, rop)) if (lop or rop) else act.set_duration_bounds(lo, hi)
            label = "duration/%s/%s%s,%s%s" % (holder, "(" if lop else "[", lo, hi, ")" if rop else "]")
            judge_problem(acc, pb, "timings", label, {"family": "durations", "case": [i, holder]}, 1 + (lop or rop))


# ------------------------------------------------------------------ family: structure sweeps
def _htn_world():
    env, pb, T, b, a = _mini("htn")
    em = env.expression_manager
    o2 = up.model.Object("o2", T, env)
    pb.add_object(o2)
    tk = pb.add_task("tk", x=T)
    m = up.model.htn.Method("m", OrderedDict(x=T, y=T), env)
    m.set_task(tk, m.parameter("x"))
    s1 = m.add_subtask(a, m.parameter("x"), ident="s1")
    s2 = m.add_subtask(a, m.parameter("y"), ident="s2")
    pb.add_method(m)
    r1 = pb.task_network.add_subtask(tk, pb.object("o1"), ident="r1")
    r2 = pb.task_network.add_subtask(tk, o2, ident="r2")
    return env, pb, T, b, a, tk, m, (s1, s2), (r1, r2)


def _htn_items():
    def ordered(w):
        w[6].set_ordered(*w[7])

    def strictly_before(w):
        w[6].set_strictly_before(w[7][0], w[7][1])

    def root_ordered(w):
        w[1].task_network.set_ordered(*w[8])

    def temporal(w):
        em = w[0].expression_manager
        w[6].add_constraint(em.LE(em.Plus(w[7][0].end, 2), w[7][1].start))

    def temporal_root(w):
        em = w[0].expression_manager
        w[1].task_network.add_constraint(em.LT(w[8][0].start, em.Plus(w[8][1].end, Fraction(1, 2))))

    def precondition(w):
        w[6].add_precondition(w[0].expression_manager.Not(w[3]))

    def constraint(w):
        em = w[0].expression_manager
        w[6].add_constraint(em.Not(em.Equals(w[6].parameter("x"), w[6].parameter("y"))))

    def tn_variable(w):
        v = w[1].task_network.add_variable("tv", w[2])
        w[1].task_network.add_subtask(w[5], v, ident="r3")

    def tn_constraint(w):
        em = w[0].expression_manager
        v = w[1].task_network.add_variable("tv", w[2])
        w[1].task_network.add_subtask(w[5], v, ident="r3")
        w[1].task_network.add_constraint(em.Or(em.Equals(v, w[1].object("o1")), em.Equals(v, w[1].object("o2"))))

    def auto_ident(w):
        w[1].task_network.add_subtask(w[5], w[1].object("o1"))

    def subtask_of_task(w):
        w[6].add_subtask(w[5], w[6].parameter("y"), ident="s3")

    def second_method(w):
        m2 = up.model.htn.Method("m2", OrderedDict(z=w[2]), w[0])
        m2.set_task(w[5], m2.parameter("z"))
        w[1].add_method(m2)

    def durative_subtask(w):
        d = up.model.DurativeAction("d", OrderedDict(x=w[2]), w[0])
        d.set_closed_duration_interval(1, 3)
        d.add_effect(EndTiming(), w[3], False)
        w[1].add_action(d)
        w[6].add_subtask(d, w[6].parameter("x"), ident="s3")

    def timed_goal(w):
        w[1].add_timed_goal(TimeInterval(GlobalStartTiming(1), GlobalEndTiming(), True, False), w[0].expression_manager.FluentExp(w[3]))

    def shadowed_parameter_name(w):
        # the LAST action declares x with a subtype; the method's x (supertype) is used in a
        # method precondition: a parameter expression outside any action body
        env, pb, T = w[0], w[1], w[2]
        S = env.type_manager.UserType("S", T)
        at = up.model.Fluent("at", env.type_manager.BoolType(), [up.model.Parameter("o", T, env)], env)
        pb.add_fluent(at, default_initial_value=True)
        last = up.model.InstantaneousAction("zlast", OrderedDict(x=S), env)
        last.add_effect(w[3], False)
        pb.add_action(last)
        w[6].add_precondition(env.expression_manager.FluentExp(at, (env.expression_manager.ParameterExp(w[6].parameter("x")),)))

    return OrderedDict((f.__name__, f) for f in (
        ordered, strictly_before, root_ordered, temporal, temporal_root, precondition, constraint, tn_variable,
        tn_constraint, auto_ident, subtask_of_task, second_method, durative_subtask, timed_goal,
        shadowed_parameter_name))


def _sched_items():
    def world():
        env, pb, T, b, a = _mini("sched")
        act = pb.add_activity("act", duration=3)
        oth = pb.add_activity("oth", duration=2, optional=True)
        return env, pb, T, b, act, oth

    def optional(w):
        pass

    def resource(w):
        r = w[1].add_resource("res", capacity=4)
        w[4].uses(r, 2)

    def release_deadline(w):
        w[4].add_release_date(2)
        w[4].add_deadline(Fraction(19, 2))

    def precedence(w):
        w[1].add_constraint(w[0].expression_manager.LE(w[4].end, w[5].start), scope=[w[5].present])

    def base_constraint(w):
        em = w[0].expression_manager
        w[1].add_constraint(em.LT(w[4].start, em.Plus(w[4].end, 1)))

    def presence_constraint(w):
        em = w[0].expression_manager
        w[1].add_constraint(em.Or(w[5].present, em.Not(w[4].present)))

    def variable_constraint(w):
        em = w[0].expression_manager
        v = w[1].add_variable("v", w[0].type_manager.IntType(0, 9))
        w[1].add_constraint(em.LE(v, 4))
        w[4].add_constraint(em.Equals(v, 3))

    def activity_parameter(w):
        k = w[4].add_parameter("k", w[0].type_manager.IntType(1, 2))
        w[4].set_duration_bounds(k, w[0].expression_manager.Plus(k, 1))

    def activity_condition(w):
        w[4].add_condition(TimeInterval(Timing(0, w[4].start), Timing(0, w[4].end), True, False), w[0].expression_manager.Not(w[3]))

    def activity_effects(w):
        w[4].add_effect(w[4].start, w[3], True)
        w[4].add_effect(Timing(-1, w[4].end), w[3], False)

    def activity_increase(w):
        f = up.model.Fluent("lvl", w[0].type_manager.IntType(0, 5), None, w[0])
        w[1].add_fluent(f, default_initial_value=1)
        w[4].add_increase_effect(w[4].end, f, 2)
        w[5].add_decrease_effect(w[5].start, f, 1)

    def base_effect(w):
        w[1].add_effect(GlobalStartTiming(5), w[3], True)

    def base_condition(w):
        w[1].add_condition(TimeInterval(GlobalStartTiming(1), GlobalStartTiming(2), False, True), w[0].expression_manager.FluentExp(w[3]))

    def makespan(w):
        w[1].add_quality_metric(up.model.metrics.MinimizeMakespan(w[0]))

    def user_type_parameter(w):
        w[4].add_parameter("who", w[2])

    fs = (optional, resource, release_deadline, precedence, base_constraint, presence_constraint, variable_constraint,
          activity_parameter, activity_condition, activity_effects, activity_increase, base_effect, base_condition,
          makespan, user_type_parameter)
    return world, OrderedDict((f.__name__, f) for f in fs)


EXPRS = None


def _exprs():
    """goal / precondition expressions exercising every operator and payload form"""
    from mc.gen.uprob import b, n, m, p, q, r, c, st, I, NOT, o1, o2, s1, vT, vS, VT, VS

    X = ("p", "x")
    return [
        ("iff", b, p(o1)), ("implies", b, p(o1)), ("and",), ("or",), ("and", b), ("or", b, p(o1), p(o2)),
        ("not", ("not", b)), ("eq", o1, o2), ("eq", r(o1), r(o2)), ("lt", n, I(2)), ("le", I(-1), n),
        ("eq", ("+", n, I(1), c(o1)), I(3)), ("eq", ("-", n, c(o1)), I(0)), ("eq", ("*", n, I(2), c(o2)), I(0)),
        ("le", ("/", m, I(2)), ("r", 3, 4)), ("le", ("/", I(1), I(3)), m), ("eq", ("+", n), I(1)), ("le", ("r", -5, 3), m),
        ("exists", (("v", "T"), ("w", "S")), ("and", p(vT), q(vS))),
        ("forall", (("v", "T"),), ("exists", (("w", "S"),), ("or", p(vT), q(vS)))),
        ("exists", (("v", "S"),), q(("v", "v", "S"))),
        ("and", ("exists", VT, p(vT)), ("forall", (("v", "S"),), q(("v", "v", "S")))),
        ("eq", r(r(o1)), o2), p(r(o1)), ("b", True), ("b", False), ("le", I(0), I(1)),
    ]


def run_structs(acc):
    items = _htn_items()
    for nm, fn in items.items():
        w = _htn_world()
        try:
            fn(w)
        except Exception as e:
            acc.count("skipped_rejected_at_build")
            acc.outcome("build-rejected:htn:%s:%s" % (nm, type(e).__name__))
            continue
        judge_problem(acc, w[1], "structs", "htn/" + nm, {"family": "structs"}, 2)
    judge_problem(acc, _htn_world()[1], "structs", "htn/base", {"family": "structs"}, 1)
    world, sitems = _sched_items()
    for nm, fn in sitems.items():
        w = world()
        try:
            fn(w)
        except Exception as e:
            acc.count("skipped_rejected_at_build")
            acc.outcome("build-rejected:sched:%s:%s" % (nm, type(e).__name__))
            continue
        judge_problem(acc, w[1], "structs", "sched/" + nm, {"family": "structs"}, 2)
    for i, ex in enumerate(_exprs()):
        for where in ("goal", "precondition", "effect-condition", "invariant"):
            ps = uprob.make({})
            if where == "goal":
                ps["goals"] = (ex,)
            elif where == "invariant":
                ps["traj"] = (("always", ex),)
            else:
                acts = list(ps["actions"])
                a2 = dict(acts[1])
                if where == "precondition":
                    a2["pre"] = (ex,)
                else:
                    a2["eff"] = ((("assign", uprob.b, uprob.TRUE, ex, ())),)
                acts[1] = a2
                ps["actions"] = tuple(acts)
            try:
                pb, _ = gp.build_problem(ps)
            except Exception as e:
                acc.count("skipped_rejected_at_build")
                acc.outcome("build-rejected:expr:%s" % type(e).__name__)
                continue
            if any(tc.is_constant() for tc in pb.trajectory_constraints):
                # Always(<constant>) is stored simplified to a bare constant, which the model's own
                # add_trajectory_constraint refuses: not a protobuf matter
                acc.count("skipped_degenerate_invariant")
                continue
            judge_problem(acc, pb, "structs", "expr/%s/%d" % (where, i), {"family": "structs"}, 2)
    # plan parameters of every constant kind
    env, pb, T, b, a = _mini()
    tm, em = env.type_manager, env.expression_manager
    a5 = up.model.InstantaneousAction("a5", OrderedDict(f=tm.BoolType(), i=tm.IntType(0, 3), t=tm.RealType(), x=T), env)
    a5.add_effect(b, True)
    pb.add_action(a5)
    o1_ = em.ObjectExp(pb.object("o1"))
    for f_ in (em.TRUE(), em.FALSE()):
        for i_ in (em.Int(0), em.Int(3)):
            for t_ in (em.Real(Fraction(1, 2)), em.Int(2), em.Real(Fraction(-7, 3))):
                ai = up.plans.ActionInstance(a5, (f_, i_, t_, o1_))
                judge_plan(acc, up.plans.SequentialPlan([ai], env), pb, "structs", "plan-params/%s/%s/%s" % (f_, i_, t_), {"family": "structs"}, 2)


# ------------------------------------------------------------------ family: plans
def _plan_world():
    ps = uprob.make({})
    pb, ctx = gp.build_problem(ps)
    env = pb.environment
    em = env.expression_manager
    objs = {o.name: em.ObjectExp(o) for o in pb.all_objects}
    T = pb.user_type("T")
    gas = []
    for act in pb.actions:
        doms = [[objs[o.name] for o in pb.objects(p.type)] for p in act.parameters]
        for args in product(*doms):
            gas.append(up.plans.ActionInstance(act, tuple(args)))
    return pb, env, gas


def _tt_world():
    ps = tempfam.make({})
    pb, ctx = tempfam.build(ps)
    env = pb.environment
    em = env.expression_manager
    objs = {o.name: em.ObjectExp(o) for o in pb.all_objects}
    steps = []
    for act in pb.actions:
        doms = [[objs[o.name] for o in pb.objects(p.type)] for p in act.parameters]
        for args in product(*doms):
            steps.append((act, up.plans.ActionInstance(act, tuple(args))))
    return pb, env, steps


TT_STARTS = [Fraction(0), Fraction(1, 2), Fraction(1), Fraction(3)]
TT_DURS = [Fraction(1), Fraction(3, 2), Fraction(2)]


def run_plans(acc, which, part, nparts):
    if which == "sequential":
        pb, env, gas = _plan_world()
        # the empty plan is not enumerated: a Plan message without actions does not say which class it had
        seqs = [(i,) for i in range(len(gas))] + [(i, j) for i in range(len(gas)) for j in range(len(gas))]
        for n_, s in enumerate(seqs):
            if n_ % nparts != part:
                continue
            plan = up.plans.SequentialPlan([gas[i] for i in s], env)
            judge_plan(acc, plan, pb, "plans", "seq/" + "-".join(map(str, s)), {"family": "plans", "which": which, "seq": list(s)}, len(s))
    elif which == "partial-order":
        pb, env, gas = _plan_world()
        n_ = 0
        for i in range(len(gas)):
            for j in range(i, len(gas)):
                for edge in (False, True):
                    n_ += 1
                    if n_ % nparts != part:
                        continue
                    a1 = gas[i]
                    a2 = up.plans.ActionInstance(gas[j].action, gas[j].actual_parameters)
                    plan = up.plans.PartialOrderPlan({a1: [a2] if edge else [], a2: []}, env)
                    judge_plan(acc, plan, pb, "plans", "pop/%d-%d-%s" % (i, j, edge), {"family": "plans", "which": which, "pop": [i, j, edge]}, 2)
    else:
        pb, env, steps = _tt_world()

        def inst(k, st, du):
            act, ai = steps[k]
            dur = TT_DURS[du] if isinstance(act, up.model.DurativeAction) else None
            return (TT_STARTS[st], up.plans.ActionInstance(ai.action, ai.actual_parameters), dur)

        singles = [(k, st, du) for k in range(len(steps)) for st in range(len(TT_STARTS)) for du in range(len(TT_DURS))
                   if du == 0 or isinstance(steps[k][0], up.model.DurativeAction)]
        plans = [(s,) for s in singles] + [(s, t) for s in singles for t in singles if s <= t]
        for n_, pl in enumerate(plans):
            if n_ % nparts != part:
                continue
            plan = up.plans.TimeTriggeredPlan([inst(*s) for s in pl], env)
            judge_plan(acc, plan, pb, "plans", "tt/" + "+".join("%d.%d.%d" % s for s in pl), {"family": "plans", "which": which, "tt": [list(s) for s in pl]}, len(pl))


# ------------------------------------------------------------------ family: reader histories
def _twin_world(env=None, twin=True):
    """the U-PROB base (twin: with the object types permuted - same names, other types), built in `env`"""
    ps = dict(uprob.make({}))
    if twin:
        ps["objects"] = (("o1", "S"), ("o2", "T"), ("s1", "T"))
        ps["init"] = ()
        ps["goals"] = ()
    pb, ctx = gp.build_problem(ps, env)
    env = pb.environment
    em = env.expression_manager
    objs = {o.name: em.ObjectExp(o) for o in pb.all_objects}
    gas = []
    for act in pb.actions:
        doms = [[objs[o.name] for o in pb.objects(p.type)] for p in act.parameters]
        for args in product(*doms):
            gas.append(up.plans.ActionInstance(act, tuple(args)))
    return pb, env, gas


def run_reader_history(acc, only=None):
    """ONE reader / writer pair: a problem is converted and read first, then every one-step plan of
    a (possibly different) problem that shares object names with it is written and read back."""
    from mc.gen.spec import fresh_env

    env = fresh_env()  # both problems live in one (the global) environment
    worlds = {"A": _twin_world(env, twin=False), "B": _twin_world(env)}
    for first in ("A", "B"):
        for second in ("A", "B"):
            if only and [first, second] != list(only):
                continue
            R, W = _rw()
            pb1 = worlds[first][0]
            try:
                back = R.convert(wire(W.convert(pb1)), pb1.environment)
            except Exception as e:
                acc.violation("reader-raises:%s|history:%s" % (type(e).__name__, first), "reading problem %s raised %s: %s" % (first, type(e).__name__, str(e)[:200]),
                              {"family": "reader-history", "order": [first, second], "_level": 1})
                continue
            pb2, env2, gas2 = worlds[second]
            for i, ga in enumerate(gas2):
                plan = up.plans.SequentialPlan([up.plans.ActionInstance(ga.action, ga.actual_parameters)], env2)
                judge_plan(acc, plan, pb2, "reader-history", "problem-%s-then-plan-of-%s" % (first, second),
                           {"family": "reader-history", "order": [first, second]}, 2, rw=(R, W))


# ------------------------------------------------------------------ family: results
def run_compiler_results(acc, cid, level):
    from unified_planning.engines.compilers import Grounder, ConditionalEffectsRemover, DisjunctiveConditionsRemover, NegativeConditionsRemover
    from unified_planning.engines import CompilationKind

    ps = uprob.make(dict(cid))
    try:
        pb, _ctx = gp.build_problem(ps)
    except Exception:
        acc.count("skipped_rejected_at_build")
        return
    R, W = _rw()
    chain = [("up_grounder", Grounder, CompilationKind.GROUNDING)]
    second = [
        ("cerm", ConditionalEffectsRemover, CompilationKind.CONDITIONAL_EFFECTS_REMOVING),
        ("dcrm", DisjunctiveConditionsRemover, CompilationKind.DISJUNCTIVE_CONDITIONS_REMOVING),
        ("ncrm", NegativeConditionsRemover, CompilationKind.NEGATIVE_CONDITIONS_REMOVING),
    ]
    src = pb
    stage = 0
    todo = [chain[0]]
    while todo:
        nm, cls, ck = todo.pop(0)
        comp = cls()
        if not comp.supports(src.kind):
            acc.count("compiler_unsupported_kind")
            continue
        try:
            res = comp.compile(src, ck)
        except Exception as e:
            acc.count("compiler_raised")  # other properties' business
            acc.outcome("compiler-raised:%s:%s" % (nm, type(e).__name__))
            continue
        _judge_compiler_result(acc, res, src, nm, cid, level, R, W)
        if stage == 0:
            stage = 1
            src = res.problem
            todo = list(second)


def _judge_compiler_result(acc, res, src, nm, cid, level, R, W):
    acc.count("evaluations")
    label = "%s/%s" % (nm, _label(cid))
    case = {"family": "compiler-results", "cid": tj(cid)}

    def viol(sub, what):
        acc.violation("%s|results:%s" % (sub, label), what, dict(case, _level=level))

    if any(a.parameters for a in res.problem.actions):
        acc.count("skipped_parameterised_compiled_actions")
        return
    try:
        msg = wire(W.convert(res))
    except Exception as e:
        acc.count("writer_rejected")
        acc.outcome("writer-rejected:CompilerResult:%s@%s" % (type(e).__name__, _where(e)))
        return
    acc.count("nontrivial")
    try:
        back = R.convert(msg, src)
    except Exception as e:
        viol(
            "reader-raises:%s@%s:CompilerResult" % (type(e).__name__, _where(e)),
            "writer accepted the CompilerResult but the reader raised %s: %s" % (type(e).__name__, str(e)[:200]),
        )
        return
    if back.problem != res.problem:
        viol("not-equal:CompilerResult.problem.%s" % problem_diff(res.problem, back.problem), "compiled problem differs after round trip")
        return
    if back.engine_name != res.engine_name:
        viol("not-equal:CompilerResult.engine_name", "engine_name %r read back as %r" % (res.engine_name, back.engine_name))
    if (back.log_messages or []) != (res.log_messages or []):
        viol("not-equal:CompilerResult.log_messages", "log messages differ")
    if (back.metrics or None) != (res.metrics or None):
        viol("not-equal:CompilerResult.metrics", "metrics %r read back as %r" % (res.metrics, back.metrics))
    for act in res.problem.actions:
        ai = up.plans.ActionInstance(act)
        ai2 = up.plans.ActionInstance(back.problem.action(act.name))
        try:
            o1 = res.map_back_action_instance(ai)
            o2 = back.map_back_action_instance(ai2)
        except Exception as e:
            viol("map-back-raises:%s" % type(e).__name__, "map_back_action_instance raised after round trip: %r" % (e,))
            return
        if (o1 is None) != (o2 is None) or (
            o1 is not None and (o1.action != o2.action or o1.actual_parameters != o2.actual_parameters)
        ):
            viol("not-equal:CompilerResult.map_back", "map_back(%s) = %s, after round trip %s" % (ai, o1, o2))
            return
    acc.outcome("equal-compiler-result:" + nm)


def run_validation_results(acc):
    from unified_planning.engines import SequentialPlanValidator, ValidationResult, ValidationResultStatus, LogMessage, LogLevel

    R, W = _rw()

    def judge(vr, label, case, level):
        acc.count("evaluations")

        def viol(sub, what):
            acc.violation("%s|results:%s" % (sub, label), what, dict(case, _level=level))

        try:
            msg = wire(W.convert(vr))
        except Exception as e:
            acc.count("writer_rejected")
            acc.outcome("writer-rejected:ValidationResult:%s@%s" % (type(e).__name__, _where(e)))
            return
        acc.count("nontrivial")
        try:
            back = R.convert(msg)
        except Exception as e:
            viol("reader-raises:%s@%s:ValidationResult" % (type(e).__name__, _where(e)), "reader raised %r" % (e,))
            return
        for fld in ("status", "engine_name", "log_messages", "metrics"):
            if getattr(back, fld) != getattr(vr, fld):
                viol("not-equal:ValidationResult.%s" % fld, "%s: %r read back as %r" % (fld, getattr(vr, fld), getattr(back, fld)))
                return
        acc.outcome("equal-validation-result:" + vr.status.name)

    # real results: every plan <= 2 steps of the base U-PROB problem
    pb, env, gas = _plan_world()
    seqs = [()] + [(i,) for i in range(len(gas))] + [(i, j) for i in range(len(gas)) for j in range(len(gas))]
    for s in seqs:
        plan = up.plans.SequentialPlan([gas[i] for i in s], env)
        try:
            vr = SequentialPlanValidator(environment=env).validate(pb, plan)
        except Exception:
            acc.count("validator_raised")
            continue
        judge(vr, "real/" + "-".join(map(str, s)), {"family": "validation-results", "seq": list(s)}, len(s))
    # field sweep
    logs = [
        [],
        [LogMessage(LogLevel.INFO, "i")],
        [LogMessage(LogLevel.DEBUG, "d"), LogMessage(LogLevel.WARNING, "w"), LogMessage(LogLevel.ERROR, "e é\n2nd line")],
    ]
    for si, status in enumerate(ValidationResultStatus):
        for li, lg in enumerate(logs):
            for mi, mt in enumerate((None, {"k": "v", "time": "0.1"})):
                for ei, en in enumerate(("eng", "")):
                    vr = ValidationResult(status, en, lg, None, None, None, mt)
                    judge(vr, "sweep/%s/%d/%d/%d" % (status.name, li, mi, ei), {"family": "validation-results", "sweep": [si, li, mi, ei]}, 1)


# ------------------------------------------------------------------ family: corpus
_EXAMPLES = {}


def examples():
    if not _EXAMPLES:
        fresh_env()
        from unified_planning.test.examples import get_example_problems

        _EXAMPLES.update(get_example_problems())
    return _EXAMPLES


def _excluded(kind):
    return (
        kind.has_increase_continuous_effects()
        or kind.has_decrease_continuous_effects()
        or kind.has_interpreted_functions_in_durations()
        or kind.has_interpreted_functions_in_boolean_assignments()
        or kind.has_interpreted_functions_in_numeric_assignments()
        or kind.has_interpreted_functions_in_object_assignments()
        or kind.has_interpreted_functions_in_conditions()
        or kind.has_processes()
        or kind.has_events()
    )


MUT_POS = {
    "HierarchicalProblem": ["fluent", "task-network-variable", "task-parameter"],
    "SchedulingProblem": ["fluent", "sched-variable", "activity-parameter"],
}


def run_corpus(acc, only=None):
    for name, ex in sorted(examples().items()):
        if only is not None and only != name:
            continue
        pb = ex.problem
        if _excluded(pb.kind):
            acc.count("corpus_excluded_unrepresentable")
            continue
        case = {"family": "corpus", "name": name}
        judge_problem(acc, pb, "corpus", name, case, 5)
        for i, plan in enumerate(ex.valid_plans[:2]):
            judge_plan(acc, plan, pb, "corpus", "%s/plan%d" % (name, i), case, 5)
        if pb.kind.has_continuous_time():
            p2 = pb.clone()
            p2.epsilon = Fraction(1, 7)
            p2.self_overlapping = True
            p2.discrete_time = True
            judge_problem(acc, p2, "corpus", name + "/time-model", case, 5)
        positions = MUT_POS.get(type(pb).__name__)
        if positions:
            for pos in positions:
                for k in KINDS:
                    for bd in BOUNDS:
                        for mg in MAGS:
                            run_mutation(acc, name, pos, k, bd, mg)


def run_mutation(acc, name, pos, k, bd, mg):
    pb = examples()[name].problem.clone()
    env = pb.environment
    up.environment.GLOBAL_ENVIRONMENT = env
    t = num_type(env.type_manager, k, bd, mg)
    if t is None:
        return
    try:
        if pos == "fluent":
            pb.add_fluent(up.model.Fluent("zz_f", t, None, env))
        elif pos == "task-network-variable":
            pb.task_network.add_variable("zz_v", t)
        elif pos == "task-parameter":
            pb.add_task("zz_t", k=t)
        elif pos == "sched-variable":
            pb.add_variable("zz_v", t)
        elif pos == "activity-parameter":
            if not pb.activities:
                return
            pb.activities[0].add_parameter("zz_k", t)
    except Exception as e:
        acc.count("skipped_rejected_at_build")
        return
    judge_problem(
        acc, pb, "corpus-mutation", "%s+%s/%s/%s/%s" % (name, pos, k, bd, mg),
        {"family": "corpus-mutation", "name": name, "mut": [pos, k, bd, mg]}, 6 + MAGS.index(mg),
    )


# ------------------------------------------------------------------ kernel interface
def bounds(tier):
    return {
        "uprob_plan": uprob.plan(tier),
        "uprob_slots": uprob.SLOT_NAMES,
        "utemp_plan": tempfam.plan(tier),
        "utemp_slots": UTEMP_SLOTS,
        "type_cases": len(type_cases()),
        "const_cases": len(const_cases()),
        "timing_cases": len(timing_cases()),
        "duration_forms": len(DUR_FORMS),
        "plans": {"sequential_steps": 2, "time_triggered_steps": 2, "tt_starts": [str(x) for x in TT_STARTS], "tt_durations": [str(x) for x in TT_DURS]},
        "compiler_results_deviation": 1,
    }


def shards(tier, seed):
    out = [
        {"level": 0, "family": "types"},
        {"level": 0, "family": "consts"},
        {"level": 0, "family": "timings", "part": 0},
        {"level": 0, "family": "timings", "part": 1},
        {"level": 0, "family": "validation-results"},
        {"level": 0, "family": "corpus"},
        {"level": 0, "family": "structs"},
        {"level": 0, "family": "reader-history"},
    ]
    for w_, k in (("sequential", 2), ("partial-order", 1), ("time-triggered", 6 if tier == "quick" else 6)):
        for i in range(k):
            out.append({"level": 0, "family": "plans", "which": w_, "part": i, "nparts": k})
    cr = [(lv, cid) for lv, cid in uprob.case_ids("quick", uprob.SLOT_NAMES) if lv <= 1]
    for sh in su.chunk_cases(cr, seed, {0: 1, 1: 6}):
        sh["family"] = "compiler-results"
        sh["level"] = 0
        out.append(sh)
    for sh in su.chunk_cases(uprob.case_ids(tier, uprob.SLOT_NAMES), seed, {0: 1, 1: 4, 2: 48, 3: 320}):
        sh["family"] = "uprob"
        out.append(sh)
    for sh in su.chunk_cases(tempfam.case_ids(tier, UTEMP_SLOTS), seed, {0: 1, 1: 4, 2: 32}):
        sh["family"] = "utemp"
        out.append(sh)
    out.sort(key=lambda s: s["level"])
    return out


def run_shard(shard, tier, seed):
    acc = Acc()
    fam = shard["family"]
    if fam == "types":
        for c in type_cases():
            run_type(acc, c)
    elif fam == "consts":
        for c in const_cases():
            run_const(acc, c)
    elif fam == "timings":
        cs = timing_cases()
        for c in cs[shard["part"] :: 2]:
            run_timing(acc, c)
        if shard["part"] == 0:
            run_durations(acc)
    elif fam == "plans":
        run_plans(acc, shard["which"], shard["part"], shard["nparts"])
    elif fam == "validation-results":
        run_validation_results(acc)
    elif fam == "corpus":
        run_corpus(acc)
    elif fam == "structs":
        run_structs(acc)
    elif fam == "reader-history":
        run_reader_history(acc)
    elif fam == "compiler-results":
        for cid in shard["cids"]:
            run_compiler_results(acc, tuple(tuple(x) for x in cid), len(cid))
    else:
        for cid in shard["cids"]:
            run_grammar(acc, fam, tuple(tuple(x) for x in cid), shard["level"])
    finalize(acc)  # per-shard minimisation too: a capped run skips the merged finalize
    return acc


def replay(case):
    acc = Acc()
    fam = case["family"]
    if fam in ("uprob", "utemp"):
        run_grammar(acc, fam, tuple(tuple(x) for x in case["cid"]), case.get("_level", 1))
    elif fam == "types":
        run_type(acc, tuple(case["case"]))
    elif fam == "consts":
        run_const(acc, tuple(case["case"]))
    elif fam == "timings":
        run_timing(acc, tuple(case["case"]))
    elif fam == "durations":
        run_durations(acc)
    elif fam == "plans":
        run_plans(acc, case["which"], 0, 1)
    elif fam == "validation-results":
        run_validation_results(acc)
    elif fam == "compiler-results":
        cid = tuple(tuple(x) for x in case["cid"])
        run_compiler_results(acc, cid, len(cid))
    elif fam == "corpus":
        run_corpus(acc, only=case["name"])
    elif fam == "structs":
        run_structs(acc)
    elif fam == "reader-history":
        run_reader_history(acc, only=case.get("order"))
    elif fam == "corpus-mutation":
        examples()
        run_mutation(acc, case["name"], *case["mut"])
    return [(fp, e["cases"][0]["what"]) for fp, e in acc.viol.items()]


def finalize(acc, tier=None):
    """per sub-oracle (root cause hint) keep the single smallest failing input"""
    best = {}
    for fp, e in acc.viol.items():
        sub = fp[: fp.rindex("|")]
        c0 = e["cases"][0]["case"]
        key = (c0.get("_level", 9), len(json.dumps(c0, default=str)), fp)
        if sub not in best or key < best[sub][0]:
            best[sub] = (key, fp)
    keep = {fp for _k, fp in best.values()}
    for fp in list(acc.viol):
        if fp not in keep:
            acc.c["violations_subsumed"] += acc.viol[fp]["count"]
            del acc.viol[fp]
