"""C21 - the two PDDL readers produce equivalent problems (DESIGN 4/C21).

Inputs are PDDL TEXTS: a base domain/problem pair with text slots (types section, constants,
object list shape, typed/untyped parameters, precondition / effect / goal / init / metric
forms, including forms the writer never emits) and every assignment of <= d non-default
slots, plus the domain/problem pairs shipped under unified_planning/test/pddl.
Each text is read with PDDLReader(force_up_pddl_reader=True) and
PDDLReader(force_ai_planning_reader=True).  A text that either reader refuses (any
exception) is "outside the common fragment" (counted per reason).  When both accept:
spec_up = problem_to_spec(up result), spec_ai = problem_to_spec(ai result) and
mc/ref/bisim.compare(spec_up, spec_ai): objects per type, initial state, lock-step BFS to
depth D (applicable ground actions, successors, goal verdict), metric on all plans <= k.
"""
from __future__ import annotations

import os
import re
from itertools import combinations, product

from mc.kernel.runner import Acc
from mc.gen import problem as gp
from mc.gen.spec import tj
from mc.ref import bisim
from mc.checks import simutil as su
from mc.checks import ioutil as io

PROPERTY = "C21"
LEVEL = "model_checking"
RULE = (
    "text-level slot grammar (19 slots: types, constants, objects, parameter typing of 3 actions, "
    "precondition/effect of 3 actions, goal, init, metric, requirement spelling) over a typed "
    "numeric base domain; all texts with <= d non-default slots (d per tier; core alternatives "
    "only at the highest level) + the shipped test/pddl pairs; both readers; product BFS of the "
    "two read problems to depth D under the reference semantics; non-trivial transition = "
    "successor differs from pre-state or inapplicable for a reason other than a false precondition"
)
ASSUMPTIONS = [
    "reference semantics mc/ref/seqsem.py on both read problems; problems observed through problem_to_spec",
    "a text refused by either reader (any exception) is outside the common fragment, counted by reason",
    "names are compared case-sensitively as produced by the readers (all generated texts are lower-case)",
    "shipped pairs with more than 400 ground actions are compared statically + depth 1 on the first 400",
]

REQ = (":strips :typing :negative-preconditions :disjunctive-preconditions :equality "
       ":existential-preconditions :universal-preconditions :conditional-effects :numeric-fluents :action-costs")

DOMAIN = """(define (domain dom)
 (:requirements {req})
 (:types {types})
{constants} (:predicates (b) (p ?x - t) (q ?y - s) (st ?x - t) (e ?x - t ?y - t))
 (:functions (n) (c ?x - t){tcf}{ftype})
 (:action a1
  :parameters ({par1})
  :precondition {pre1}
  :effect {eff1})
 (:action a2
  :parameters ()
  :precondition {pre2}
  :effect {eff2})
 (:action a3
  :parameters ({par3})
  :precondition {pre3}
  :effect {eff3})
)
"""
PROBLEM = """(define (problem prob)
 (:domain dom)
 (:objects {objects})
 (:init (st k0) (st o1) (e o1 o2) (= (c o2) 1) (= (n) 0) (= (c o1) 0) (= (c s1) 0) (= (c k0) 0){tci}{init})
 (:goal {goal})
{metric})
"""

# slot -> [(text, core)], index 0 = default
SLOTS = {
    "req": [(REQ, 1), (":adl :numeric-fluents :action-costs", 1), (":strips :typing :adl :fluents :action-costs", 0)],
    "types": [("t - object s - t", 1), ("s - t t - object", 1), ("t s - object", 0), ("t s", 1), ("s - t t", 0)],
    "constants": [
        (" (:constants k0 - t)\n", 1),
        (" (:constants k0 k1 - t)\n", 1),
        (" (:constants k0 k1 - t k3 - s)\n", 1),
        (" (:constants k3 - s k0 k1 - t)\n", 0),
        (" (:constants k0 - t k1)\n", 0),
        (" (:constants k1 - t k0 - t)\n", 0),
    ],
    "ftype": [("", 1), (" - number", 1)],
    # total-cost: declared + initialised (default) | absent
    "tc": [("on", 1), ("off", 1)],
    "objects": [
        ("o1 o2 - t s1 - s", 1),
        ("o1 - t o2 - t s1 - s", 1),
        ("s1 - s o1 o2 - t", 1),
        ("o1 o2 s1 - t", 0),
        ("o1 o2 - t s1 - s o3 - t", 0),
        ("o1 o2 - t s1 - s o4", 1),
        ("o1 o2 - t s1 - s o5 - object", 0),
    ],
    "par1": [("?x - t", 1), ("?x", 1), ("?x - s", 0), ("?x - object", 0)],
    "par3": [("?x - t ?y - t", 1), ("?x ?y - t", 1), ("?x - t ?y", 1), ("?x ?y", 0), ("?x - t ?y - s", 0)],
    "pre1": [
        ("(st k0)", 1),
        ("(p ?x)", 1),
        ("(not (p ?x))", 1),
        ("(and (st ?x) (not (b)))", 1),
        ("(or (p ?x) (b))", 1),
        ("(and (or (p ?x) (b)) (or (not (p ?x)) (st ?x)))", 1),
        ("(or (and (p ?x) (b)) (and (not (b)) (st ?x)))", 0),
        ("(imply (b) (p ?x))", 1),
        ("(exists (?z - t) (p ?z))", 1),
        ("(forall (?z - t) (p ?z))", 0),
        ("(forall (?z - s) (or (q ?z) (p ?z)))", 0),
        ("(exists (?z - s ?w - t) (and (p ?z) (not (p ?w))))", 0),
        ("(= ?x k0)", 1),
        ("(not (= ?x k0))", 0),
        ("(= ?x k1)", 0),
        ("(<= (n) 1)", 1),
        ("(>= 1 (n))", 1),
        ("(< (c ?x) (+ (n) 1))", 1),
        ("(> (+ (n) 1) (c ?x))", 1),
        ("(= (n) 0)", 0),
        ("(= 0 (n))", 1),
        ("(<= (- (n) (c ?x)) 0)", 1),
        ("(>= (- (c ?x) (n)) 1)", 0),
        ("(< (* 2 (n)) (/ (c ?x) 2))", 0),
        ("(and)", 1),
        ("()", 1),
        ("(and (st k0))", 0),
        ("(<= (- (n)) 0)", 0),
        ("(<= (n) 0)", 1),
        ("(>= (n) 0)", 0),
        ("(< (n) 1)", 0),
        ("(> 1 (n))", 0),
        # a quantified variable that shadows the action's own parameter
        ("(exists (?x - t) (and (p ?x) (st ?x)))", 0),
        # the same variable name quantified over a subtype here and over t in pre2#4 (the body is
        # well-typed for either type)
        ("(exists (?z - s) (p ?z))", 0),
    ],
    "pre2": [
        ("(st k0)", 1),
        ("(b)", 0),
        ("(not (b))", 1),
        ("(or (b) (p k0))", 0),
        ("(exists (?z - t) (p ?z))", 1),
        ("(forall (?z - t) (imply (p ?z) (st ?z)))", 1),
        ("(>= (n) 1)", 1),
        ("(< 0 (n))", 0),
        ("(p k1)", 0),
    ],
    "pre3": [
        ("(st k0)", 1),
        ("(not (= ?x ?y))", 1),
        ("(= ?x ?y)", 0),
        ("(and (p ?y) (not (p ?x)))", 1),
        ("(< (c ?x) (c ?y))", 1),
        ("(> (c ?x) (c ?y))", 0),
        ("(e ?x ?y)", 1),
        ("(e ?y ?x)", 0),
    ],
    "eff1": [
        ("(p ?x)", 1),
        ("(and (p ?x))", 1),
        ("(and (p ?x) (not (b)))", 1),
        ("(not (p ?x))", 0),
        ("(when (b) (p ?x))", 1),
        ("(and (p ?x) (when (not (b)) (and (b) (not (p ?x)))))", 1),
        ("(when (and (b) (not (p ?x))) (and (p ?x) (not (b))))", 0),
        ("(forall (?z - t) (not (p ?z)))", 1),
        ("(and (p ?x) (forall (?z - t) (when (p ?z) (increase (c ?z) 1))))", 1),
        ("(forall (?z - t) (when (= ?z ?x) (p ?z)))", 0),
        ("(and (p ?x) (increase (n) 1))", 1),
        ("(and (p ?x) (decrease (n) (c ?x)))", 1),
        ("(and (p ?x) (assign (n) 2))", 0),
        ("(and (p ?x) (assign (n) (+ (n) (c ?x))))", 0),
        ("(and (p ?x) (assign (n) (- (c ?x) (n))))", 1),
        ("(and (p ?x) (assign (n) (- (n) (c ?x))))", 1),
        ("(and (p ?x) (increase (n) (* 2 (c ?x))))", 0),
        ("(and (p ?x) (assign (n) (/ (n) 2)))", 1),
        ("(and (p ?x) (assign (n) (/ 3 (+ (n) 1))))", 0),
        ("(and (p ?x) (increase (total-cost) 2))", 1),
        ("(and (p ?x) (increase (total-cost) (c ?x)))", 1),
        ("(and (p ?x) (increase (total-cost) (+ (c ?x) 1)))", 0),
        ("(and (p ?x) (when (b) (increase (n) 1)))", 0),
        ("(and (p ?x) (assign (n) (- (n))))", 0),
        ("(and (p ?x) (increase (n) 1) (increase (n) 1))", 2),  # 2 = duplicate operands of `and`
        ("(and (not (p ?x)) (p ?x))", 1),
        ("(and (p ?x) (assign (c ?x) 2) (assign (n) 1.5))", 0),
        ("()", 0),
    ],
    "eff2": [
        ("(b)", 1),
        ("(not (b))", 1),
        ("(and (b) (increase (total-cost) 1))", 1),
        ("(and (b) (increase (n) 1))", 1),
        ("(and (b) (forall (?z - s) (q ?z)))", 0),
        ("(and (b) (p k1))", 0),
        ("(when (p k0) (b))", 0),
        ("(and (b) (decrease (total-cost) 1))", 0),
    ],
    "eff3": [
        ("(p ?x)", 1),
        ("(and (p ?x) (not (p ?y)))", 1),
        ("(and (not (p ?y)) (p ?x))", 1),
        ("(and (p ?x) (increase (total-cost) 1))", 1),
        ("(and (p ?x) (assign (c ?x) (c ?y)))", 0),
        ("(and (p ?x) (increase (c ?x) 1) (decrease (c ?y) 1))", 0),
        ("(and (p ?x) (e ?y ?x))", 1),
        ("(and (p ?x) (forall (?z - t) (when (e ?x ?z) (e ?z ?x))))", 0),
    ],
    "goal": [
        ("(p o1)", 1),
        ("(and (p o1) (b))", 1),
        ("(or (b) (p o2))", 1),
        ("(and (p o1) (or (b) (not (p o2))))", 0),
        ("(= (n) 2)", 1),
        ("(>= (n) 1)", 0),
        ("(< 0 (n))", 1),
        ("(forall (?z - t) (p ?z))", 1),
        ("(exists (?z - s) (p ?z))", 0),
        ("(imply (b) (p o1))", 0),
        ("(p k1)", 0),
        ("(and)", 0),
        ("(e o2 o1)", 1),
    ],
    "init": [
        ("", 1),
        (" (b)", 1),
        (" (p o1)", 1),
        ("(= (n) 0)=>(= (n) 2)", 0),
        ("(= (c o1) 0)=>(= (c o1) 2)", 1),
        (" (p s1) (q s1)", 0),
        ("(= (n) 0)=>(= (n) 1.5)", 1),
        (" (not (b))", 0),
        (" (p k1)", 0),
    ],
    "metric": [
        (" (:metric minimize (total-cost))\n", 1),
        ("", 1),
        (" (:metric minimize (n))\n", 1),
        (" (:metric maximize (n))\n", 0),
        (" (:metric minimize (+ (n) (c o1)))\n", 1),
        (" (:metric minimize (- (c o2) (n)))\n", 0),
        (" (:metric maximize (* 2 (n)))\n", 0),
    ],
}
# "init" special: the base init defines every numeric fluent; these alternatives REMOVE one
INIT_REMOVE = {"init-": [("", 1), ("(= (c s1) 0)", 1), ("(= (n) 0)", 0)]}
SLOT_NAMES = list(SLOTS) + ["init-"]
# alternatives combined pairwise in the quick tier (the per-slot flags above are the thorough core)
QUICK_CORE = {
    "req": {1}, "types": {1, 3}, "constants": {1, 2}, "ftype": {1}, "tc": {1}, "objects": {1, 2},
    "par1": {1}, "par3": {1, 2},
    "pre1": {1, 4, 5, 7, 8, 10, 12, 16, 18, 21, 24, 28, 32, 33}, "pre2": {2, 4}, "pre3": {1, 4, 6},
    "eff1": {2, 4, 5, 7, 8, 10, 14, 15, 19, 20}, "eff2": {1, 2}, "eff3": {1, 3, 6},
    "goal": {1, 2, 6}, "init": {1, 4}, "init-": set(), "metric": {1, 2},
}


def pool(slot):
    return SLOTS[slot] if slot in SLOTS else INIT_REMOVE[slot]


def make_text(cid):
    ch = {s: pool(s)[0][0] for s in SLOT_NAMES}
    for s, i in cid:
        ch[s] = pool(s)[i][0]
    tcf = "" if ch["tc"] == "off" else " (total-cost)"
    tci = " (= (total-cost) 0)" if ch["tc"] == "on" else ""
    dom = DOMAIN.format(tcf=tcf, **{k: ch[k] for k in ("req", "types", "constants", "ftype", "par1", "par3", "pre1", "pre2", "pre3", "eff1", "eff2", "eff3")})
    init = ch["init"]
    swap = None
    if "=>" in init:
        swap = init.split("=>")
        init = ""
    for k in ("k1", "k3"):  # keep every numeric fluent defined (undefined-vs-0 is the `init-` slot's business)
        if k in ch["constants"]:
            init += " (= (c %s) 0)" % k
    for o in ("o3", "o4", "o5"):
        if o in ch["objects"]:
            init += " (= (c %s) 0)" % o
    prb = PROBLEM.format(objects=ch["objects"], init=init, goal=ch["goal"], metric=ch["metric"], tci=tci)
    if swap:
        prb = prb.replace(swap[0], swap[1], 1)
    if ch["init-"]:
        prb = prb.replace(" " + ch["init-"], "", 1)
    return dom, prb


def instances(level, core_only=False):
    for combo in combinations(SLOT_NAMES, level):
        idxs = []
        for s in combo:
            if core_only == "quick":
                idxs.append(sorted(QUICK_CORE[s]))
            else:
                idxs.append([i for i, (_t, core) in enumerate(pool(s)) if i > 0 and (core or not core_only)])
        for pick in product(*idxs):
            yield tuple(zip(combo, pick))


def label(cid):
    return ",".join("%s#%d" % (s, i) for s, i in cid) or "base"


def _plan(tier):
    if tier == "quick":
        return [(0, False), (1, False), (2, "quick")]
    return [(0, False), (1, False), (2, True), (2, False)]


def _depth(tier):
    return 2 if tier == "quick" else 3


def bounds(tier):
    return {
        "deviation_plan": _plan(tier),
        "depth": _depth(tier),
        "plan_k": 2,
        "slots": {s: len(pool(s)) for s in SLOT_NAMES},
        "shipped_pairs": [d + ":" + p for d, p in shipped_pairs()],
    }


def shipped_pairs():
    import unified_planning.test as upt

    root = os.path.join(os.path.dirname(upt.__file__), "pddl")
    out = []
    for d in sorted(os.listdir(root)):
        dd = os.path.join(root, d)
        if not os.path.isdir(dd):
            continue
        files = sorted(f for f in os.listdir(dd) if f.endswith(".pddl"))
        doms, probs = [], []
        for f in files:
            with open(os.path.join(dd, f), encoding="utf-8-sig") as fh:
                head = fh.read(4000).lower()
            (doms if re.search(r"\(\s*define\s*\(\s*domain\b", head) else probs).append(f)
        for dm in doms:
            for pr in probs:
                out.append((os.path.join(d, dm), os.path.join(d, pr)))
    return out


def shards(tier, seed):
    ids = []
    seen = set()
    for level, core in _plan(tier):
        for cid in instances(level, core):
            if cid not in seen:
                seen.add(cid)
                ids.append((level, cid))
    out = su.chunk_cases(ids, seed, per_level_chunks={0: 1, 1: 16, 2: 160 if tier == "quick" else 640})
    pairs = shipped_pairs()
    for i in range(0, len(pairs), 3):
        out.insert(1, {"level": 0, "files": pairs[i:i + 3]})
    return out


def run_shard(shard, tier, seed):
    acc = Acc()
    if "files" in shard:
        for dm, pr in shard["files"]:
            check_files(dm, pr, acc, _depth(tier))
        return acc
    depth = _depth(tier)
    for cid in shard["cids"]:
        cid = tuple((s, i) for s, i in cid)
        io.run_minimised(cid, lambda k, a: check_case(k, depth, a), _smaller, acc)
    return acc


def _smaller(cid):
    for j in range(len(cid)):
        yield cid[:j] + cid[j + 1:]


def replay(case):
    acc = Acc()
    if "files" in case:
        check_files(case["files"][0], case["files"][1], acc, case.get("depth", 2))
    else:
        check_case(tuple((s, i) for s, i in case["cid"]), case.get("depth", 2), acc)
    return [(fp, e["cases"][0]["what"]) for fp, e in acc.viol.items()]


finalize = su.prune_supersets


def check_case(cid, depth, acc):
    dom, prb = make_text(cid)
    lab = label(cid)
    if any(pool(s)[i][1] == 2 for s, i in cid):
        # package `pddl` keeps the operands of `and` in a SET: syntactically equal effects
        # collapse inside the third-party parser (UP's converter never sees the second one)
        acc.count("texts")
        acc.count("outside_common_fragment")
        acc.outcome("ai refuses: third-party parser merges duplicate operands of `and`")
        return
    compare_texts(dom, prb, lab, {"cid": tj(cid), "depth": depth}, depth, acc)


def check_files(dm, pr, acc, depth):
    import unified_planning.test as upt

    root = os.path.join(os.path.dirname(upt.__file__), "pddl")
    with open(os.path.join(root, dm), encoding="utf-8-sig") as f:
        dom = f.read()
    with open(os.path.join(root, pr), encoding="utf-8-sig") as f:
        prb = f.read()
    compare_texts(dom, prb, "file:%s+%s" % (dm, os.path.basename(pr)), {"files": [dm, pr], "depth": depth}, depth, acc, shipped=True)


def compare_texts(dom, prb, lab, case, depth, acc, shipped=False):
    acc.count("texts")
    res = {}
    for kind in ("up", "ai"):
        status, payload = io.read_pddl(kind, dom, prb)
        if status != "ok":
            why = payload if status == "outside" else "crash:" + io.exc_name(payload)
            acc.outcome("%s refuses: %s" % (kind, why))
            res[kind] = None
        else:
            res[kind] = payload
    if (res["up"] is None or res["ai"] is None) and lab == "base":
        # vacuity guard: the base text is plain typed numeric PDDL with :constants
        acc.violation("base-text-refused|base", "the base text is refused: up=%s ai=%s" % (res["up"] is not None, res["ai"] is not None), dict(case))
    if res["up"] is None or res["ai"] is None:
        acc.count("outside_common_fragment")
        if (res["up"] is None) != (res["ai"] is None):
            acc.count("accepted_by_exactly_one")
        return
    acc.count("accepted_by_both")

    def viol(sub, what, extra=None):
        c = dict(case)
        if extra:
            c.update(extra)
        acc.violation("%s|%s" % (sub, lab), what, c)

    try:
        sa, sb = gp.problem_to_spec(res["up"]), gp.problem_to_spec(res["ai"])
    except Exception as e:
        viol("inspect:" + io.exc_name(e), "read problem cannot be inspected: %s" % (e,))
        return
    if sa.get("dactions") or sb.get("dactions") or sa.get("unsupported") or sb.get("unsupported"):
        acc.count("skipped_not_instantaneous")
        return
    d = depth
    max_states = 400
    if shipped:
        from mc.ref.seqsem import RefProblem

        try:
            nga = len(RefProblem(sa).ground_actions())
        except Exception as e:
            acc.outcome("shipped: not groundable by the reference (%s)" % io.exc_name(e))
            acc.count("skipped_reference_cannot_ground")
            return
        if nga > 400:
            d, max_states = 1, 3
        elif nga > 60:
            d, max_states = 2, 40
    try:
        # `total-cost` may survive as an ordinary fluent on one side only (the readers recognise
        # action costs by different patterns): its meaning is compared through the metric
        names_a = {f[0] for f in sa["fluents"]}
        names_b = {f[0] for f in sb["fluents"]}
        ign = ("total-cost",) if ("total-cost" in names_a) != ("total-cost" in names_b) else ()
        if ign:
            acc.count("total_cost_kept_as_fluent_by_one_reader")
        r = bisim.compare(sa, sb, bisim.Renaming(), depth=d, plan_k=(1 if d > 1 else 0) if shipped else 2,
                          max_states=max_states, ignore_fluents=ign)
    except Exception as e:
        if shipped:
            acc.outcome("shipped: reference cannot evaluate (%s)" % io.exc_name(e))
            acc.count("skipped_reference_cannot_ground")
            return
        viol("not-comparable:" + io.exc_name(e), "a read problem cannot be interpreted by the reference: %s" % (e,))
        return
    for k in ("states", "transitions", "nontrivial", "traces", "plans"):
        acc.count(k, r.c[k])
    for k, v in r.outcomes.items():
        acc.outcome(k, v)
    for sub, what, wit in r.diffs:
        viol(sub, "UP reader = A, AI reader = B: " + what, {"witness": wit})
    # B-only fluents (e.g. an unconverted total-cost) are not compared by bisim: goals/metric cover them
    acc.sample({"text": lab, "states": r.c["states"]})
