"""C22 - clone is equal, independent, and accepts the same edits (DESIGN 4/C22).

Explicit-state search over edit histories.  A start problem is (class, feature set) built by
`build`; a history is a sequence of steps (edit, side) with side b = both original and clone,
o = original only, c = clone only.  Every history is replayed from scratch: build the start
problem, clone it, apply the steps.  Search states are de-duplicated by the pair of full
structural dumps (original, clone), bookkeeping (`_fluents_assigned`, `_fluents_inc_dec` of the
problem and of every action) included - the dump is everything later edits, == and kind read.

Oracle (statement only)
  root      clone == original (both directions), same kind
  both      after an edit applied to both: it raised on the clone iff it raised on the original
            (same exception type); clone == original still; same kind
  indep     after an edit applied to one side: the dump of the other side is unchanged
Equality is only demanded when `original == original` itself evaluates (MultiAgentProblem.__eq__
raises while some fluent has no initial value).
"""
from __future__ import annotations

from collections import OrderedDict
from fractions import Fraction

import unified_planning as up
import unified_planning.environment

from mc.kernel.runner import Acc
from mc.checks.mcutil import tj, fj

PROPERTY = "C22"
LEVEL = "model_checking"
RULE = (
    "17 start problems (Problem / ContingentProblem / HierarchicalProblem / MultiAgentProblem x feature "
    "sets: timed assignment, timed increase, timed goal, durative action, trajectory constraint, "
    "action-cost metric, initial defaults, explicit initial values, action increase, conditional timed / action effects, event, epsilon); "
    "BFS over edit sequences from an 18-edit alphabet (11 for multi-agent) applied to both sides (length "
    "<= LB) or, after a both-prefix, to one side only (total length <= LO), the deepest level restricted "
    "to the 10 edits that touch conflict bookkeeping / metrics / initial values; de-duplicated by the pair "
    "of structural dumps; non-trivial = history whose last edit raised on some side or changed "
    "conflict bookkeeping"
)
ASSUMPTIONS = [
    "one Environment per shard (non-global, except for HierarchicalProblem whose task networks only work in "
    "the global one); problems, actions and fluents are rebuilt for every history",
    "the structural dump (repr + defaults + explicit initial values + conflict bookkeeping + time model) "
    "contains every field read by the edit API, __eq__ and kind",
    "equality is demanded only when original == original evaluates without raising",
]

# start problems ------------------------------------------------------------------------------
REPS = [
    ("Problem", ()),
    ("Problem", ("tassign", "tinc", "tgoal", "dur")),
    ("Problem", ("traj", "costs")),
    ("Problem", ("defaults", "init", "ainc", "event", "epsilon")),
    ("Problem", ("tassign", "tinc", "tgoal", "dur", "traj", "costs", "defaults", "init", "ainc", "event", "epsilon")),
    ("Contingent", ("hidden",)),
    ("Contingent", ("hidden", "tassign", "tinc", "tgoal", "defaults", "init", "ainc", "epsilon")),
    ("Contingent", ("hidden", "traj", "event")),
    ("Contingent", ("hidden", "costs")),
    ("Hierarchical", ("htn",)),
    ("Hierarchical", ("htn", "tassign", "tinc", "tgoal", "dur", "defaults", "init", "epsilon")),
    ("Hierarchical", ("htn", "traj", "event")),
    ("Hierarchical", ("htn", "costs")),
    ("MA", ()),
    ("MA", ("defaults", "ainc", "agentgoal", "init")),
    ("Problem", ("costs", "dur", "ainc")),
    ("Problem", ("tcond", "acond")),  # conditional timed / action effects are exempt from the conflict bookkeeping
]

EDITS = [
    "add_fluent_new", "add_fluent_dup", "add_object", "add_action_new", "add_action_dup", "add_goal",
    "tset_x", "tset_y", "tinc_x", "add_timed_goal", "add_traj", "add_metric", "set_init", "act_assign", "act_inc",
    "dact_assign", "dact_inc", "add_timed_goal_same",
]
MA_EDITS = [
    "add_fluent_new", "add_fluent_dup", "add_object", "add_action_new", "add_action_dup", "add_goal",
    "set_init", "act_assign", "act_inc", "agent_goal", "agent_fluent_new",
]


def edits_of(cls):
    return MA_EDITS if cls == "MA" else EDITS


# edits that read or write conflict bookkeeping / metrics / initial values / defaults: the only ones
# used at the deepest level (both-sided depth LB, one-sided depth LO); shallower levels use all edits
CORE_EDITS = ["tset_x", "tset_y", "tinc_x", "add_metric", "set_init", "act_assign", "act_inc", "dact_assign", "dact_inc", "add_fluent_new"]


def limits(tier):
    if tier == "quick":
        return {"LB": 3, "LO": 2, "reduced_last": True}
    return {"LB": 4, "LO": 3, "reduced_last": True}


def bounds(tier):
    return {"limits": limits(tier), "core_edits_last_level": CORE_EDITS, "start_problems": [[c, list(f)] for c, f in REPS], "edits": EDITS, "ma_edits": MA_EDITS}


# builders -------------------------------------------------------------------------------------
def GST(k):
    from unified_planning.model.timing import GlobalStartTiming

    return GlobalStartTiming(k)


class V:
    """vocabulary of one environment (types are hash-consed by the environment)"""

    def __init__(self, env):
        self.env = env
        self.tm = env.type_manager
        self.em = env.expression_manager
        self.T = self.tm.UserType("T")
        self.T2 = self.tm.UserType("T2", self.T)
        self.Bool, self.Int = self.tm.BoolType(), self.tm.IntType()

    def fluent(self, name, t, **sig):
        return up.model.Fluent(name, t, None, self.env, **sig)


def build(cls, feats, env):
    """-> start problem (fresh objects in `env`)"""
    from unified_planning.model.timing import StartTiming, EndTiming, ClosedTimeInterval

    v = V(env)
    em = v.em
    feats = set(feats)
    if cls == "MA":
        return build_ma(v, feats)
    kw = {"initial_defaults": {v.Bool: em.FALSE()}} if "defaults" in feats else {}
    if cls == "Problem":
        P = up.model.Problem("P", env, **kw)
    elif cls == "Contingent":
        from unified_planning.model.contingent import ContingentProblem

        P = ContingentProblem("P", env, **kw)
    else:
        from unified_planning.model.htn import HierarchicalProblem

        P = HierarchicalProblem("P", env, **kw)
    x, y = v.fluent("x", v.Int), v.fluent("y", v.Int)
    b, p = v.fluent("b", v.Bool), v.fluent("p", v.Bool, l=v.T)
    P.add_fluent(x, default_initial_value=0)
    P.add_fluent(y, default_initial_value=0)
    if "defaults" in feats:
        P.add_fluent(b)
        P.add_fluent(p)
    else:
        P.add_fluent(b, default_initial_value=False)
        P.add_fluent(p, default_initial_value=False)
    o1, o2 = up.model.Object("o1", v.T, env), up.model.Object("o2", v.T, env)
    P.add_objects([o1, o2])
    a = up.model.InstantaneousAction("a", OrderedDict(l=v.T), env)
    l = a.parameter("l")
    a.add_precondition(p(l))
    a.add_effect(p(l), False)
    a.add_effect(b, True)
    if "ainc" in feats:
        a.add_increase_effect(x, 1)
    if "acond" in feats:
        a.add_effect(x, 2, condition=em.FluentExp(b))
        a.add_increase_effect(y, 1, condition=em.FluentExp(b))
    P.add_action(a)
    P.add_goal(b)
    if "init" in feats:
        P.set_initial_value(x, 2)
        P.set_initial_value(p(o1), True)
    if "tassign" in feats:
        P.add_timed_effect(GST(1), y, 2)
    if "tinc" in feats:
        P.add_increase_effect(GST(1), x, 1)
    if "tcond" in feats:
        P.add_timed_effect(GST(1), y, 2, condition=em.FluentExp(b))
        P.add_increase_effect(GST(1), x, 1, condition=em.FluentExp(b))
    if "tgoal" in feats:
        P.add_timed_goal(ClosedTimeInterval(GST(1), GST(2)), b)
    if "dur" in feats:
        d = up.model.DurativeAction("d", OrderedDict(l=v.T), env)
        d.set_fixed_duration(2)
        d.add_condition(StartTiming(), p(d.parameter("l")))
        d.add_effect(StartTiming(), p(d.parameter("l")), False)
        d.add_effect(EndTiming(), b, True)
        d.add_increase_effect(EndTiming(), y, 1)
        P.add_action(d)
    if "traj" in feats:
        P.add_trajectory_constraint(em.Sometime(em.FluentExp(b)))
    if "costs" in feats:
        P.add_quality_metric(up.model.metrics.MinimizeActionCosts({a: em.Int(1)}, default=em.Int(2), environment=env))
    if "event" in feats:
        ev = up.model.Event("ev", _env=env)
        ev.add_precondition(em.FluentExp(b))
        ev.add_effect(x, 0)
        P.add_event(ev)
    if "epsilon" in feats:
        P.epsilon = Fraction(1, 10)
    if "hidden" in feats and cls == "Contingent":
        from unified_planning.model.contingent import SensingAction

        s = SensingAction("sense", OrderedDict(l=v.T), env)
        s.add_observed_fluent(p(s.parameter("l")))
        P.add_action(s)
        P.add_unknown_initial_constraint(p(o1))
    if "htn" in feats and cls == "Hierarchical":
        from unified_planning.model.htn import Method, Task

        tk = P.add_task(Task("tk", OrderedDict(l=v.T), env))
        m = Method("m", OrderedDict(l=v.T), env)
        m.set_task(tk, m.parameter("l"))
        m.add_subtask(a, m.parameter("l"), ident="s1")  # explicit identifiers: the automatic ones come
        P.add_method(m)  # from a global counter and would differ between replays
        P.task_network.add_subtask(tk, o1, ident="t1")
    return P


def build_ma(v, feats):
    from unified_planning.model.multi_agent import MultiAgentProblem, Agent

    env, em = v.env, v.em
    kw = {"initial_defaults": {v.Bool: em.FALSE()}} if "defaults" in feats else {}
    P = MultiAgentProblem("P", env, **kw)
    x, b = v.fluent("x", v.Int), v.fluent("b", v.Bool)
    P.ma_environment.add_fluent(x, default_initial_value=0)
    if "defaults" in feats:
        P.ma_environment.add_fluent(b)
    else:
        P.ma_environment.add_fluent(b, default_initial_value=False)
    o1, o2 = up.model.Object("o1", v.T, env), up.model.Object("o2", v.T, env)
    P.add_objects([o1, o2])
    for an in ("A", "B"):
        ag = Agent(an, P)
        pos, k = v.fluent("pos", v.Bool, l=v.T), v.fluent("k", v.Int)
        ag.add_public_fluent(pos, default_initial_value=False)
        ag.add_private_fluent(k, default_initial_value=0)
        a = up.model.InstantaneousAction("a", OrderedDict(l=v.T), env)
        a.add_precondition(pos(a.parameter("l")))
        a.add_effect(pos(a.parameter("l")), False)
        a.add_effect(b, True)
        if "ainc" in feats:
            a.add_increase_effect(k, 1)
        ag.add_action(a)
        if "agentgoal" in feats:
            ag.add_public_goal(pos(o2))
        P.add_agent(ag)
    P.add_goal(b)
    if "init" in feats:
        P.set_initial_value(x, 2)
        P.set_initial_value(em.Dot(P.agent("A"), P.agent("A").fluent("pos")(o1)), True)
    return P


# edits ------------------------------------------------------------------------------------------
def apply_edit(P, edit, cls):
    """apply one edit to one side; every object handed to the library is created here, per side"""
    env = P.environment
    v = V(env)
    em = v.em
    if cls == "MA":
        A = P.agent("A")
        if edit == "add_fluent_new":
            P.ma_environment.add_fluent(v.fluent("nf", v.Bool))
        elif edit == "add_fluent_dup":
            P.ma_environment.add_fluent(v.fluent("x", v.Int))
        elif edit == "add_object":
            P.add_object(up.model.Object("no", v.T2, env))
        elif edit in ("add_action_new", "add_action_dup"):
            na = up.model.InstantaneousAction("na" if edit == "add_action_new" else "a", _env=env)
            na.add_effect(P.ma_environment.fluent("b"), True)
            A.add_action(na)
        elif edit == "add_goal":
            P.add_goal(em.Dot(A, A.fluent("pos")(P.object("o2"))))
        elif edit == "set_init":
            P.set_initial_value(P.ma_environment.fluent("x"), 3)
        elif edit == "act_assign":
            A.action("a").add_effect(A.fluent("k"), 1)
        elif edit == "act_inc":
            A.action("a").add_increase_effect(A.fluent("k"), 1)
        elif edit == "agent_goal":
            A.add_public_goal(A.fluent("pos")(P.object("o1")))
        elif edit == "agent_fluent_new":
            A.add_private_fluent(v.fluent("nk", v.Bool))
        else:
            raise ValueError(edit)
        return
    x, y, b, p = (P.fluent(n) for n in "xybp")
    if edit == "add_fluent_new":
        P.add_fluent(v.fluent("nf", v.Bool))
    elif edit == "add_fluent_dup":
        P.add_fluent(v.fluent("x", v.Int))
    elif edit == "add_object":
        P.add_object(up.model.Object("no", v.T2, env))
    elif edit in ("add_action_new", "add_action_dup"):
        na = up.model.InstantaneousAction("na" if edit == "add_action_new" else "a", _env=env)
        na.add_effect(b, True)
        P.add_action(na)
    elif edit == "add_goal":
        P.add_goal(p(P.object("o2")))
    elif edit == "tset_x":
        P.add_timed_effect(GST(1), x, 1)
    elif edit == "tset_y":
        P.add_timed_effect(GST(1), y, 1)
    elif edit == "tinc_x":
        P.add_increase_effect(GST(1), x, 1)
    elif edit == "add_timed_goal":
        P.add_timed_goal(GST(2), b)
    elif edit == "add_timed_goal_same":  # the interval the "tgoal" start problems already use
        from unified_planning.model.timing import ClosedTimeInterval

        P.add_timed_goal(ClosedTimeInterval(GST(1), GST(2)), p(P.object("o2")))
    elif edit == "add_traj":
        P.add_trajectory_constraint(em.AtMostOnce(em.FluentExp(b)))
    elif edit == "add_metric":
        P.add_quality_metric(up.model.metrics.MinimizeActionCosts({P.action("a"): em.Int(3)}, environment=env))
    elif edit == "set_init":
        P.set_initial_value(x, 3)
    elif edit == "act_assign":
        P.action("a").add_effect(x, 1)
    elif edit == "act_inc":
        P.action("a").add_increase_effect(x, 1)
    elif edit == "dact_assign":  # only start problems with the durative action `d` have it
        from unified_planning.model.timing import EndTiming

        P.action("d").add_effect(EndTiming(), y, 1)
    elif edit == "dact_inc":
        from unified_planning.model.timing import EndTiming

        P.action("d").add_increase_effect(EndTiming(), x, 1)
    else:
        raise ValueError(edit)


def attempt(P, edit, cls):
    try:
        apply_edit(P, edit, cls)
        return "ok"
    except Exception as e:  # noqa: BLE001 - the exception type is the observation
        return type(e).__name__


# dump -------------------------------------------------------------------------------------------
def _bk_action(a):
    fa, fi = getattr(a, "_fluents_assigned", None), getattr(a, "_fluents_inc_dec", None)
    if fa is None:
        return (a.name, "-")
    if isinstance(fi, set):
        return (a.name, tuple(sorted("%s=%s" % kv for kv in fa.items())), tuple(sorted(map(str, fi))))
    return (
        a.name,
        tuple(sorted("%s:%s=%s" % (t, k, w) for t, m in fa.items() for k, w in m.items())),
        tuple(sorted("%s:%s" % (t, k) for t, s in fi.items() for k in s)),
    )


def _fs(owner):
    return (
        tuple(sorted("%s=%s" % (f.name, w) for f, w in owner._fluents_defaults.items())),
        tuple(sorted("%s=%s" % (t, w) for t, w in owner._initial_defaults.items())),
    )


def dump(P, cls):
    try:
        return _dump(P, cls)
    except Exception as e:  # noqa: BLE001 - a model that cannot even be printed is a state of its own
        return ("dump-raises", type(e).__name__, str(e)[:200])


def _dump(P, cls):
    parts = [type(P).__name__, repr(P)]
    parts.append(tuple(sorted("%s=%s" % kv for kv in P.explicit_initial_values.items())))
    parts.append(tuple(str(g) for g in P.goals))
    parts.append(tuple(str(t) for t in P.user_types))
    if cls == "MA":
        parts.append(_fs(P.ma_environment))
        parts.append(tuple(sorted("%s=%s" % (t, w) for t, w in P._initial_defaults.items())))
        for ag in P.agents:
            parts.append((ag.name, _fs(ag), tuple(_bk_action(a) for a in ag.actions), tuple(map(str, ag.public_goals)), tuple(map(str, ag.private_goals)), tuple(f.name for f in ag.public_fluents)))
        return tuple(parts)
    parts.append(_fs(P))
    parts.append(tuple(sorted("%s:%s=%s" % (t, k, w) for t, m in P._fluents_assigned.items() for k, w in m.items())))
    parts.append(tuple(sorted("%s:%s" % (t, k) for t, s in P._fluents_inc_dec.items() for k in s)))
    parts.append(tuple(_bk_action(a) for a in list(P.actions) + list(P.events) + list(P.processes)))
    parts.append((str(P.epsilon), P.discrete_time, P.self_overlapping))
    parts.append(tuple(map(str, P.trajectory_constraints)))
    parts.append(tuple(map(str, P.quality_metrics)))
    parts.append(tuple(sorted((str(i), tuple(map(str, g))) for i, g in P.timed_goals.items())))
    if cls == "Contingent":
        parts.append(tuple(sorted(map(str, P.hidden_fluents))))
        parts.append(tuple(tuple(map(str, c)) for c in P.or_constraints))
        parts.append(tuple(tuple(map(str, c)) for c in P.oneof_constraints))
    return tuple(parts)


def _ddiff(a, b):
    out = []
    for i, (p, q) in enumerate(zip(a, b)):
        if p != q:
            if isinstance(p, str):
                pl, ql = p.splitlines(), q.splitlines()
                d = [l for l in ql if l not in pl][:3] + ["-" + l for l in pl if l not in ql][:3]
                out.append("repr: %s" % d)
            else:
                out.append("part %d: %s -> %s" % (i, p, q))
    return "; ".join(out)[:600]


# judging one history ------------------------------------------------------------------------------
def eq_status(o, c):
    """-> None if equal both ways; 'undefined' if o == o raises; else description"""
    try:
        r1, r2 = (c == o), (o == c)
    except Exception as e:  # noqa: BLE001
        try:
            o == o
        except Exception:  # noqa: BLE001
            return "undefined"
        return "raises:" + type(e).__name__
    if r1 and r2:
        return None
    return "clone==original is %s, original==clone is %s" % (r1, r2)


def kind_status(o, c):
    try:
        ko, kc = o.kind, c.kind
    except Exception as e:  # noqa: BLE001
        return "kind raises " + type(e).__name__
    if ko == kc:
        return None
    fo, fc = set(ko.features), set(kc.features)
    return "kind differs: only original %s, only clone %s" % (sorted(fo - fc), sorted(fc - fo))


class Res:
    pass


def judge(env, cls, feats, hist):
    """replay; judge the LAST step (or the root when hist is empty)"""
    r = Res()
    r.viols = []
    r.key = None
    r.outcome = "root"
    r.nontrivial = False
    try:
        o = build(cls, feats, env)
    except Exception as e:  # noqa: BLE001 - a feature subset that cannot be built (minimisation only)
        r.viols.append(("build-fails", repr(e)))
        return r
    try:
        c = o.clone()
    except Exception as e:  # noqa: BLE001
        r.viols.append(("clone-raises:" + type(e).__name__, "clone() raised %r" % (e,)))
        return r
    before = None
    ro = rc = None
    for i, (edit, side) in enumerate(hist):
        if i == len(hist) - 1:
            before = (dump(o, cls), dump(c, cls))
        ro = attempt(o, edit, cls) if side in "bo" else None
        rc = attempt(c, edit, cls) if side in "bc" else None
    do, dc = dump(o, cls), dump(c, cls)
    r.key = (do, dc)
    if not hist:
        k = kind_status(o, c)
        e = eq_status(o, c)
        if k:  # __eq__ compares the kinds, so inequality is a consequence
            r.viols.append(("root:kind", "fresh clone: " + k))
        elif e == "undefined":
            r.outcome = "root:eq-undefined"
        elif e is not None:
            r.viols.append(("root:not-equal", "fresh clone: %s; %s" % (e, _ddiff(do, dc))))
        return r
    edit, side = hist[-1]
    if side == "b":
        r.outcome = "both:%s/%s" % (ro, rc)
        bk = slice(7, None) if cls == "MA" else slice(6, 9)  # dump parts holding conflict bookkeeping
        r.nontrivial = ro != "ok" or rc != "ok" or before[0][bk] != do[bk]
        if ro != rc:
            r.viols.append(("both:outcome", "%s on the original: %s, on the clone: %s" % (edit, ro, rc)))
            return r
        k = kind_status(o, c)
        e = eq_status(o, c)
        if k:
            r.viols.append(("both:kind", "after %s on both: %s" % (edit, k)))
        elif e == "undefined":
            r.outcome += ":eq-undefined"
        elif e is not None:
            r.viols.append(("both:not-equal", "after %s on both: %s; %s" % (edit, e, _ddiff(do, dc))))
    else:
        res = ro if side == "o" else rc
        r.outcome = "one-sided:%s" % res
        r.nontrivial = res == "ok"
        other_before, other_after = (before[1], dc) if side == "o" else (before[0], do)
        if other_before != other_after:
            r.viols.append(("indep", "%s on the %s changed the %s: %s" % (edit, "original" if side == "o" else "clone", "clone" if side == "o" else "original", _ddiff(other_before, other_after))))
    return r


# fingerprints ---------------------------------------------------------------------------------------
def _fails(env, cls, feats, hist, sub):
    return any(s == sub for s, _ in judge(env, cls, feats, hist).viols)


def minimise(env, cls, feats, hist, sub):
    """-> [(feats, hist)]: steps are dropped greedily; then every SINGLE feature that alone keeps
    the sub-oracle failing is a root cause of its own (one fingerprint each); if no single feature
    does, features are dropped greedily."""
    feats, hist = tuple(feats), tuple(hist)
    changed = True
    while changed:
        changed = False
        for i in range(len(hist)):
            cand = hist[:i] + hist[i + 1 :]
            if _fails(env, cls, feats, cand, sub):
                hist, changed = cand, True
                break
    if _fails(env, cls, (), hist, sub):
        return [((), hist)]
    singles = [f for f in feats if _fails(env, cls, (f,), hist, sub)]
    if singles:
        return [((f,), hist) for f in singles]
    changed = True
    while changed:
        changed = False
        for f in feats:
            cand = tuple(g for g in feats if g != f)
            if _fails(env, cls, cand, hist, sub):
                feats, changed = cand, True
                break
    return [(feats, hist)]


def label(cls, feats, hist):
    return "%s|%s|%s" % (cls, "+".join(feats) or "base", ";".join("%s@%s" % (e, "both" if sd == "b" else "one") for e, sd in hist) or "-")


# exploration ------------------------------------------------------------------------------------------
def children(hist, cls, lim):
    n = len(hist)
    sides = [s for _, s in hist]
    allb = all(s == "b" for s in sides)
    out = []

    def alphabet(bound):
        if lim["reduced_last"] and n + 1 == bound:
            return [e for e in edits_of(cls) if e in CORE_EDITS]
        return edits_of(cls)

    if allb:
        if n + 1 <= lim["LB"]:
            out.extend(hist + ((e, "b"),) for e in alphabet(lim["LB"]))
        if n + 1 <= lim["LO"]:
            for e in alphabet(lim["LO"]):
                out.append(hist + ((e, "o"),))
                out.append(hist + ((e, "c"),))
    elif n + 1 <= lim["LO"]:
        out.extend(hist + ((e, sides[-1]),) for e in alphabet(lim["LO"]))
    return out


def in_limits(hist, lim):
    """is `hist` a node of the space generated by `children` under `lim`?"""
    if not hist:
        return True
    bound = lim["LB"] if all(s == "b" for _, s in hist) else lim["LO"]
    if len(hist) > bound:
        return False
    if len(hist) == bound and lim["reduced_last"] and hist[-1][0] not in CORE_EDITS:
        return False
    return True


def shards(tier, seed):
    """level 0 = the quick space; level 1 (thorough only) = the deeper space (its shards re-traverse the
    quick space for de-duplication but judge and count only what lies beyond it)."""
    out = []
    for level, t in enumerate(["quick"] if tier == "quick" else ["quick", "thorough"]):
        lim = limits(t)
        for ri, (cls, feats) in enumerate(REPS):
            for k, h in enumerate(children((), cls, lim)):
                out.append({"level": level, "rep": ri, "first": tj(h[0]), "root": k == 0 and level == 0, "limits": t})
    return out


def make_env(cls):
    """HierarchicalProblem only works in the global environment (TaskNetwork() and Subtask() are
    created without an environment); every other class is exercised in a NON-global one."""
    env = up.environment.Environment()
    up.environment.GLOBAL_ENVIRONMENT = env if cls == "Hierarchical" else up.environment.Environment()
    return env


MAX_MINIMISED = 6  # per shard and sub-oracle; BFS order reports the shortest histories first


def report(acc, env, cls, feats, hist, viols):
    n = acc.__dict__.setdefault("_minimised", {})
    for sub, what in viols:
        acc.count("violating_histories")
        n[sub] = n.get(sub, 0) + 1
        if n[sub] > MAX_MINIMISED:
            acc.count("violating_histories_not_minimised")
            continue
        for mf, mh in minimise(env, cls, feats, hist, sub):
            acc.violation("%s|%s" % (sub, label(cls, mf, mh)), what, {"cls": cls, "feats": list(mf), "hist": tj(mh), "found_on": [list(feats), tj(hist)]})


def run_shard(shard, tier, seed):
    acc = Acc()
    lim = limits(shard.get("limits", tier))
    below = limits("quick") if shard.get("limits") == "thorough" else None  # already judged at level 0
    cls, feats = REPS[shard["rep"]]
    env = make_env(cls)
    root = judge(env, cls, feats, ())
    if shard.get("root"):
        acc.count("transitions")
        acc.outcome(root.outcome)
        if root.viols:
            report(acc, env, cls, feats, (), root.viols)
        else:
            acc.count("traces")
            acc.count("states")
    if root.viols:
        acc.count("shards_skipped_root_violated")
        return acc  # nothing below a broken clone is meaningful; the root shard reports it
    seen = set()
    frontier = [(tuple(shard["first"]),)]
    hist = ()
    while frontier:
        nxt = []
        for hist in frontier:
            r = judge(env, cls, feats, hist)
            old = below is not None and in_limits(hist, below)
            if r.viols:
                if not old:
                    acc.count("transitions")
                    report(acc, env, cls, feats, hist, r.viols)
                continue
            if not old:
                acc.count("transitions")
                acc.outcome(r.outcome)
                if r.nontrivial:
                    acc.count("nontrivial")
                acc.count("traces")
            if r.key in seen:
                continue
            seen.add(r.key)
            if not old:
                acc.count("states")
            nxt.extend(children(hist, cls, lim))
        frontier = nxt
    acc.sample({"start": [cls, list(feats)], "history": tj(hist)})
    return acc


def replay(case):
    cls, feats, hist = case["cls"], tuple(case["feats"]), fj(case["hist"])
    env = make_env(cls)
    out = []
    for sub, what in judge(env, cls, feats, hist).viols:
        for mf, mh in minimise(env, cls, feats, hist, sub):
            out.append(("%s|%s" % (sub, label(cls, mf, mh)), what))
    return out
