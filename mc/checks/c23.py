"""C23 - the model only stores type-correct values (DESIGN 4/C23).

Exhaustive product  (storing call) x (target type) x (value), each case in a fresh
environment, as a depth-2 history: the storing call under test, then one more LEGAL call.

Oracle (only what the statement says)
  accepted   the value the model now holds for the fluent / parameter is type-compatible with
             it by the library's own Type.is_compatible, constants additionally lie in the
             target's domain (bool / integer or rational within bounds / object of a subtype),
             and initial values (explicit, per-fluent default, per-type default) and
             action-instance parameters are constants; Problem.initial_values afterwards holds
             only such constants
  rejected   the call raised a unified_planning error (UPException), the structural dump of the
             model is unchanged, and the following legal call leaves the same model as on a
             model that never saw the rejected call
Rejecting a compatible value is never a violation (the statement does not demand acceptance).
"""
from __future__ import annotations

from fractions import Fraction

import unified_planning as up
from unified_planning.exceptions import UPException

from mc.kernel.runner import Acc
from mc.gen.spec import fresh_env, to_spec
from mc.gen import problem as gp

PROPERTY = "C23"
LEVEL = "exploration"
RULE = (
    "complete product of storing calls (Problem(initial_defaults), add_fluent(default_initial_value), "
    "set_initial_value on 0-ary and 1-ary fluents, InstantaneousAction/DurativeAction/Problem-timed "
    "assign, increase and decrease effects, ActionInstance, MultiAgentProblem set_initial_value and "
    "agent/environment fluent defaults; two-call histories: unconditional legal assignment then conditional "
    "assignment of the same fluent, per-type default keyed by one of 8 types then add_fluent of the target "
    "type) x target types x values (constants of every type, fluent, "
    "parameter and arithmetic expressions), each followed by one legal call; non-trivial = the value "
    "is incompatible with the target or is not a constant where a constant is required"
)
ASSUMPTIONS = [
    "type compatibility is the library's Type.is_compatible (ranges overlap / subtype); constants are "
    "also checked for domain membership",
    "a rejection of a compatible value is allowed",
]

TYPES = {
    "bool": ("bool",),
    "int03": ("int", 0, 3),
    "int": ("int", None, None),
    "real11": ("real", (-1, 1), (1, 1)),
    "real": ("real", None, None),
    "T": ("user", "T"),
    "S": ("user", "S"),
}
NUMERIC = ("int03", "int", "real11", "real")
# key types of the per-type defaults handed to Problem(initial_defaults=...) in the
# "initial_defaults_key:<k>" contexts (the fluent added afterwards has the case's target type)
KEY_TYPES = ["bool", "int03", "int010", "int", "real11", "real", "T", "S"]
LEGAL = {"bool": "true", "int03": "0", "int": "0", "real11": "0", "real": "0", "T": "o1", "S": "s1"}
CONSTS = ["true", "false", "5", "0", "-1", "3", "1/2", "7/2", "o1", "s1", "c1"]
SRC = list(TYPES) + ["C"]
VALUES = CONSTS + ["f:" + t for t in SRC] + ["p:" + t for t in SRC] + ["f:int03+1", "f:real/2"]
# thorough tier: the same constants handed over as plain Python / model objects (auto_promote path)
PY_VALUES = ["py:True", "py:5", "py:-1", "py:0.5", "py:7/2", "py:o1", "py:c1", "py:f_int", "py:p_S"]

# (context, needs_constant, kind)   kind: how the target is declared
CONTEXTS = [
    ("initial_defaults", True),
    ("add_fluent_default", True),
    ("set_initial_value", True),
    ("set_initial_value_arg", True),
    ("inst.add_effect", False),
    ("inst.add_effect_cond", False),
    ("inst.add_increase_effect", False),
    ("inst.add_decrease_effect", False),
    ("dur.add_effect", False),
    ("dur.add_increase_effect", False),
    ("dur.add_decrease_effect", False),
    ("prob.add_timed_effect", False),
    ("prob.add_increase_effect", False),
    ("prob.add_decrease_effect", False),
    ("ActionInstance", True),
    ("ma.set_initial_value", True),
    ("ma.env_fluent_default", True),
    ("ma.agent_fluent_default", True),
    ("ma.initial_defaults", True),
    # two-call histories
    ("inst.add_effect_cond_after", False),  # legal unconditional assignment first, then a conditional one
    ("dur.add_effect_cond_after", False),
    ("prob.add_timed_effect_cond_after", False),
] + [("initial_defaults_key:" + k, True) for k in KEY_TYPES]  # per-type default keyed by k, fluent of the target type
NEEDS_CONST = dict(CONTEXTS)
# storing calls that run the same library code share one fingerprint site
SITE = {
    "initial_defaults": "initial_defaults",
    "ma.initial_defaults": "initial_defaults",
    "add_fluent_default": "add_fluent(default_initial_value)",
    "ma.env_fluent_default": "add_fluent(default_initial_value)",
    "ma.agent_fluent_default": "add_fluent(default_initial_value)",
    "set_initial_value": "Problem.set_initial_value",
    "set_initial_value_arg": "Problem.set_initial_value",
    "ma.set_initial_value": "MultiAgentProblem.set_initial_value",
    "inst.add_effect_cond": "inst.add_effect",
    "inst.add_effect_cond_after": "inst.add_effect",
    "dur.add_effect_cond_after": "dur.add_effect",
    "prob.add_timed_effect_cond_after": "prob.add_timed_effect",
}
SITE.update({"initial_defaults_key:" + k: "initial_defaults(other type)" for k in KEY_TYPES})


def site(ctx):
    return SITE.get(ctx, ctx)


def bounds(tier):
    return {
        "contexts": [c for c, _ in CONTEXTS],
        "types": {k: list(map(str, v)) for k, v in TYPES.items()},
        "values": VALUES + (PY_VALUES if tier == "thorough" else []),
    }


def cases(tier="quick"):
    out = []
    for ctx, _ in CONTEXTS:
        for tn in TYPES:
            if ("increase" in ctx or "decrease" in ctx) and tn not in NUMERIC:
                continue  # increase / decrease of non-numeric fluents is outside the statement
            for vl in VALUES + (PY_VALUES if tier == "thorough" else []):
                out.append((ctx, tn, vl))
    return out


def shards(tier, seed):
    cs = cases(tier)
    k = 16
    return [{"level": 0, "cases": cs[(i + seed) % k :: k]} for i in range(k)]


# world -------------------------------------------------------------------------------------
class World:
    def __init__(self):
        self.env = env = fresh_env()
        self.tm = tm = env.type_manager
        self.em = env.expression_manager
        T = tm.UserType("T")
        S = tm.UserType("S", T)
        C = tm.UserType("C")
        self.ut = {"T": T, "S": S, "C": C}
        self.objs = {
            "o1": up.model.Object("o1", T, env),
            "s1": up.model.Object("s1", S, env),
            "c1": up.model.Object("c1", C, env),
        }
        self.src = {t: up.model.Fluent("f_" + t, self.type(t), environment=env) for t in SRC}
        self.srcdef = {"bool": False, "int03": 0, "int": 0, "real11": 0, "real": 0, "T": "o1", "S": "s1", "C": "c1"}
        self.params = None

    def type(self, tn):
        if tn == "C":
            return self.ut["C"]
        if tn == "int010":
            return self.tm.IntType(0, 10)
        ts = TYPES[tn]
        tm = self.tm
        if ts[0] == "bool":
            return tm.BoolType()
        if ts[0] == "int":
            return tm.IntType(ts[1], ts[2])
        if ts[0] == "real":
            f = lambda b: None if b is None else Fraction(b[0], b[1])
            return tm.RealType(f(ts[1]), f(ts[2]))
        return self.ut[ts[1]]

    def ptypes(self):
        from collections import OrderedDict

        return OrderedDict(("p_" + t, self.type(t)) for t in SRC)

    def value(self, vl):
        em = self.em
        if vl == "true":
            return em.TRUE()
        if vl == "false":
            return em.FALSE()
        if vl in ("5", "0", "-1", "3"):
            return em.Int(int(vl))
        if vl == "1/2":
            return em.Real(Fraction(1, 2))
        if vl == "7/2":
            return em.Real(Fraction(7, 2))
        if vl in self.objs:
            return em.ObjectExp(self.objs[vl])
        if vl == "f:int03+1":
            return em.Plus(em.FluentExp(self.src["int03"]), em.Int(1))
        if vl == "f:real/2":
            return em.Div(em.FluentExp(self.src["real"]), em.Int(2))
        if vl.startswith("py:"):
            return {
                "py:True": True, "py:5": 5, "py:-1": -1, "py:0.5": 0.5, "py:7/2": Fraction(7, 2),
                "py:o1": self.objs["o1"], "py:c1": self.objs["c1"], "py:f_int": self.src["int"],
                "py:p_S": self.params["p_S"],
            }[vl]
        if vl.startswith("f:"):
            return em.FluentExp(self.src[vl[2:]])
        if vl.startswith("p:"):
            return em.ParameterExp(self.params["p_" + vl[2:]])
        raise ValueError(vl)

    def const(self, c):
        if isinstance(c, str):
            return self.em.ObjectExp(self.objs[c])
        if isinstance(c, bool):
            return self.em.TRUE() if c else self.em.FALSE()
        return self.em.Int(c)

    def problem(self, cls=None, **kw):
        p = (cls or up.model.Problem)("P", self.env, **kw)
        for o in self.objs.values():
            p.add_object(o)
        for t, f in self.src.items():
            p.add_fluent(f, default_initial_value=self.const(self.srcdef[t]))
        return p


def in_domain(tn, node):
    """constant node lies in the domain of the target type (value level, not type level)"""
    ts = TYPES[tn]
    if ts[0] == "bool":
        return node.is_bool_constant()
    if ts[0] == "user":
        if not node.is_object_exp():
            return False
        t = node.object().type
        while t is not None:
            if t.name == ts[1]:
                return True
            t = t.father
        return False
    if node.is_int_constant():
        v = Fraction(node.constant_value())
    elif node.is_real_constant() and ts[0] == "real":
        v = Fraction(node.constant_value())
    else:
        return False
    lo = None if ts[1] is None else (Fraction(*ts[1]) if isinstance(ts[1], tuple) else Fraction(ts[1]))
    hi = None if ts[2] is None else (Fraction(*ts[2]) if isinstance(ts[2], tuple) else Fraction(ts[2]))
    return (lo is None or lo <= v) and (hi is None or v <= hi)


# model dump --------------------------------------------------------------------------------
def dump_problem(p):
    d = gp.problem_to_spec(p)
    d["initial_defaults"] = tuple(sorted((str(k), to_spec(v)) for k, v in p.initial_defaults.items()))
    d["fluents_defaults"] = tuple(sorted((f.name, to_spec(v)) for f, v in p.fluents_defaults.items()))
    d["bk"] = (
        tuple(sorted((str(t), to_spec(k), to_spec(v)) for t, m in p._fluents_assigned.items() for k, v in m.items())),
        tuple(sorted((str(t), to_spec(k)) for t, s in p._fluents_inc_dec.items() for k in s)),
    )
    acts = []
    for a in p.actions:
        if isinstance(a, up.model.InstantaneousAction):
            acts.append((a.name, tuple(sorted(map(repr, a._fluents_assigned.items()))), tuple(sorted(map(repr, a._fluents_inc_dec)))))
        else:
            acts.append((a.name, repr(sorted((str(t), sorted(map(repr, m.items()))) for t, m in a._fluents_assigned.items() if m)),
                         repr(sorted((str(t), sorted(map(repr, s))) for t, s in a._fluents_inc_dec.items() if s))))
    d["action_bk"] = tuple(acts)
    return repr(sorted(d.items(), key=lambda kv: kv[0]))


def dump_ma(p):
    parts = [repr(p)]
    parts.append(repr(sorted((str(k), str(v)) for k, v in p.explicit_initial_values.items())))
    parts.append(repr(sorted((f.name, str(v)) for f, v in p.ma_environment.fluents_defaults.items())))
    parts.append(repr(sorted((str(k), str(v)) for k, v in p.ma_environment.initial_defaults.items())))
    for ag in p.agents:
        parts.append(repr(sorted((f.name, str(v)) for f, v in ag.fluents_defaults.items())))
        parts.append(repr(sorted((str(k), str(v)) for k, v in ag.initial_defaults.items())))
    return "\n".join(parts)


# one scenario ---------------------------------------------------------------------------------
class Outcome:
    def __init__(self):
        self.accepted = None  # True / False
        self.exc = None
        self.stored = None  # FNode the model holds for the target (when accepted)
        self.target_type = None
        self.before = self.after = self.final = None
        self.initial_values = None  # list of (fluent exp, value) or ("raises", exc)
        self.note = None


def scenario(ctx, tn, vl, do_store=True):
    """Build the model, perform (or skip) the storing call, then the legal follow-up call."""
    from unified_planning.model.timing import StartTiming, GlobalStartTiming
    from unified_planning.plans import ActionInstance

    w = World()
    em = w.em
    o = Outcome()
    tt = w.type(tn)
    o.target_type = tt
    tgt = up.model.Fluent("tgt", tt, environment=w.env)
    tgt1 = up.model.Fluent("tgt", tt, [up.model.Parameter("a", w.ut["T"], w.env)], w.env)
    ma = ctx.startswith("ma.")
    dump = dump_ma if ma else dump_problem

    # a parameter pool for "p:" values: parameters of an action of the model (or of a spare one)
    spare = up.model.InstantaneousAction("spare", w.ptypes(), w.env)
    w.params = {p.name: p for p in spare.parameters}

    def attempt(call):
        try:
            call()
            o.accepted = True
        except Exception as e:  # noqa: BLE001 - the kind of exception is part of the verdict
            o.accepted = False
            o.exc = e

    if ma:
        from unified_planning.model.multi_agent import MultiAgentProblem, Agent

        if ctx == "ma.initial_defaults":
            if do_store:
                try:
                    P = MultiAgentProblem("P", w.env, initial_defaults={tt: w.value(vl)})
                except Exception as e:  # noqa: BLE001
                    o.accepted, o.exc = False, e
                    return o
            else:
                P = MultiAgentProblem("P", w.env)
        else:
            P = MultiAgentProblem("P", w.env)
        for ob in w.objs.values():
            P.add_object(ob)
        ag = Agent("ag", P)
        P.add_agent(ag)
        for t, f in w.src.items():
            P.ma_environment.add_fluent(f, default_initial_value=w.const(w.srcdef[t]))
        o.before = dump(P)
        if ctx == "ma.initial_defaults":
            if do_store:
                attempt(lambda: P.ma_environment.add_fluent(tgt))
                if o.accepted:
                    o.stored = P.ma_environment.fluents_defaults.get(tgt)
                    if o.stored is None:
                        o.note = "no default stored"
        elif ctx == "ma.set_initial_value":
            P.ma_environment.add_fluent(tgt)
            o.before = dump(P)
            if do_store:
                attempt(lambda: P.set_initial_value(em.FluentExp(tgt), w.value(vl)))
                if o.accepted:
                    o.stored = P.explicit_initial_values.get(em.FluentExp(tgt))
        elif ctx == "ma.env_fluent_default":
            if do_store:
                attempt(lambda: P.ma_environment.add_fluent(tgt, default_initial_value=w.value(vl)))
                if o.accepted:
                    o.stored = P.ma_environment.fluents_defaults.get(tgt)
        elif ctx == "ma.agent_fluent_default":
            if do_store:
                attempt(lambda: ag.add_public_fluent(tgt, default_initial_value=w.value(vl)))
                if o.accepted:
                    o.stored = ag.fluents_defaults.get(tgt)
        o.after = dump(P)
        # legal follow-up
        extra = up.model.Fluent("extra", w.tm.BoolType(), environment=w.env)
        P.ma_environment.add_fluent(extra, default_initial_value=False)
        P.set_initial_value(em.FluentExp(w.src["int"]), 1)
        o.final = dump(P)
        return o

    # ---- single-agent problems
    if ctx == "initial_defaults":
        if do_store:
            try:
                P = w.problem(initial_defaults={tt: w.value(vl)})
            except Exception as e:  # noqa: BLE001
                o.accepted, o.exc = False, e
                return o
        else:
            P = w.problem()
    elif ctx.startswith("initial_defaults_key:"):
        # the constructor call is preparatory here: a rejected or pointless one ends the case
        try:
            P = w.problem(initial_defaults={w.type(ctx.split(":")[1]): w.value(vl)})
        except UPException:
            o.note = "constructor rejected"
            return o
    else:
        P = w.problem()
    inst = up.model.InstantaneousAction("a", w.ptypes(), w.env)
    dur = up.model.DurativeAction("d", w.ptypes(), w.env)
    dur.set_fixed_duration(1)
    tpar = up.model.InstantaneousAction("tp", {"v": tt}, w.env)  # one parameter of the target type
    if ctx.startswith("inst."):
        w.params = {p.name: p for p in inst.parameters}
    elif ctx.startswith("dur."):
        w.params = {p.name: p for p in dur.parameters}
    for a in (inst, dur, tpar):
        P.add_action(a)

    fe = em.FluentExp(tgt)
    cond = em.FluentExp(w.src["bool"])
    if ctx == "initial_defaults":
        o.before = dump(P)
        if do_store:
            attempt(lambda: P.add_fluent(tgt))
            if o.accepted:
                o.stored = P.fluents_defaults.get(tgt)
                if o.stored is None:
                    o.note = "no default stored"
    elif ctx.startswith("initial_defaults_key:"):
        o.before = dump(P)
        if do_store:
            attempt(lambda: P.add_fluent(tgt))
            if o.accepted:
                o.stored = P.fluents_defaults.get(tgt)
                if o.stored is None:
                    o.note = "no default stored"
    elif ctx == "add_fluent_default":
        o.before = dump(P)
        if do_store:
            attempt(lambda: P.add_fluent(tgt, default_initial_value=w.value(vl)))
            if o.accepted:
                o.stored = P.fluents_defaults.get(tgt)
    elif ctx == "set_initial_value":
        P.add_fluent(tgt)
        o.before = dump(P)
        if do_store:
            attempt(lambda: P.set_initial_value(fe, w.value(vl)))
            if o.accepted:
                o.stored = P.explicit_initial_values.get(fe)
    elif ctx == "set_initial_value_arg":
        P.add_fluent(tgt1)
        fe1 = em.FluentExp(tgt1, (em.ObjectExp(w.objs["s1"]),))
        o.before = dump(P)
        if do_store:
            attempt(lambda: P.set_initial_value(fe1, w.value(vl)))
            if o.accepted:
                o.stored = P.explicit_initial_values.get(fe1)
    elif ctx == "ActionInstance":
        o.before = dump(P)
        if do_store:
            box = []
            attempt(lambda: box.append(ActionInstance(tpar, (w.value(vl),))))
            if o.accepted:
                o.stored = box[0].actual_parameters[0]
    else:
        P.add_fluent(tgt)
        holder, meth = ctx.split(".")
        after = meth.endswith("_after")
        meth = meth[: -len("_after")] if after else meth
        if after:  # history: a legal unconditional assignment of the same fluent comes first
            legal = w.value(LEGAL[tn])
            if holder == "inst":
                inst.add_effect(fe, legal)
            elif holder == "dur":
                dur.add_effect(StartTiming(), fe, legal)
            else:
                P.add_timed_effect(GlobalStartTiming(1), fe, legal)
        o.before = dump(P)
        if holder == "inst":
            fn = getattr(inst, meth.replace("_cond", ""))
            args = [fe, None]
            last = lambda: inst.effects[-1]
        elif holder == "dur":
            fn = getattr(dur, meth.replace("_cond", ""))
            args = [StartTiming(), fe, None]
            last = lambda: dur.effects[StartTiming()][-1]
        else:
            fn = getattr(P, meth.replace("_cond", ""))
            args = [GlobalStartTiming(1), fe, None]
            last = lambda: P.timed_effects[GlobalStartTiming(1)][-1]
        kw = {"condition": cond} if meth.endswith("_cond") else {}
        if do_store:
            def call():
                args[-1] = w.value(vl)
                fn(*args, **kw)

            attempt(call)
            if o.accepted:
                o.stored = last().value
    o.after = dump(P)
    if o.accepted and ctx != "ActionInstance" and not ctx.split(".")[0] in ("inst", "dur", "prob"):
        try:
            o.initial_values = list(P.initial_values.items())
        except Exception as e:  # noqa: BLE001
            o.initial_values = ("raises", e)
    # legal follow-up call(s)
    extra = up.model.Fluent("extra", w.tm.BoolType(), environment=w.env)
    P.add_fluent(extra, default_initial_value=False)
    P.set_initial_value(em.FluentExp(w.src["int"]), 1)
    inst.add_effect(em.FluentExp(w.src["bool"]), True)
    dur.add_effect(StartTiming(), em.FluentExp(w.src["bool"]), True)
    P.add_timed_effect(GlobalStartTiming(2), em.FluentExp(w.src["bool"]), True)
    o.final = dump(P)
    return o


def check_case(ctx, tn, vl):
    """-> (list of (sub-oracle, what), outcome label, nontrivial)"""
    out = []
    o = scenario(ctx, tn, vl)
    if o.note == "constructor rejected":
        return [], "preparatory-call-rejected", False
    need_const = NEEDS_CONST[ctx]
    assign_like = not ("increase" in ctx or "decrease" in ctx)
    # classify the input by the library's own notion (for vacuity accounting only)
    w = World()
    w.params = {p.name: p for p in up.model.InstantaneousAction("spare", w.ptypes(), w.env).parameters}
    (v,) = w.em.auto_promote(w.value(vl))
    compat = w.type(tn).is_compatible(v.type)
    should_reject = (not compat) or (need_const and not v.is_constant()) or (v.is_constant() and assign_like and not in_domain(tn, v))
    if o.accepted:
        label = "accepted"
        s = o.stored
        if s is None:
            if o.note == "no default stored":
                label = "accepted:not-stored"
            else:
                out.append(("stored-missing", "call accepted but the model holds no value for the target"))
        else:
            why = []
            if not o.target_type.is_compatible(s.type):
                why.append("type %s is not compatible with %s" % (s.type, o.target_type))
            elif s.is_constant() and assign_like and not in_domain(tn, s):
                why.append("constant %s is outside the domain of %s" % (s, o.target_type))
            if need_const and not s.is_constant():
                why.append("%s is not a constant" % (s,))
            if why:
                sub = "accepted:" + ("incompatible" if "compatible" in why[0] or "outside" in why[0] else "non-constant")
                out.append((sub, "%s(%s <- %s) accepted and stored %s: %s" % (ctx, tn, vl, s, "; ".join(why))))
        if o.initial_values is not None and not out:
            if isinstance(o.initial_values, tuple):
                out.append(("initial_values:raises:" + type(o.initial_values[1]).__name__, "initial_values raised %r after an accepted call" % (o.initial_values[1],)))
            else:
                for fexp, val in o.initial_values:
                    if not val.is_constant() or not fexp.type.is_compatible(val.type):
                        out.append(("initial_values", "initial_values maps %s to %s" % (fexp, val)))
                        break
    else:
        label = "rejected:" + type(o.exc).__name__
        if not isinstance(o.exc, UPException):
            out.append(("rejected:non-UP-error:" + type(o.exc).__name__, "%s(%s <- %s) raised %r" % (ctx, tn, vl, o.exc)))
        if o.before is not None and o.after != o.before:
            out.append(("rejected:model-changed", "%s(%s <- %s) raised %s but changed the model: %s" % (ctx, tn, vl, type(o.exc).__name__, _diff(o.before, o.after))))
        elif o.before is not None:
            p = scenario(ctx, tn, vl, do_store=False)
            if p.final != o.final:
                out.append(("rejected:later-call-differs", "after the rejected %s(%s <- %s) a legal call leaves a different model than on a pristine one: %s" % (ctx, tn, vl, _diff(p.final, o.final))))
    return out, ("should-reject/" if should_reject else "may-accept/") + label, should_reject


def _diff(a, b):
    i = 0
    while i < min(len(a), len(b)) and a[i] == b[i]:
        i += 1
    return "...%s  ->  ...%s" % (a[max(0, i - 40) : i + 80], b[max(0, i - 40) : i + 80])


def vclass(tn, vl):
    """coarse class of the value relative to the target (root-cause label)"""
    if vl in CONSTS:
        kind = {"true": "bool", "false": "bool", "o1": "obj", "s1": "obj", "c1": "obj"}.get(vl, "num")
        return "const:" + kind
    return {"f": "fluent-exp", "p": "param-exp"}[vl[0]]


def run_shard(shard, tier, seed):
    acc = Acc()
    for ctx, tn, vl in shard["cases"]:
        acc.count("evaluations")
        try:
            viols, label, nontrivial = check_case(ctx, tn, vl)
        except Exception as e:  # noqa: BLE001 - a crash of a LEGAL preparatory / follow-up call
            import traceback

            acc.violation("harness-or-legal-call:%s|%s" % (type(e).__name__, ctx), traceback.format_exc()[-600:], {"ctx": ctx, "type": tn, "value": vl})
            continue
        if nontrivial:
            acc.count("nontrivial")
        acc.outcome(ctx + ":" + label)
        for sub, what in viols:
            acc.violation("%s|%s" % (sub, site(ctx)), what, {"ctx": ctx, "type": tn, "value": vl})
    acc.sample({"ctx": ctx, "type": tn, "value": vl, "outcome": label})
    return acc


def finalize(acc, tier):
    """keep, per fingerprint, the case list short and readable (nothing to prune: fingerprints are
    sub-oracle|storing call)."""
    return None


def replay(case):
    viols, _, _ = check_case(case["ctx"], case["type"], case["value"])
    return [("%s|%s" % (sub, site(case["ctx"])), what) for sub, what in viols]
