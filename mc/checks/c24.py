"""C24 - effect conflict detection is order-independent and exception-safe (DESIGN 4/C24).

Explicit-state search over insertion histories.  For every universe (container kind + atom
alphabet) ALL sequences of atoms up to the length bound are executed on a fresh container
(rejected insertions are part of the history and the history continues after them); this is
every permutation of every multiset of at most L atoms, duplicates included.

Oracles
  perm       for every multiset (at most one simulated effect per time point, because
             set_simulated_effect documents REPLACEMENT) the verdict "some insertion raises
             UPConflictingEffectsException" is the same for all its permutations
  dump       a rejected insertion leaves the container dump (stored effects, simulated
             effect(s), _fluents_assigned, _fluents_inc_dec) unchanged
  as-if      for every history s and every rejected position k: the history s without item k
             gives the same accept/reject verdict at every other position and the same final
             dump ("later insertions are judged as if it had never been attempted")
  raises     an insertion only ever raises UPConflictingEffectsException (all atoms are
             type-correct), and never on an empty container

States = container dumps (canonical: ordered effect list per time point, simulated effect
fluents, bookkeeping as sorted tuples with EMPTY per-timing entries dropped - an empty set or
dict is read exactly like a missing one by every reader: .get(t, {}) / setdefault(t, ...)).
The as-if oracle checks that normalisation independently of the dump.
"""
from __future__ import annotations

from itertools import permutations, product

import unified_planning as up
from unified_planning.exceptions import UPConflictingEffectsException

from mc.kernel.runner import Acc
from mc.gen.spec import fresh_env, to_spec
from mc.gen.problem import eff_to_spec
from mc.checks.mcutil import tj, fj

PROPERTY = "C24"
LEVEL = "model_checking"
RULE = (
    "per universe (InstantaneousAction; DurativeAction one timing / two timings / time points given as bare Timepoints; Problem timed "
    "effects one / two timings) all sequences of <= L atoms (= all permutations of all multisets, "
    "with duplicates), each run on a fresh container with rejected insertions kept in the history; "
    "non-trivial = sequence with two atoms on the same fluent and time point"
)
ASSUMPTIONS = [
    "one Environment per shard: containers are fresh per history, expressions are immutable and "
    "conflict checks use no walker state",
    "multisets with two simulated effects at one time point are excluded from the permutation oracle "
    "(set_simulated_effect replaces by contract); they stay in the exception-safety oracles",
    "empty per-timing bookkeeping entries are equivalent to missing ones (checked by the as-if oracle)",
]

# atoms -----------------------------------------------------------------------------------
# (kind, fluent, value, condition)   kind: assign | inc | dec | sim
ITEMS = {
    "x:=1": ("assign", "x", 1, None),
    "x:=2": ("assign", "x", 2, None),
    "x:=y": ("assign", "x", "y", None),
    "x+=1": ("inc", "x", 1, None),
    "x-=1": ("dec", "x", 1, None),
    "c?x:=2": ("assign", "x", 2, "c"),
    "c?x+=1": ("inc", "x", 1, "c"),
    "y:=1": ("assign", "y", 1, None),
    "b:=T": ("assign", "b", True, None),
    "b:=F": ("assign", "b", False, None),
    "sim{x}": ("sim", ("x",), None, None),
    "sim{y}": ("sim", ("y",), None, None),
    "sim{b}": ("sim", ("b",), None, None),
    "sim{x,y}": ("sim", ("x", "y"), None, None),
    "z:=1": ("assign", "z", 1, None),
    "z:=1.0": ("assign", "z", "1.0", None),
    "z+=1": ("inc", "z", 1, None),
}
FULL = ["x:=1", "x:=2", "x+=1", "x-=1", "c?x:=2", "y:=1", "b:=T", "b:=F", "sim{x}", "sim{y}", "sim{b}", "x:=y", "c?x+=1"]
CORE = ["x:=1", "x:=2", "x+=1", "c?x:=2", "y:=1", "sim{x}", "sim{y}"]
EXTRA = FULL + ["sim{x,y}", "z:=1", "z:=1.0", "z+=1"]
NOSIM = [a for a in FULL if not a.startswith("sim")]
NOSIM_CORE = ["x:=1", "x:=2", "x+=1", "x-=1", "c?x:=2", "y:=1"]


def universes(tier):
    """name -> (container, [atom (item, timing)], L).  Order = level order."""
    t1 = lambda items: [(i, "t1") for i in items]
    t2 = lambda items: [(i, t) for t in ("t1", "t2") for i in items]
    if tier == "quick":
        return [
            ("inst", "inst", [(i, None) for i in FULL], 4),
            ("dur1", "dur", t1(FULL), 4),
            ("dur2", "dur", t2(CORE), 4),
            ("dur2-tp", "durtp", t2(CORE), 3),
            ("prob1", "prob", t1(NOSIM), 4),
            ("prob2", "prob", t2(NOSIM_CORE), 4),
        ]
    return [
        ("inst", "inst", [(i, None) for i in EXTRA], 4),
        ("dur1", "dur", t1(EXTRA), 4),
        ("dur2", "dur", t2(CORE), 4),
        ("dur1-tp", "durtp", t1(FULL), 4),
        ("dur2-tp", "durtp", t2(CORE), 4),
        ("prob1", "prob", t1(NOSIM + ["z:=1", "z:=1.0", "z+=1"]), 4),
        ("prob2", "prob", t2(NOSIM_CORE), 4),
        ("inst5", "inst", [(i, None) for i in FULL], 5),
        ("dur1-5", "dur", t1(FULL), 5),
        ("prob1-5", "prob", t1(NOSIM), 5),
        ("dur2-5", "dur", t2(CORE), 5),
    ]


def bounds(tier):
    return {
        "universes": [
            {"name": n, "container": c, "atoms": ["%s@%s" % a if a[1] else a[0] for a in atoms], "max_len": L}
            for n, c, atoms, L in universes(tier)
        ]
    }


def aname(atom):
    return atom[0] if atom[1] is None else "%s@%s" % atom


# world -----------------------------------------------------------------------------------
class World:
    def __init__(self, container):
        from unified_planning.model.timing import StartTiming, EndTiming, GlobalStartTiming

        # "durtp": a DurativeAction whose effects name their time point by a bare Timepoint (a legal
        # TimeExpression) while the simulated effects use the equal Timing
        self.bare_timepoints = container == "durtp"
        self.container = container = "dur" if container == "durtp" else container
        self.env = env = fresh_env()
        tm = env.type_manager
        self.em = env.expression_manager
        F = up.model.Fluent
        self.fl = {
            "x": F("x", tm.IntType(), environment=env),
            "y": F("y", tm.IntType(), environment=env),
            "z": F("z", tm.RealType(), environment=env),
            "b": F("b", tm.BoolType(), environment=env),
            "c": F("c", tm.BoolType(), environment=env),
        }
        if container == "prob":
            self.tim = {"t1": GlobalStartTiming(1), "t2": GlobalStartTiming(2)}
        else:
            self.tim = {"t1": StartTiming(), "t2": EndTiming()}
        self.etim = self.tim
        if self.bare_timepoints:
            from unified_planning.model.timing import Timepoint, TimepointKind

            self.etim = {"t1": Timepoint(TimepointKind.START), "t2": Timepoint(TimepointKind.END)}
        self.sims = {}
        for name, it in ITEMS.items():
            if it[0] == "sim":
                fls = [self.em.FluentExp(self.fl[f]) for f in it[1]]
                self.sims[name] = up.model.SimulatedEffect(fls, _simfun)
        self._spec = {}

    def fresh(self):
        env = self.env
        if self.container == "inst":
            return up.model.InstantaneousAction("a", _env=env)
        if self.container == "dur":
            return up.model.DurativeAction("a", _env=env)
        p = up.model.Problem("p", env)
        for f in self.fl.values():
            p.add_fluent(f)
        return p

    def val(self, v):
        if isinstance(v, bool):
            return self.em.TRUE() if v else self.em.FALSE()
        if isinstance(v, int):
            return self.em.Int(v)
        if v == "1.0":
            from fractions import Fraction

            return self.em.Real(Fraction(1))
        return self.em.FluentExp(self.fl[v])

    def insert(self, cont, atom):
        """-> 'ok' | 'conflict' | 'error:<Type>'"""
        item, tname = atom
        kind, f, v, cond = ITEMS[item]
        try:
            if kind == "sim":
                se = self.sims[item]
                if self.container == "inst":
                    cont.set_simulated_effect(se)
                elif self.container == "dur":
                    cont.set_simulated_effect(self.tim[tname], se)
                else:
                    return "error:no-simulated-effects-on-problems"
                return "ok"
            args = [self.em.FluentExp(self.fl[f]), self.val(v)]
            kw = {}
            if cond is not None:
                kw["condition"] = self.em.FluentExp(self.fl[cond])
            if self.container == "inst":
                fn = {"assign": cont.add_effect, "inc": cont.add_increase_effect, "dec": cont.add_decrease_effect}[kind]
            elif self.container == "dur":
                fn = {"assign": cont.add_effect, "inc": cont.add_increase_effect, "dec": cont.add_decrease_effect}[kind]
                args.insert(0, self.etim[tname])
            else:
                fn = {"assign": cont.add_timed_effect, "inc": cont.add_increase_effect, "dec": cont.add_decrease_effect}[kind]
                args.insert(0, self.tim[tname])
            fn(*args, **kw)
            return "ok"
        except UPConflictingEffectsException:
            return "conflict"
        except Exception as e:  # anything else is reported by the `raises` oracle
            return "error:" + type(e).__name__

    # -- canonical dump -------------------------------------------------------------------
    def sp(self, n):
        k = id(n)
        r = self._spec.get(k)
        if r is None:
            r = self._spec[k] = (to_spec(n), n)  # keep n alive so that id() stays unique
        return r[0]

    def effs(self, el):
        return tuple(eff_to_spec(e) for e in el)

    def dump(self, cont):
        sp = self.sp
        if self.container == "inst":
            se = cont._simulated_effect
            return (
                self.effs(cont._effects),
                None if se is None else tuple(sp(f) for f in se.fluents),
                tuple(sorted((sp(k), sp(v)) for k, v in cont._fluents_assigned.items())),
                tuple(sorted(sp(k) for k in cont._fluents_inc_dec)),
            )
        if self.container == "dur":
            effects, sims = cont._effects, cont._simulated_effects
        else:
            effects, sims = cont._timed_effects, {}
        return (
            tuple(sorted((str(t), self.effs(el)) for t, el in effects.items())),
            tuple(sorted((str(t), tuple(sp(f) for f in se.fluents)) for t, se in sims.items())),
            tuple(sorted((str(t), sp(k), sp(v)) for t, d in cont._fluents_assigned.items() for k, v in d.items())),
            tuple(sorted((str(t), sp(k)) for t, s in cont._fluents_inc_dec.items() for k in s)),
        )


def _simfun(problem, state, params):  # never called
    raise AssertionError


def run_seq(w, seq):
    """Execute a sequence on a fresh container -> (verdicts, dumps after each step, dump0)."""
    cont = w.fresh()
    d = w.dump(cont)
    verdicts, dumps = [], [d]
    for atom in seq:
        verdicts.append(w.insert(cont, atom))
        dumps.append(w.dump(cont))
    return tuple(verdicts), dumps


def nontrivial(seq):
    seen = set()
    for item, t in seq:
        it = ITEMS[item]
        for f in it[1] if it[0] == "sim" else (it[1],):
            if (f, t) in seen:
                return True
            seen.add((f, t))
    return False


def two_sims_same_time(seq):
    seen = set()
    for item, t in seq:
        if ITEMS[item][0] == "sim":
            if t in seen:
                return True
            seen.add(t)
    return False


# judging one history -------------------------------------------------------------------------
def judge(w, seq, table=None):
    """-> [(sub-oracle, what)] for the history `seq` (exception-safety oracles)."""
    if table is not None and seq in table:
        verdicts, dumps = table[seq]
    else:
        verdicts, dumps = run_seq(w, seq)
    out = []
    for k, v in enumerate(verdicts):
        if v.startswith("error"):
            out.append(("raises:" + v.split(":", 1)[1], "inserting %s after %s raised %s" % (aname(seq[k]), _lab(seq[:k]), v)))
        elif v == "conflict" and k == 0:
            out.append(("raises:conflict-on-empty", "inserting %s into an empty container raised a conflict" % aname(seq[0])))
        if v != "ok" and dumps[k + 1] != dumps[k]:
            out.append(("dump", "rejected insertion of %s after %s changed the container: %s" % (aname(seq[k]), _lab(seq[:k]), _ddiff(dumps[k], dumps[k + 1]))))
    if out:
        return out
    for k, v in enumerate(verdicts):
        if v == "ok":
            continue
        rest = seq[:k] + seq[k + 1 :]
        if table is not None and rest in table:
            v2, d2 = table[rest]
        else:
            v2, d2 = run_seq(w, rest)
        exp = verdicts[:k] + verdicts[k + 1 :]
        if v2 != exp:
            j = next(i for i in range(len(exp)) if v2[i] != exp[i])
            out.append(("as-if:verdict", "after the rejected %s (history %s) the later insertion of %s is %s, but %s on a container that never saw the rejected item" % (aname(seq[k]), _lab(seq), aname(rest[j]), exp[j], v2[j])))
        elif d2[-1] != dumps[-1]:
            out.append(("as-if:dump", "history %s and the same history without the rejected %s end in different containers: %s" % (_lab(seq), aname(seq[k]), _ddiff(d2[-1], dumps[-1]))))
    return out


def _lab(seq):
    return "[" + "; ".join(aname(a) for a in seq) + "]"


def _ddiff(a, b):
    names = ("effects", "simulated", "fluents_assigned", "fluents_inc_dec")
    return "; ".join("%s: %s -> %s" % (n, p, q) for n, p, q in zip(names, a, b) if p != q)


# fingerprints ----------------------------------------------------------------------------------
def shape(seq):
    """Root-cause label of a (minimal) history: per atom its kind, with fluents, assigned values
    and timings renamed by first occurrence and increase/decrease merged; e.g.
    [sim{x}@t1; x-=1@t1] -> 'sim{f}@t;f±=@t'."""
    fren, tren, vren = {}, {}, {}

    def fl(f):
        return fren.setdefault(f, "fgh"[len(fren)] if len(fren) < 3 else "f%d" % len(fren))

    out = []
    for item, t in seq:
        kind, f, v, cond = ITEMS[item]
        if kind == "sim":
            lab = "sim{%s}" % ",".join(fl(x) for x in f)
        else:
            lab = ("c?" if cond else "") + fl(f)
            if kind == "assign":
                vs = vren.setdefault(f, {})
                lab += ":=" + vs.setdefault(str(v), "v%d" % (len(vs) + 1))
            else:
                lab += "±="
        if t is not None:
            lab += "@" + tren.setdefault(t, "t" if not tren else "t'")
        out.append(lab)
    return ";".join(out)


def minimise(w, seq, sub):
    seq = tuple(seq)
    changed = True
    while changed:
        changed = False
        for i in range(len(seq)):
            cand = seq[:i] + seq[i + 1 :]
            if cand and any(s == sub for s, _ in judge(w, cand)):
                seq, changed = cand, True
                break
    return seq


def perm_verdicts(w, ms):
    """multiset (sorted tuple of atoms) -> {any_raise: witness permutation}"""
    out = {}
    for p in sorted(set(permutations(ms))):
        v, _ = run_seq(w, p)
        out.setdefault(any(x == "conflict" for x in v), p)
    return out


def minimise_ms(w, ms):
    ms = tuple(ms)
    changed = True
    while changed:
        changed = False
        for i in range(len(ms)):
            cand = ms[:i] + ms[i + 1 :]
            if len(cand) >= 2 and len(perm_verdicts(w, cand)) == 2:
                ms, changed = cand, True
                break
    return ms


# shards ----------------------------------------------------------------------------------------
def shards(tier, seed):
    out = []
    for level, (name, cont, atoms, L) in enumerate(universes(tier)):
        for i in range(len(atoms)):
            out.append({"level": level, "universe": name, "first": i})
    return out


def _universe(tier, name):
    for n, cont, atoms, L in universes(tier):
        if n == name:
            return cont, [tuple(a) for a in atoms], L
    raise KeyError(name)


def run_shard(shard, tier, seed):
    acc = Acc()
    uni = shard["universe"]
    cont, atoms, L = _universe(tier, uni)
    w = World(cont)
    first = atoms[shard["first"]]
    table = {}
    states = set()
    # pass 1: execute every full-length sequence starting with `first`; every prefix is recorded
    for tail in product(atoms, repeat=L - 1):
        seq = (first,) + tail
        verdicts, dumps = run_seq(w, seq)
        acc.count("transitions", L)
        for n in range(1, L + 1):
            pre = seq[:n]
            if pre not in table:
                table[pre] = (verdicts[:n], dumps[: n + 1])
                states.add(dumps[n])
    # pass 2: judge every history (prefixes included, shortest first)
    bad_prefix = set()
    verd = set()
    for seq in sorted(table, key=len):
        verdicts, dumps = table[seq]
        acc.count("histories")
        if nontrivial(seq):
            acc.count("nontrivial")
        acc.outcome("".join("a" if v == "ok" else ("R" if v == "conflict" else "E") for v in verdicts))
        if any(seq[:n] in bad_prefix for n in range(1, len(seq))):
            continue  # explained by a violation already reported on a prefix
        viols = judge(w, seq, table)
        if viols:
            bad_prefix.add(seq)
            for sub, what in viols:
                small = minimise(w, seq, sub)
                acc.violation("%s|%s|%s" % (sub, cont, shape(small)), what, {"universe": uni, "container": cont, "seq": tj(small), "found_on": tj(seq)})
            continue
        if len(seq) == L:
            acc.count("traces")
        if not two_sims_same_time(seq):
            verd.add((uni, tuple(sorted(seq, key=repr)), any(v == "conflict" for v in verdicts)))
    acc.count("states", len(states))
    acc.extra["verd"] = verd
    acc.sample({"universe": uni, "history": [aname(a) for a in seq], "verdicts": list(verdicts)})
    return acc


def finalize(acc, tier):
    """permutation oracle over the merged (multiset, verdict) table."""
    verd = acc.extra.pop("verd", set())
    seen = {}
    clash = []
    for uni, ms, v in verd:
        if (uni, ms) in seen and seen[(uni, ms)] != v:
            clash.append((uni, ms))
        seen[(uni, ms)] = v
    acc.c["multisets"] += len(seen)
    worlds = {}
    done = set()
    for uni, ms in sorted(clash, key=lambda c: (len(c[1]), repr(c))):
        cont = _universe(tier, uni)[0]
        w = worlds.setdefault(cont, World(cont))
        small = minimise_ms(w, ms)
        if (cont, small) in done:
            continue
        done.add((cont, small))
        pv = perm_verdicts(w, small)
        acc.violation(
            "perm|%s|%s" % (cont, shape(small)),
            "order-dependent verdict for the multiset %s: %s raises a conflict, %s does not" % (_lab(small), _lab(pv[True]), _lab(pv[False])),
            {"universe": uni, "container": cont, "multiset": tj(small)},
        )


def replay(case):
    cont = case["container"]
    w = World(cont)
    out = []
    if "multiset" in case:
        ms = fj(case["multiset"])
        pv = perm_verdicts(w, ms)
        if len(pv) == 2:
            out.append(("perm|%s|%s" % (cont, shape(ms)), "order-dependent verdict: %s raises, %s does not" % (_lab(pv[True]), _lab(pv[False]))))
        return out
    seq = fj(case["seq"])
    seq = tuple((a[0], a[1]) for a in seq)
    for sub, what in judge(w, seq):
        out.append(("%s|%s|%s" % (sub, cont, shape(minimise(w, seq, sub))), what))
    return out
