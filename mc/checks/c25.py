"""C25 - DeltaSimpleTemporalNetwork decides consistency exactly (DESIGN 4/C25).

Explicit-state search over insertion / copy histories.  A search state is the history
reaching it (tuple of ops); it is materialised by replaying the history on fresh real
networks.  Ops apply to the *active* network of the history; `copy` creates a copy with
copy_stn() and either continues on the copy (the source is frozen) or on the source (the
copy is frozen).  Frozen networks are snapshotted when frozen and must never change.

Oracle (mc/ref/stn.py, Floyd-Warshall over ALL inserted constraints of that network):
  verdict   check_stn() == "no negative cycle"
  model     while consistent, get_stn_model(e) for every mentioned event satisfies every
            inserted constraint (model-sat) and equals the least non-negative solution
            (model-least)
  sink      once inconsistent, every further op leaves check_stn() False
  indep     frozen networks keep verdict / models / constraints after ops on the other one

Canonical form (de-duplication): for every network of the history (active one first marked)
the per-source ORDERED neighbour list (dst, bound), the distance map, _is_sat - exactly the
fields add/_is_subsumed/_inc_check/get_stn_model/get_constraints read - plus which of these
dicts are shared by identity between the networks.  Dict key order is dropped: every reader
accesses the dicts by key (get_constraints' result is compared as a mapping).  Equal canonical
forms therefore have equal futures.  Insertion orders that leave different neighbour-list
orders are not merged (over-fine, costs only time).  Inconsistent states are expanded once
more (sink oracle, reduced alphabet) and never further.
"""
from __future__ import annotations

from fractions import Fraction

from mc.kernel.runner import Acc
from mc.ref import stn as ref
from mc.checks.mcutil import Hang, arm, deadline, disarm, tj, fj

PROPERTY = "C25"
LEVEL = "model_checking"
RULE = (
    "BFS over all histories of add / insert_interval / copy_stn (continue on copy or on source) "
    "up to the depth bound, events and bounds per config (see bounds), first op fixed up to event "
    "renaming, histories de-duplicated by canonical network state; every history checked against "
    "Floyd-Warshall (verdict, model satisfies all constraints, model is the least non-negative "
    "solution), frozen copies/sources compared with their snapshot; non-trivial = history whose "
    "last op made the network inconsistent, changed the model of some event, or was subsumed"
)
ASSUMPTIONS = [
    "reference mc/ref/stn.py (Floyd-Warshall, least non-negative solution = -min(0, shortest path into the event))",
    "events are opaque dict keys to the implementation, so the first op is enumerated up to renaming of events",
    "epsilon = 0 (default); bounds int or Fraction",
    "get_stn_model is only demanded while the reference says consistent, for events mentioned by some op",
]

EV = "ABCD"
WATCHDOG_S = 2.0
HALF = (1, 2)


def configs(tier):
    """Ordered list of exploration configs; index = level."""
    ints = (-2, -1, 0, 1, 2)
    rat = (-2, -1, (-1, 2), 0, (1, 2), 1, 2)
    if tier == "quick":
        return [
            {"events": 3, "bounds": ints, "depth": 4, "copies": 1, "last": "full"},
        ]
    return [
        {"events": 3, "bounds": ints, "depth": 4, "copies": 1, "last": "full"},
        {"events": 3, "bounds": rat, "depth": 4, "copies": 1, "last": "adds"},
        {"events": 4, "bounds": ints, "depth": 4, "copies": 2, "last": "adds"},
        {"events": 3, "bounds": ints, "depth": 5, "copies": 1, "last": "adds"},
    ]


def bounds(tier):
    return {"configs": configs(tier), "interval_bounds": [list(map(str, x)) for x in IV], "seed_depth": SEED_DEPTH}


# alphabet -------------------------------------------------------------------------------
IV = [(None, None), (1, None), (None, 1), (1, 2), (2, 1), (0, 0)]
SEED_DEPTH = 2


def B(b):
    if b is None or isinstance(b, int):
        return b
    return Fraction(b[0], b[1])


def alphabet(cfg, kind, first=False):
    evs = EV[: cfg["events"]]
    ops = []
    pairs = [(x, y) for x in evs for y in evs]
    if first:
        pairs = [("A", "A"), ("A", "B")]
    if kind == "unsat":
        for x, y in pairs:
            ops.append(("add", x, y, 2))
            ops.append(("add", x, y, -2))
        ops.append(("iv", "A", "B", None, None))
        ops.append(("iv", "A", "B", 1, 2))
        ops.append(("copy", "switch"))
        return ops
    for x, y in pairs:
        for b in cfg["bounds"]:
            ops.append(("add", x, y, b))
    if kind == "adds":
        ops.append(("copy", "switch"))
        return ops
    for x, y in pairs:
        if x == y:
            ops.append(("iv", x, y, 0, 0))
        else:
            for lb, rb in IV:
                ops.append(("iv", x, y, lb, rb))
    ops.append(("copy", "switch"))
    ops.append(("copy", "stay"))
    return ops


# replay ---------------------------------------------------------------------------------
def _chain(n):
    out = []
    while n is not None:
        out.append((n.dst, n.bound))
        n = n.next
    return tuple(out)


def canon_net(net):
    cons = tuple(sorted((k, _chain(v)) for k, v in net._constraints.items()))
    dist = tuple(sorted(net._distances.items()))
    return (cons, dist, bool(net._is_sat))


def observe(net, events):
    """What a user can see of a network (order-insensitive)."""
    sat = net.check_stn()
    models = []
    for e in events:
        try:
            models.append((e, net.get_stn_model(e)))
        except KeyError:
            models.append((e, "KeyError"))
    try:
        gc = net.get_constraints()
        cons = tuple(sorted((k, tuple(sorted(v))) for k, v in gc.items()))
    except Exception as ex:  # pragma: no cover - reported through the snapshot comparison
        cons = ("raises", type(ex).__name__)
    return (sat, tuple(models), cons)


class World:
    """All networks of one history, with the reference bookkeeping of each."""

    def __init__(self):
        from unified_planning.model.delta_stn import DeltaSimpleTemporalNetwork

        self.nets = [DeltaSimpleTemporalNetwork()]
        self.cons = [[]]  # inserted constraints (x, y, b) per network
        self.evs = [[]]  # mentioned events per network
        self.snap = [None]  # snapshot of frozen networks
        self.active = 0
        self.last = None  # info about the last op: (obs_before, cons_len_before)

    def mention(self, *es):
        ev = self.evs[self.active]
        for e in es:
            if e not in ev:
                ev.append(e)

    def apply(self, op):
        a = self.active
        net = self.nets[a]
        k = op[0]
        if k == "add":
            _, x, y, b = op
            self.mention(x, y)
            self.cons[a].append((x, y, B(b)))
            net.add(x, y, B(b))
        elif k == "iv":
            _, l, r, lb, rb = op
            self.mention(l, r)
            if lb is not None:
                self.cons[a].append((l, r, -B(lb)))
            if rb is not None:
                self.cons[a].append((r, l, B(rb)))
            net.insert_interval(l, r, left_bound=B(lb), right_bound=B(rb))
        elif k == "copy":
            new = net.copy_stn()
            self.nets.append(new)
            self.cons.append(list(self.cons[a]))
            self.evs.append(list(self.evs[a]))
            self.snap.append(None)
            n = len(self.nets) - 1
            if op[1] == "switch":
                self.snap[a] = observe(net, self.evs[a])
                self.active = n
            else:
                self.snap[n] = observe(new, self.evs[n])
        else:
            raise ValueError(op)

    def canon(self):
        order = [self.active] + [i for i in range(len(self.nets)) if i != self.active]
        cs = tuple(canon_net(self.nets[i]) for i in order)
        alias = tuple(
            (self.nets[i]._distances is self.nets[j]._distances, self.nets[i]._constraints is self.nets[j]._constraints)
            for ii, i in enumerate(order)
            for j in order[ii + 1 :]
        )
        # frozen networks with equal canonical form are interchangeable; keep them as a multiset
        return (cs[0], tuple(sorted(cs[1:], key=repr)), alias if any(x or y for x, y in alias) else ())


def replay_history(hist):
    w = World()
    with deadline():
        for op in hist:
            w.apply(op)
    return w


def judge(hist):
    """Replay `hist`; returns (violations [(sub, what)], world, info) judged at the END of the
    history (prefixes are BFS nodes themselves)."""
    out = []
    w = World()
    before = None
    was_unsat = False
    i = 0
    arm(WATCHDOG_S)
    try:
        for i, op in enumerate(hist):
            if i == len(hist) - 1:
                a = w.active
                before = (observe(w.nets[a], w.evs[a]), canon_net(w.nets[a]))
                was_unsat = not before[0][0]  # the prefix is a judged BFS node itself
            w.apply(op)
    except Hang:
        out.append(("hang:" + hist[i][0], "%s did not return within the watchdog time" % (hist[i],)))
        return out, w, {"outcome": "hang"}
    except Exception as e:
        out.append(("raises:%s:%s" % (hist[i][0], type(e).__name__), "%s raised %r" % (hist[i], e)))
        return out, w, {"outcome": "raises"}
    finally:
        disarm()
    info = {"was_unsat": was_unsat}
    copy_last = bool(hist) and hist[-1][0] == "copy"
    for i, net in enumerate(w.nets):
        evs, cons = w.evs[i], w.cons[i]
        role = "active" if i == w.active else "frozen"
        if i != w.active:
            # a frozen network is compared with its snapshot; against the reference only when it
            # has just been created / frozen (it was the active one, and judged, before that)
            if w.snap[i] is not None:
                now = observe(net, evs)
                if now != w.snap[i]:
                    what = [n for n, (p, q) in zip(("verdict", "model", "constraints"), zip(now, w.snap[i])) if p != q]
                    out.append(("indep", "frozen network changed (%s) after ops on the other one: was %s now %s" % ("+".join(what), w.snap[i], now)))
                    continue
            if not (copy_last and i == len(w.nets) - 1):
                continue
        model = ref.least_nonneg(evs, cons)
        try:
            sat = net.check_stn()
        except Exception as e:
            out.append(("raises:check_stn:" + type(e).__name__, repr(e)))
            continue
        if sat != (model is not None):
            sub = "verdict:" + ("false-inconsistent" if model is not None else "false-consistent")
            if was_unsat and role == "active":
                sub = "sink:" + ("stays-inconsistent-violated")
            out.append((sub, "%s network: check_stn()=%s, reference consistent=%s, constraints=%s" % (role, sat, model is not None, _cs(cons))))
            continue
        if model is not None:
            got = {}
            bad = False
            for e in evs:
                try:
                    got[e] = net.get_stn_model(e)
                except Exception as ex:
                    out.append(("model:raises:" + type(ex).__name__, "get_stn_model(%s) raised %r on %s network, constraints=%s" % (e, ex, role, _cs(cons))))
                    bad = True
                    break
            if bad:
                continue
            if not ref.satisfies(got, cons):
                viol = [(x, y, str(b)) for x, y, b in cons if not got[x] - got[y] <= b]
                out.append(("model-sat", "%s network model %s violates inserted constraint(s) %s" % (role, _m(got), viol)))
            elif any(got[e] != model[e] for e in evs):
                sub = "model-least:" + ("negative" if any(got[e] < 0 for e in evs) else "not-least")
                out.append((sub, "%s network model %s, least non-negative solution %s, constraints=%s" % (role, _m(got), _m(model), _cs(cons))))
    if len(out) > 1:
        out.sort(key=lambda sv: _PRIO.index(sv[0].split(":")[0]) if sv[0].split(":")[0] in _PRIO else 99)
        del out[1:]
    # outcome class of the last op (vacuity histogram / non-triviality)
    if hist:
        a = w.active
        op = hist[-1]
        if op[0] == "copy":
            info["outcome"] = "copy-of-" + ("unsat" if was_unsat else "sat")
            info["nontrivial"] = False
        else:
            after = (observe(w.nets[a], w.evs[a]), canon_net(w.nets[a]))
            if was_unsat:
                info["outcome"] = "unsat->unsat"
                info["nontrivial"] = False
            elif not after[0][0]:
                info["outcome"] = "sat->unsat"
                info["nontrivial"] = True
            elif after[1][0] == before[1][0]:
                info["outcome"] = "subsumed-or-empty"
                info["nontrivial"] = True
            else:
                changed = sum(1 for e, v in after[0][1] if dict(before[0][1]).get(e, 0) != v)
                info["outcome"] = "sat->sat:models-changed=%d" % changed
                info["nontrivial"] = changed > 0
    else:
        info["outcome"] = "empty"
        info["nontrivial"] = False
    return out, w, info


_PRIO = ["hang", "raises", "indep", "sink", "verdict", "model", "model-sat", "model-least"]


def _cs(cons):
    return "[" + ", ".join("%s-%s<=%s" % (x, y, b) for x, y, b in cons) + "]"


def _m(model):
    return "{" + ", ".join("%s:%s" % (k, v) for k, v in sorted(model.items())) + "}"


# fingerprints -----------------------------------------------------------------------------
def _fails(hist, sub):
    return any(s == sub for s, _ in judge(hist)[0])


def _simpler(hist):
    """Candidate simplifications of a history, simplest first (all strictly smaller in the
    measure: #ops, #interval ops, #distinct events, sum |bound|)."""
    n = len(hist)
    for i in range(n):  # drop an op
        if n > 1:
            yield hist[:i] + hist[i + 1 :]
    for i, op in enumerate(hist):  # an interval becomes one of its adds
        if op[0] == "iv":
            _, l, r, lb, rb = op
            if lb is not None:
                yield hist[:i] + (("add", l, r, _neg(lb)),) + hist[i + 1 :]
            if rb is not None:
                yield hist[:i] + (("add", r, l, rb),) + hist[i + 1 :]
    evs = sorted({e for op in hist if op[0] != "copy" for e in op[1:3]})
    for e1 in evs:  # merge two events
        for e2 in evs:
            if e1 < e2:
                yield tuple(op if op[0] == "copy" else (op[0],) + tuple(e1 if e == e2 else e for e in op[1:3]) + op[3:] for op in hist)
    for i, op in enumerate(hist):  # bounds towards 0
        if op[0] == "add" and B(op[3]) != 0:
            v = B(op[3])
            for c in (0, 1 if v > 0 else -1):
                if abs(c) < abs(v):
                    yield hist[:i] + (op[:3] + (c,),) + hist[i + 1 :]


def _neg(b):
    v = -B(b)
    return v if isinstance(v, int) or v.denominator == 1 else (v.numerator, v.denominator)


def minimise(hist, sub):
    """Greedy reduction while the same sub-oracle is still the one that fails at the end."""
    hist = tuple(hist)
    changed = True
    while changed:
        changed = False
        for cand in _simpler(hist):
            if _fails(cand, sub):
                hist = cand
                changed = True
                break
    return hist


def _sign(b):
    if b is None:
        return "none"
    v = B(b)
    s = "-" if v < 0 else ("0" if v == 0 else "+")
    return s + ("q" if isinstance(v, Fraction) and v.denominator != 1 else "")


def shape(hist):
    """Event names normalised by first occurrence, bounds abstracted to their sign."""
    ren = {}

    def r(e):
        if e not in ren:
            ren[e] = "xyzwvutsr"[len(ren)]
        return ren[e]

    out = []
    for op in hist:
        if op[0] == "add":
            out.append("add(%s,%s,%s)" % (r(op[1]), r(op[2]), _sign(op[3])))
        elif op[0] == "iv":
            out.append("iv(%s,%s,%s,%s)" % (r(op[1]), r(op[2]), _sign(op[3]), _sign(op[4])))
        else:
            out.append("copy:" + op[1])
    return ";".join(out)


MAX_MINIMISED = 40  # per shard and sub-oracle; BFS order reports the shortest histories first


def report(acc, hist, viols):
    for sub, what in viols:
        acc.count("violating_histories")
        n = acc.__dict__.setdefault("_minimised", {})
        n[sub] = n.get(sub, 0) + 1
        if n[sub] > MAX_MINIMISED:
            acc.count("violating_histories_not_minimised")
            continue
        small = minimise(hist, sub)
        acc.violation("%s|%s" % (sub, shape(small)), what + " (found on history %s)" % (list(hist),), {"hist": tj(small), "found_on": tj(hist)})


# exploration --------------------------------------------------------------------------------
def _n_copies(hist):
    return sum(1 for op in hist if op[0] == "copy")


def expand(cfg, hist, unsat):
    d = len(hist)
    if unsat:
        ops = alphabet(cfg, "unsat")
    else:
        kind = "full" if (d + 1 < cfg["depth"] or cfg["last"] == "full") else cfg["last"]
        ops = alphabet(cfg, kind, first=(d == 0))
    for op in ops:
        if op[0] == "copy" and _n_copies(hist) >= cfg["copies"]:
            continue
        yield hist + (op,)


def seeds(cfg):
    """Parent-side BFS to SEED_DEPTH (no oracle): distinct canonical states as histories."""
    seen = {}
    frontier = [()]
    out = []
    hangs = 0
    for lvl in range(SEED_DEPTH + 1):
        nxt = []
        for hist in frontier:
            try:
                w = replay_history(hist)
            except Hang:
                hangs += 1
                if hangs >= 3:
                    return out  # the prefix shard reports the hang; do not hang the parent
                continue
            except Exception:
                continue
            key = w.canon()
            if key in seen:
                continue
            seen[key] = hist
            unsat = not w.nets[w.active].check_stn()
            if lvl == SEED_DEPTH:
                out.append((hist, unsat))
                continue
            if unsat and hist and _was_unsat_before(hist):
                continue
            nxt.extend(expand(cfg, hist, unsat))
        frontier = nxt
    return out


def _was_unsat_before(hist):
    """True iff the reference says the active network was already inconsistent before the last op."""
    w = replay_history(hist[:-1])
    return not ref.consistent(w.evs[w.active], w.cons[w.active])


def is_new(level, hist):
    """The configs of a tier nest (config 0 contains every all-integer history over A,B,C with at
    most one copy and length <= 4 of the later configs).  A later config judges everything it visits
    but counts / reports only what config 0 does not contain, so that the evidence counters are
    counts of DISTINCT histories."""
    if level == 0:
        return True
    if len(hist) > 4 or sum(1 for op in hist if op[0] == "copy") > 1:
        return True
    for op in hist:
        if op[0] == "copy":
            continue
        if "D" in op[1:3]:
            return True
        if any(isinstance(b, tuple) for b in op[3:]):
            return True
    return False


# "diamond with a tail" template over FIVE events: an event (C) is reached first by a direct edge
# (B->C) and later by a cheaper two-hop path (B->D->C) and has an outgoing constraint (C->E);
# A->B triggers the propagation.  All bound vectors x all insertion orders.
TEMPLATE_EDGES = [("C", "E"), ("B", "D"), ("D", "C"), ("B", "C"), ("A", "B")]
TEMPLATE_CLOSE = ("E", "A")
TEMPLATE_BOUNDS = (-5, -1, 0, 1)
TEMPLATE_PARTS = 16


def template_histories(tier, part):
    from itertools import permutations, product

    n = 0
    closes = (None,) if tier == "quick" else (None, 6, -6)
    for bounds in product(TEMPLATE_BOUNDS, repeat=len(TEMPLATE_EDGES)):
        for close in closes:
            edges = [("add", x, y, b) for (x, y), b in zip(TEMPLATE_EDGES, bounds)]
            if close is not None:
                edges.append(("add", TEMPLATE_CLOSE[0], TEMPLATE_CLOSE[1], close))
            n += 1
            if n % TEMPLATE_PARTS != part:
                continue
            for order in permutations(edges):
                yield tuple(order)


def run_template(shard, tier, acc):
    seen_prefix = set()
    last = None
    for hist in template_histories(tier, shard["part"]):
        for k in range(3, len(hist) + 1):
            h = hist[:k]
            if k < len(hist):
                if h in seen_prefix:
                    continue
                seen_prefix.add(h)
            viols, w, info = judge(h)
            acc.count("transitions")
            acc.count("states")
            acc.outcome("template:" + info.get("outcome", "?"))
            if info.get("nontrivial"):
                acc.count("nontrivial")
            if viols:
                report(acc, h, viols)
                break
            acc.count("traces")
        last = hist
    if last is not None:
        acc.sample({"template": "diamond-with-tail", "history": tj(last)})
    return acc


def shards(tier, seed):
    out = []
    ncfg = len(configs(tier))
    for part in range(TEMPLATE_PARTS):
        out.append({"level": ncfg, "template": "diamond", "part": part})
    for level, cfg in enumerate(configs(tier)):
        out.append({"level": level, "cfg": cfg, "prefix": True})
        sd = [h for h, _u in seeds(cfg)]
        k = min(len(sd), 48 if tier == "quick" else 160) or 1
        buckets = [[] for _ in range(k)]
        for i, h in enumerate(sd):
            buckets[(i + seed) % k].append(tj(h))
        for b in buckets:
            if b:
                out.append({"level": level, "cfg": cfg, "seeds": b})
    return out


def run_shard(shard, tier, seed):
    acc = Acc()
    if shard.get("template"):
        return run_template(shard, tier, acc)
    cfg = shard["cfg"]
    cfg = dict(cfg, bounds=tuple(tuple(b) if isinstance(b, list) else b for b in cfg["bounds"]))
    if shard.get("prefix"):
        frontier = [()]
        stop = SEED_DEPTH  # nodes of depth <= SEED_DEPTH are judged here
        start_judged = False
    else:
        frontier = [fj(h) for h in shard["seeds"]]
        stop = cfg["depth"]
        start_judged = True  # the seeds themselves were judged by the prefix shard
    seen = set()
    first = True
    while frontier:
        nxt = []
        for hist in frontier:
            if first and start_judged:
                w = replay_history(hist)
                viols, info = [], None
            else:
                viols, w, info = judge(hist)
                new = is_new(shard["level"], hist)  # histories of an earlier config are counted there
                if new:
                    acc.count("transitions")
                    acc.outcome(info["outcome"])
                    if info.get("nontrivial"):
                        acc.count("nontrivial")
                if viols:
                    if new:
                        report(acc, hist, viols)
                    if viols[0][0].startswith("hang"):
                        acc.count("hangs")
                        if acc.c["hangs"] >= 3:
                            acc.count("shards_aborted_after_hangs")
                            return acc
                    continue  # do not explore beyond a disagreement
                if new:
                    acc.count("traces")
            key = w.canon()
            if key in seen:
                continue
            seen.add(key)
            if not (first and start_judged) and is_new(shard["level"], hist):
                acc.count("states")
            if len(hist) >= stop:
                continue
            unsat = not w.nets[w.active].check_stn()
            if unsat and hist and (info["was_unsat"] if info is not None else _was_unsat_before(hist)):
                continue  # sink already probed once
            nxt.extend(expand(cfg, hist, unsat))
        frontier = nxt
        first = False
    if seen:
        acc.sample({"config": {k: (list(map(str, v)) if k == "bounds" else v) for k, v in cfg.items()}, "history": tj(hist)})
    return acc


def replay(case):
    hist = fj(case["hist"])
    out = []
    for sub, what in judge(hist)[0]:
        out.append(("%s|%s" % (sub, shape(minimise(hist, sub))), what))
    return out
