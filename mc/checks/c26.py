"""C26 - time-triggered <-> STN plan conversions are faithful (DESIGN 4/C26).

For every U-TEMP problem x plan on the (start, duration) grid that the REFERENCE temporal
semantics (mc/ref/tempsem.py) calls VALID:

  to-stn      ttp.convert_to(STN_PLAN, problem) returns
  consistent  stn.is_consistent(), and the constraints of get_constraints() have a solution
              (plain Floyd-Warshall of mc/ref/stn.py on the difference constraints)
  orig-sat    the original schedule  T(GLOBAL_START)=0, T(START a)=start, T(END a)=start+dur,
              T(GLOBAL_END)=makespan  satisfies every constraint (A, L, U, B) of
              get_constraints(), read as  L <= T(B) - T(A) <= U  (the reading under which
              STNPlan.__init__ stores them and _convert_to_stn emits "end - start = duration")
  back        stn.convert_to(TIME_TRIGGERED_PLAN, problem) returns the same action instances and
              the reference accepts that plan (AMBIGUOUS reference verdicts are skipped)

Two families of problems:
  utemp   the U-TEMP slot grammar (durative + instantaneous actions, timed effects / goals)
  uprob   instantaneous U-PROB problems (quantified / conditional / forall effects ...) with the
          ground actions placed on a small time grid (incl. simultaneous ones)

Valid plans whose simultaneous happenings interfere (one writes what the other reads) are kept: the
statement quantifies over EVERY valid plan; they are only tagged in the outcome histogram.
"""
from __future__ import annotations

from fractions import Fraction
from itertools import combinations_with_replacement

from mc.kernel.runner import Acc
from mc.gen import utemp
from mc.gen.spec import tj
from mc.ref.tempsem import TempRef
from mc.ref import stn as rstn
from mc.checks import simutil as su
from mc.checks import tempcommon as tc

PROPERTY = "C26"
LEVEL = "model_checking"
RULE = (
    "family utemp: U-TEMP problems (deviation levels 0,1 complete over full pools; level 2: all pairs "
    "over core pools [quick]; thorough adds all pairs over full pools whose two slots belong to one "
    "action or include teff/tgoal) x all plans (multisets) of <= 2 timed steps over grid A plus all "
    "plans of exactly 3 steps over the small grid B (see bounds), plus, for the base problem and the "
    "one-slot duration deviations, all plans of <= 2 steps over the non-dyadic grid {0,1/3,1} x {1,4/3,7/3}; family uprob: instantaneous U-PROB "
    "problems (levels 0,1; thorough: core pairs) x all multisets of <= 2 ground actions on the time "
    "grid {0,1,3/2}. Every plan the reference temporal semantics calls VALID is converted "
    "TTP -> STN -> TTP through the real code; states = happenings of the converted plans, "
    "transitions = plan steps, traces = valid plans on which every sub-oracle (consistent, original "
    "schedule satisfies all constraints, back-converted plan valid under the reference) agreed; "
    "non-trivial = valid plan with >= 2 steps, or >= 1 step in a problem with timed effects/goals"
)
ASSUMPTIONS = [
    "reference temporal semantics mc/ref/tempsem.py (DESIGN A.2) decides which plans are valid and judges the back-converted plan (with bounds/invariants checked for the uprob family)",
    "constraint (A, L, U, B) of STNPlan.get_constraints() is read L <= T(B) - T(A) <= U (how __init__ stores it; the docstring states the opposite sign)",
    "T(GLOBAL_END) := latest start/end of the plan",
    "skipped: reference verdict AMBIGUOUS (original or back-converted plan); uprob plans for which the deordering documents UPUsageError (fluents nested in fluent arguments)",
    "problem.epsilon is None (the conversion derives its own separation)",
]

F = Fraction
G_SMALL = ([F(0), F(1), F(3, 2)], [F(1), F(2), F(3)])
G_MID = ([F(0), F(1, 2), F(1), F(3, 2), F(2)], [F(1), F(3, 2), F(2), F(3)])
G_FULL = ([F(0), F(1, 2), F(1), F(3, 2), F(2), F(3)], [F(1), F(3, 2), F(2), F(5, 2), F(3)])
UPROB_TIMES = [F(0), F(1), F(3, 2)]
# start times / durations that no binary floating point number represents exactly: used (<= 2 steps) for
# the base problem and for every one-slot deviation of a duration slot
G_THIRDS = ([F(0), F(1, 3), F(1)], [F(1), F(4, 3), F(7, 3)])


def _g(g):
    return {"starts": [str(x) for x in g[0]], "durations": [str(x) for x in g[1]]}


def bounds(tier):
    if tier == "quick":
        return {
            "utemp": {
                "levels 0,1": {"<=2 steps": _g(G_SMALL), "3 steps": _g(G_SMALL)},
                "level 2 (core pairs)": {"<=2 steps": _g(G_SMALL)},
                "level 0 and one-slot duration deviations, additionally": {"<=2 steps": _g(G_THIRDS)},
            },
            "uprob": {"levels": [0, 1], "steps": 2, "times": [str(x) for x in UPROB_TIMES]},
        }
    return {
        "utemp": {
            "levels 0,1": {"<=2 steps": _g(G_FULL), "3 steps": _g(G_SMALL)},
            "level 2 core pairs": {"<=2 steps": _g(G_MID), "3 steps": _g(G_SMALL)},
            "level 2 other pairs": {"<=2 steps": _g(G_MID)},
            "level 0 and one-slot duration deviations, additionally": {"<=2 steps": _g(G_THIRDS)},
        },
        "uprob": {"levels": [0, 1, "2 (core pairs)"], "steps": 2, "times": [str(x) for x in UPROB_TIMES]},
    }


def timed_steps(grid):
    starts, durs = grid
    out = []
    for an, args in utemp.STEPS:
        for s in starts:
            if an == "i1":
                out.append((s, an, args, None))
            else:
                for d in durs:
                    out.append((s, an, args, d))
    return out


_PLANS = {}


def plan_set(grid_a, grid_b):
    """all multisets of <= 2 steps over grid_a, plus (grid_b given) all of exactly 3 over grid_b."""
    key = (id(grid_a), id(grid_b))
    if key not in _PLANS:
        ts = timed_steps(grid_a)
        out = [()]
        for k in (1, 2):
            for combo in combinations_with_replacement(range(len(ts)), k):
                out.append(tuple(ts[i] for i in combo))
        if grid_b is not None:
            tb = timed_steps(grid_b)
            for combo in combinations_with_replacement(range(len(tb)), 3):
                out.append(tuple(tb[i] for i in combo))
        _PLANS[key] = out
    return _PLANS[key]


def _is_core(cid):
    return all(utemp.pool(s)[i][1] for s, i in cid)


def plans_for(cid, tier):
    level = len(cid)
    extra = []
    if level == 0 or (level == 1 and cid[0][0].endswith(".dur")):
        seen = set(plan_set(G_SMALL, None) if tier == "quick" else plan_set(G_FULL, None))
        extra = [pl for pl in plan_set(G_THIRDS, None) if pl not in seen]
    if tier == "quick":
        return plan_set(G_SMALL, G_SMALL if level <= 1 else None) + extra
    if level <= 1:
        return plan_set(G_FULL, G_SMALL) + extra
    return plan_set(G_MID, G_SMALL if _is_core(cid) else None)


def _ids(tier):
    out = []
    for level, core_only in utemp.plan_levels(tier):
        for cid, _ps in utemp.instances(level, None, core_only):
            if level == 2 and tier == "thorough" and not _is_core(cid):
                names = [s for s, _ in cid]
                owners = set(n.split(".")[0] for n in names)
                if not (len(owners) == 1 or "teff" in names or "tgoal" in names):
                    continue
            out.append((level, cid))
    return out


UPROB_SLOTS = None


def _uprob_ids(tier):
    from mc.gen import uprob
    from mc.checks import compcommon as cc

    out = []
    levels = [(0, False), (1, False)] + ([(2, True)] if tier == "thorough" else [])
    for level, core_only in levels:
        for cid in uprob.ids(level, uprob.BASE_SLOTS, core_only):
            if level == 2:
                names = [s for s, _ in cid]
                same_action = any(all(n in v for n in names) for v in cc.ACT_SLOTS.values())
                mixed = sum(1 for n in names if "." in n) == 1
                if not (same_action or mixed):
                    continue
            out.append((level, cid))
    return out


def shards(tier, seed):
    a = su.chunk_cases(_ids(tier), seed, per_level_chunks={0: 1, 1: 32, 2: 256 if tier == "thorough" else 64})
    for s in a:
        s["family"] = "utemp"
    b = su.chunk_cases(_uprob_ids(tier), seed, per_level_chunks={0: 1, 1: 16, 2: 48})
    for s in b:
        s["family"] = "uprob"
    # level by level (the runner reports completed levels in shard order)
    return sorted(a + b, key=lambda s: s["level"])


def run_shard(shard, tier, seed):
    acc = Acc()
    fn = check_case if shard["family"] == "utemp" else check_uprob_case
    for cid in shard["cids"]:
        fn(tuple(tuple(x) for x in cid), tier, acc)
    return acc


def replay(case):
    acc = Acc()
    fn = check_uprob_case if case.get("family") == "uprob" else check_case
    fn(tuple(tuple(x) for x in case["cid"]), case.get("tier", "quick"), acc, only=tc.plan_from_json(case["plan"]))
    return [(fp, e["cases"][0]["what"]) for fp, e in acc.viol.items()]


finalize = su.prune_supersets


def _relevant(cid, plan):
    used = set(an for _s, an, _a, _d in plan)
    for s, _ in cid:
        owner = s.split(".")[0]
        if owner in ("d1", "d2", "i1") and owner not in used:
            return False
    return True


def _account(acc, ref, plan, timed):
    acc.count("evaluations")
    acc.count("states", 2 * sum(1 for p in plan if p[3] is not None) + sum(1 for p in plan if p[3] is None) + 1)
    acc.count("transitions", max(1, len(plan)))
    if len(plan) >= 2 or (timed and plan):
        acc.count("nontrivial")
    if len(plan) >= 2:
        if tc.simultaneous_interference(ref, plan) is not None:
            acc.outcome("valid:with-interfering-simultaneous-happenings")
        elif len(set(tc.happening_times(ref, plan))) < len(tc.happening_times(ref, plan)):
            acc.outcome("valid:with-non-interfering-simultaneous-happenings")
        else:
            acc.outcome("valid:all-happenings-separated")


def check_case(cid, tier, acc, only=None):
    ps = utemp.make(dict(cid))
    lab = utemp.label(cid)
    b = su.build(ps, acc)
    if b is None:
        return
    prob, _ctx = b
    acc.count("problems")
    ref = TempRef(ps)
    timed = bool(ps.get("teffs") or ps.get("tgoals"))
    n_valid = 0
    for plan in [only] if only is not None else plans_for(cid, tier):
        if only is None and cid and not _relevant(cid, plan):
            continue
        verdict, _why = ref.validate(list(plan))
        acc.count("plans_enumerated")
        if verdict != "VALID":
            acc.outcome("not-valid:" + verdict)
            continue
        n_valid += 1
        _account(acc, ref, plan, timed)
        case = {"family": "utemp", "cid": tj(cid), "tier": tier, "plan": tc.plan_json(plan)}
        if check_plan(prob, ref, plan, lab, acc, case, "", False):
            acc.count("traces")
    if only is None:
        acc.sample({"family": "utemp", "cid": tj(cid), "valid_plans": n_valid})


# ---- family uprob ---------------------------------------------------------------------------
def check_uprob_case(cid, tier, acc, only=None):
    from mc.gen import uprob

    ps = uprob.make(dict(cid))
    lab = ",".join("%s#%d" % (s, i) for s, i in cid) or "base"
    b = su.build(ps, acc)
    if b is None:
        return
    prob, _ctx = b
    ref = TempRef(ps)
    if not ref.state_ok(ref.initial_state()):
        acc.count("skipped_malformed_initial")
        return
    acc.count("problems")
    gas = ref.ground_actions()
    ts = [(t, an, args, None) for an, args in gas for t in UPROB_TIMES]
    if only is not None:
        todo = [only]
    else:
        todo = [()]
        for k in (1, 2):
            for combo in combinations_with_replacement(range(len(ts)), k):
                todo.append(tuple(ts[i] for i in combo))
    n_valid = 0
    for plan in todo:
        if only is None and cid:
            used = set(an for _s, an, _a, _d in plan)
            if any(s.split(".")[0] not in used for s, _ in cid if "." in s):
                continue
        verdict, _why = ref.validate(list(plan), check_invariants=True)
        acc.count("plans_enumerated")
        if verdict != "VALID":
            acc.outcome("not-valid:" + verdict)
            continue
        n_valid += 1
        _account(acc, ref, plan, False)
        case = {"family": "uprob", "cid": tj(cid), "tier": tier, "plan": tc.plan_json(plan)}
        if check_plan(prob, ref, plan, lab, acc, case, "uprob:", True):
            acc.count("traces")
    if only is None:
        acc.sample({"family": "uprob", "cid": tj(cid), "valid_plans": n_valid})


def _node(n):
    from unified_planning.model import TimepointKind as TK

    return {TK.GLOBAL_START: "GS", TK.GLOBAL_END: "GE", TK.START: "S", TK.END: "E"}[n.kind]


def _V(acc, pre, fp, what, case):
    acc.violation(pre + fp, what, case)


def check_plan(prob, ref, plan, lab, acc, case, pre, inv):
    from unified_planning.plans import PlanKind
    from unified_planning.model import TimepointKind as TK

    ttp, steps = tc.to_ttp(prob, plan)
    # ---- forward ----------------------------------------------------------------------------
    try:
        stn = ttp.convert_to(PlanKind.STN_PLAN, prob)
    except Exception as e:
        if type(e).__name__ == "UPUsageError" and "fluents inside the parameter of fluents" in str(e):
            acc.count("skipped_documented_nested_fluents")
            return False
        _V(
            acc,
            pre,
            "to-stn-raises:%s|%s" % (type(e).__name__, lab),
            "convert_to(STN_PLAN) raised %s: %s" % (type(e).__name__, str(e)[:160]),
            case,
        )
        acc.outcome("to-stn-raises")
        return False
    try:
        consistent = stn.is_consistent()
        cons = stn.get_constraints()
    except Exception as e:
        _V(
            acc,
            pre,
            "stn-api-raises:%s|%s" % (type(e).__name__, lab),
            "is_consistent/get_constraints raised %s: %s" % (type(e).__name__, str(e)[:160]),
            case,
        )
        return False
    good = True
    if not consistent:
        _V(acc, pre, "inconsistent|%s" % lab, "STN plan of a valid plan is not consistent", case)
        acc.outcome("inconsistent")
        good = False
    # original schedule as a model
    T = {}
    by_ai = {id(ai): (s, d) for s, ai, d in steps}
    makespan = max([Fraction(0)] + [s + (d or 0) for s, _ai, d in steps])
    flat = []
    unknown = None
    for a, lst in cons.items():
        for lo, hi, bnode in lst:
            flat.append((a, lo, hi, bnode))
            for nd in (a, bnode):
                if nd in T:
                    continue
                if nd.kind == TK.GLOBAL_START:
                    T[nd] = Fraction(0)
                elif nd.kind == TK.GLOBAL_END:
                    T[nd] = makespan
                else:
                    sd = by_ai.get(id(nd.action_instance))
                    if sd is None or (nd.kind == TK.END and sd[1] is None):
                        unknown = nd
                        continue
                    T[nd] = sd[0] if nd.kind == TK.START else sd[0] + sd[1]
    if unknown is not None:
        _V(acc, pre, "foreign-node|%s" % lab, "STN mentions a node that is not a start/end of a plan step: %s" % (unknown,), case)
        return False
    # every plan step must be represented
    need = set()
    for s, ai, d in steps:
        need.add((id(ai), "S"))
        if d is not None:
            need.add((id(ai), "E"))
    have = set((id(nd.action_instance), _node(nd)) for nd in T if nd.action_instance is not None)
    if need - have:
        _V(acc, pre, "missing-node|%s" % lab, "a plan step has no node in the STN plan", case)
        good = False
    diff = []  # difference constraints x - y <= b for the reference arithmetic
    for a, lo, hi, bnode in flat:
        delta = T[bnode] - T[a]
        if lo is not None:
            diff.append((a, bnode, -Fraction(lo)))
            if delta < lo:
                _V(
            acc,
            pre,
                    "orig-violates:%s->%s:lower|%s" % (_node(a), _node(bnode), lab),
                    "original schedule has T(%s)-T(%s) = %s < lower bound %s" % (bnode, a, delta, lo),
                    case,
                )
                acc.outcome("orig-violates-lower")
                good = False
        if hi is not None:
            diff.append((bnode, a, Fraction(hi)))
            if delta > hi:
                _V(
            acc,
            pre,
                    "orig-violates:%s->%s:upper|%s" % (_node(a), _node(bnode), lab),
                    "original schedule has T(%s)-T(%s) = %s > upper bound %s" % (bnode, a, delta, hi),
                    case,
                )
                acc.outcome("orig-violates-upper")
                good = False
    # durations are part of the plan: the STN must pin them
    for s, ai, d in steps:
        if d is None:
            continue
        pinned = False
        for a, lo, hi, bnode in flat:
            if a.action_instance is ai and bnode.action_instance is ai and a.kind == TK.START and bnode.kind == TK.END:
                pinned = lo == d and hi == d
        if not pinned:
            _V(acc, pre, "duration-not-pinned|%s" % lab, "no constraint end - start = duration for a durative step", case)
            good = False
    events = list(T)
    # a model proves consistency; Floyd-Warshall only when the original schedule is no model
    ref_consistent = True if rstn.satisfies(T, diff) else rstn.consistent(events, diff)
    if consistent != ref_consistent:
        _V(
            acc,
            pre,
            "consistency-disagrees:impl=%s|%s" % (consistent, lab),
            "is_consistent() = %s but Floyd-Warshall on get_constraints() says %s" % (consistent, not consistent),
            case,
        )
        good = False
    if not consistent:
        return False
    # ---- back -------------------------------------------------------------------------------
    try:
        back = stn.convert_to(PlanKind.TIME_TRIGGERED_PLAN, prob)
        bplan = tc.from_ttp(back)
    except Exception as e:
        _V(
            acc,
            pre,
            "to-ttp-raises:%s|%s" % (type(e).__name__, lab),
            "STN convert_to(TIME_TRIGGERED_PLAN) raised %s: %s" % (type(e).__name__, str(e)[:160]),
            case,
        )
        acc.outcome("to-ttp-raises")
        return False
    if tc.instances_key(bplan) != tc.instances_key(plan):
        _V(acc, pre, "back-instances-differ|%s" % lab, "back-converted plan has other action instances: %s" % (tc.plan_json(bplan),), case)
        return False
    if sorted((an, args, d) for _s, an, args, d in bplan) != sorted((an, args, d) for _s, an, args, d in plan):
        _V(acc, pre, "back-durations-differ|%s" % lab, "back-converted plan changed a duration: %s" % (tc.plan_json(bplan),), case)
        good = False
    # the back-converted schedule must itself satisfy the constraints
    bT = dict(T)
    bmap = {}
    for s, ai, d in back.timed_actions:
        bmap[id(ai)] = (Fraction(s), d)
    for nd in T:
        if nd.action_instance is not None and id(nd.action_instance) in bmap:
            s, d = bmap[id(nd.action_instance)]
            bT[nd] = s if nd.kind == TK.START else s + d
    bms = max([Fraction(0)] + [s + (d or 0) for s, d in bmap.values()])
    for nd in T:
        if nd.kind == TK.GLOBAL_END:
            bT[nd] = bms
    if not rstn.satisfies(bT, diff):
        _V(acc, pre, "back-violates-constraints|%s" % lab, "back-converted schedule violates a constraint of the STN it came from: %s" % (tc.plan_json(bplan),), case)
        good = False
    verdict, why = ref.validate(list(bplan), check_invariants=inv)
    if verdict == "AMBIGUOUS":
        acc.count("skipped_back_ambiguous")
        acc.outcome("back:AMBIGUOUS")
        return False
    acc.outcome("back:%s" % verdict)
    if verdict != "VALID":
        sub = (why or "").split(" at ")[0]
        if sub.startswith("duration"):
            sub = "duration outside its bounds"  # below/above are one root cause: the start moved
        _V(
            acc,
            pre,
            "back-invalid:%s|%s" % (sub, lab),
            "back-converted plan %s is INVALID under the reference (%s)" % (tc.plan_json(bplan), why),
            case,
        )
        good = False
    return good
