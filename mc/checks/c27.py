"""C27 - deordering a valid sequential plan keeps every linearisation valid (DESIGN 4/C27).

Per U-PROB instance (no invariants / trajectory constraints): every valid plan of length
2..k made of distinct ground action instances is deordered with the real
SequentialPlan.convert_to(PARTIAL_ORDER_PLAN); ALL linearisations (all_sequential_plans) are
executed with the reference: each must be valid and reach the same final state; and every
pair of steps where one writes a ground fluent the other reads or writes (reference
read/write sets on the executed trace) must keep its order in every linearisation.
"""
from __future__ import annotations

from mc.kernel.runner import Acc
from mc.gen import uprob
from mc.gen.spec import tj
from mc.ref.seqsem import RefProblem, canon
from mc.checks import simutil as su
from mc.checks import compcommon as cc
from mc.checks.c01 import uprob_label

PROPERTY = "C27"
LEVEL = "model_checking"
RULE = (
    "U-PROB instances without the inv slot (levels 0,1; level 2: core pairs on one action or an "
    "action slot with goal/init; thorough all core pairs) plus the 36 problems of the family intarg "
    "(integer-indexed fluents written / read through arithmetic argument expressions); all valid plans of 2..k distinct ground "
    "actions; states = plan prefixes executed, transitions = steps of linearisations executed; "
    "non-trivial = plan whose deordering has more than one linearisation"
)
ASSUMPTIONS = [
    "reference semantics and reference read/write sets (mc/ref/seqsem.py rw_sets)",
    "plans for which the library documents UPUsageError (fluents nested in fluent arguments) are skipped",
]

SLOTS = [s for s in uprob.BASE_SLOTS if s != "inv"]


def bounds(tier):
    return {"k": "3 for level 0 and core level-1 instances, else 2" if tier == "quick" else 3, "slots": SLOTS}


def _ids(tier):
    out = []
    for level, core_only in uprob.plan(tier):
        if level == 3:
            continue
        for cid in uprob.ids(level, SLOTS, core_only):
            if level == 2 and tier == "quick":
                names = [s for s, _ in cid]
                same_action = any(all(n in v for n in names) for v in cc.ACT_SLOTS.values())
                mixed = sum(1 for n in names if "." in n) == 1 and any(n in ("goal", "init") for n in names)
                if not (same_action or mixed):
                    continue
            out.append((level, cid))
    return out


def shards(tier, seed):
    return [{"level": 0, "family": "intarg"}] + su.chunk_cases(_ids(tier), seed, per_level_chunks={0: 1, 1: 16, 2: 64})


def run_shard(shard, tier, seed):
    acc = Acc()
    if shard.get("family") == "intarg":
        for i in range(len(INTARG)):
            check_intarg(i, 3, acc)
        return acc
    for cid in shard["cids"]:
        cid = tuple(tuple(x) for x in cid)
        check_case(cid, _k(cid, tier), acc)
    return acc


from mc.gen.uprob import INTARG  # family intarg (integer-indexed fluents), shared with C01/C02/compilers


def check_intarg(i, k, acc):
    lab, ps = INTARG[i]
    check_spec(ps, lab, {"intarg": i, "k": k}, k, acc)


def _k(cid, tier):
    if tier != "quick":
        return 3
    if len(cid) == 0:
        return 3
    if len(cid) == 1 and uprob.pool(cid[0][0])[cid[0][1]][1]:
        return 3
    return 2


def replay(case):
    acc = Acc()
    if "intarg" in case:
        check_intarg(case["intarg"], case.get("k", 3), acc)
        return [(fp, e["cases"][0]["what"]) for fp, e in acc.viol.items()]
    check_case(tuple(tuple(x) for x in case["cid"]), case.get("k", 3), acc)
    return [(fp, e["cases"][0]["what"]) for fp, e in acc.viol.items()]


finalize = su.prune_supersets


def check_case(cid, k, acc):
    check_spec(uprob.make(dict(cid)), uprob_label(cid), {"cid": tj(cid), "k": k}, k, acc)


def check_spec(ps, lab, case, k, acc):
    from unified_planning.plans import SequentialPlan, ActionInstance, PlanKind
    from unified_planning.exceptions import UPUsageError

    b = su.build(ps, acc)
    if b is None:
        return
    prob, ctx = b
    ref = RefProblem(ps)
    init = ref.initial_state()
    if not ref.state_ok(init):
        acc.count("skipped_malformed_initial")
        return
    acc.count("problems")
    tr = su.Translator(prob, ctx, ref)
    gas = ref.ground_actions()
    up_gas = [tr.up_action(an, args) for an, args in gas]
    env = prob.environment

    def viol(sub, what, plan, lin=None):
        acc.violation(
            "%s|%s" % (sub, lab),
            what,
            dict(case, plan=[[gas[j][0], list(gas[j][1])] for j in plan], linearisation=lin),
        )

    n = 0
    for plan, states in cc.valid_plans(ref, k, gas):
        acc.count("states", len(plan) + 1)
        if len(plan) < 2 or len(set(plan)) != len(plan):
            continue
        n += 1
        ais = [ActionInstance(up_gas[j][0], up_gas[j][1]) for j in plan]
        pos = {id(ai): i for i, ai in enumerate(ais)}
        try:
            pop = SequentialPlan(ais, env).convert_to(PlanKind.PARTIAL_ORDER_PLAN, prob)
            lins = list(pop.all_sequential_plans())
        except UPUsageError as e:
            acc.count("skipped_documented_usage_error")
            continue
        except Exception as e:
            viol("deorder-raises:" + type(e).__name__, "convert_to(PARTIAL_ORDER_PLAN) raised %s: %s" % (type(e).__name__, str(e)[:120]), plan)
            continue
        acc.count("evaluations")
        if len(lins) > 1:
            acc.count("nontrivial")
        acc.outcome("linearisations=%d" % len(lins))
        orders = []
        bad = False
        for lp in lins:
            try:
                order = [pos[id(ai)] for ai in lp.actions]
            except KeyError:
                viol("foreign-action-instance", "a linearisation contains an action instance that is not in the plan", plan)
                bad = True
                break
            if sorted(order) != list(range(len(plan))):
                viol("not-a-permutation", "linearisation %s is not a permutation of the plan" % (order,), plan, order)
                bad = True
                break
            orders.append(order)
            steps = [gas[plan[i]] for i in order]
            acc.count("transitions", len(steps))
            sts = cc.Compiled.run(ref, steps)
            if sts is None:
                viol("linearisation-not-executable", "linearisation %s of the deordered plan is not executable" % (order,), plan, order)
                bad = True
                break
            if not ref.is_goal(sts[-1]):
                viol("linearisation-misses-goal", "linearisation %s does not reach the goal" % (order,), plan, order)
                bad = True
                break
            if canon(sts[-1]) != canon(states[-1]):
                viol("linearisation-final-state", "linearisation %s ends in a different state" % (order,), plan, order)
                bad = True
                break
        if bad:
            continue
        # ordering clause on the executed trace
        rw = [ref.rw_sets(states[i], gas[plan[i]][0], gas[plan[i]][1]) for i in range(len(plan))]
        for i in range(len(plan)):
            for j in range(i + 1, len(plan)):
                ri, wi = rw[i]
                rj, wj = rw[j]
                if (wi & (rj | wj)) or (wj & (ri | wi)):
                    for order in orders:
                        if order.index(i) > order.index(j):
                            viol(
                                "order-not-kept",
                                "steps %d and %d conflict on %s but linearisation %s swaps them" % (i, j, sorted((wi & (rj | wj)) | (wj & (ri | wi)))[:2], order),
                                plan,
                                order,
                            )
                            bad = True
                            break
                if bad:
                    break
            if bad:
                break
        if not bad:
            acc.count("traces", len(lins))
    acc.sample(dict(case, valid_plans_deordered=n))
