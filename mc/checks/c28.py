"""C28 - timed-to-sequential plans convert back to valid temporal plans (DESIGN 4/C28).

Per U-TEMP problem inside TimedToSequential's supported kind (start / end / over-all conditions
with every openness, start / end effects, all duration forms incl. open ends and
fluent-dependent bounds):

  compile with the real TimedToSequential, extract the compiled (instantaneous) problem with
  problem_to_spec, enumerate ALL sequential plans of <= k steps that the sequential REFERENCE
  (mc/ref/seqsem.py) calls valid for the compiled problem, convert each back with the real
  res.plan_back_conversion and judge the resulting time-triggered plan with the REFERENCE
  temporal semantics (mc/ref/tempsem.py) on the ORIGINAL problem: it must be VALID (so in
  particular every chosen duration satisfies its interval, strictly on open ends, with the bounds
  evaluated in the state before the start).

Documented rejections (UPUnsupportedProblemTypeError raised by compile) and problems outside
`supports` are skipped and counted; any other compile exception is C08's subject (skipped,
counted).
"""
from __future__ import annotations

from fractions import Fraction

from mc.kernel.runner import Acc
from mc.gen import utemp
from mc.gen import problem as gp
from mc.gen.spec import tj
from mc.ref.seqsem import RefProblem
from mc.ref.tempsem import TempRef
from mc.checks import simutil as su
from mc.checks import compcommon as cc
from mc.checks import tempcommon as tc

PROPERTY = "C28"
LEVEL = "model_checking"
RULE = (
    "U-TEMP problems over the slots of the compiler's kind (d1.dur d1.cond1 d1.cond2 d1.eff2 d2.dur "
    "d2.cond1 d2.eff3 i1.pre i1.eff2 goal, plus the extra duration forms d1.durx / d2.durx of this "
    "module); deviation levels 0,1 complete over full pools, level 2 all pairs over core pools plus all (condition slot, effect slot) pairs of one durative "
    "action over full pools [quick] / all pairs over full pools [thorough], level 3 core triples = a duration form of one "
    "durative action with two more slots of that action [thorough]; per in-kind problem ALL valid plans of the compiled problem with <= k steps "
    "(exhaustive DFS with the sequential reference); states = plan prefixes reached by the search, "
    "transitions = applicable steps explored, traces = valid compiled plans whose back-converted "
    "time-triggered plan the temporal reference accepts for the original problem; non-trivial = "
    "valid compiled plan containing a compiled durative action"
)
ASSUMPTIONS = [
    "both sides judged by reference models: mc/ref/seqsem.py on the extracted compiled problem, mc/ref/tempsem.py on the original problem",
    "skipped and counted: problems outside TimedToSequential.supports(kind); compile raising UPUnsupportedProblemTypeError (documented: intermediate effects, start conditional effects feeding end conditions/effects); other compile exceptions (C08)",
    "AMBIGUOUS reference verdicts on the back-converted plan are skipped (none expected: the back conversion serialises the actions)",
]

T2S_SLOTS = ["d1.dur", "d1.durx", "d1.cond1", "d1.cond2", "d1.eff2", "d2.dur", "d2.durx", "d2.cond1", "d2.eff3", "i1.pre", "i1.eff2", "goal"]

n, c, X, I = utemp.n, utemp.c, utemp.X, utemp.I
PLUS = lambda a, b: ("+", a, b)
# extra duration forms: open ends combined with fluent-dependent bounds, mixed constant/fluent bounds
DURX = {
    "d1.durx": [
        ((PLUS(n, I(1)), PLUS(n, I(3)), True, False), 1),  # (n+1, n+3]
        ((PLUS(n, I(1)), PLUS(n, I(2)), False, True), 1),  # [n+1, n+2)
        ((PLUS(n, I(1)), PLUS(n, I(2)), True, True), 0),  # (n+1, n+2)
        ((c(X), I(3), True, False), 1),  # (c(x), 3]
        ((I(1), PLUS(n, I(2)), True, True), 0),  # (1, n+2)
        ((("r", 1, 2), ("r", 1, 2), False, False), 0),  # [1/2, 1/2]
        ((c(X), PLUS(c(X), n), False, False), 0),  # [c(x), c(x)+n]  (degenerate when n = 0)
        # a duration-only fluent (pruned by the compiler) mixed, in BOTH bounds, with a fluent that
        # earlier steps of the plan modify
        ((PLUS(c(X), n), PLUS(PLUS(c(X), n), I(2)), False, False), 0),  # [c(x)+n, c(x)+n+2]
    ],
    "d2.durx": [
        ((PLUS(n, I(1)), PLUS(n, I(3)), True, False), 1),
        ((PLUS(n, I(1)), PLUS(n, I(2)), False, True), 0),
        ((I(1), PLUS(n, I(2)), True, True), 0),
        ((I(2), ("r", 5, 2), True, False), 0),  # (2, 5/2]
    ],
}


def pool(slot):
    return DURX[slot] if slot in DURX else utemp.pool(slot)


def make(cid):
    base = {s: i for s, i in cid if s not in DURX}
    ps = utemp.make(base)
    extra = {s: i for s, i in cid if s in DURX}
    if extra:
        das = []
        for a in ps["dactions"]:
            k = a["name"] + ".durx"
            if k in extra:
                a = dict(a)
                a["dur"] = DURX[k][extra[k]][0]
            das.append(a)
        ps["dactions"] = tuple(das)
    return ps


def label(cid):
    return ",".join("%s#%d" % (s, i) for s, i in cid) or "base"


def K(tier, level=2):
    if tier == "quick":
        return 4 if level <= 1 else 3
    return 4


def bounds(tier):
    return {
        "k": "4 for deviation levels 0,1; 3 for level 2" if tier == "quick" else 4,
        "slots": T2S_SLOTS,
        "pool_sizes": {s: len(pool(s)) for s in T2S_SLOTS},
        "deviation_levels": [0, 1, 2] if tier == "quick" else [0, 1, 2, "3 (core triples on one durative action incl. its duration)"],
    }


def _ids(tier):
    from itertools import combinations, product

    out = []
    levels = [(0, False), (1, False), (2, True)] if tier == "quick" else [(0, False), (1, False), (2, False), (3, True)]
    for level, core_only in levels:
        for combo in combinations(T2S_SLOTS, level):
            names = set(combo)
            if {"d1.dur", "d1.durx"} <= names or {"d2.dur", "d2.durx"} <= names:
                continue  # one duration per action
            if level == 3:
                # triples: a duration form of one durative action with two more slots of that action
                owners = set(s.split(".")[0] for s in combo)
                if len(owners) != 1 or not any(s.endswith(".dur") or s.endswith(".durx") for s in combo):
                    continue
            full = not core_only
            if level == 2 and core_only:
                # quick: a condition slot and an effect slot of ONE durative action interact through
                # the start-effect substitution, so these pairs run over the full pools
                owners = set(s.split(".")[0] for s in combo)
                kinds = sorted(s.split(".")[-1][:4] for s in combo)
                full = len(owners) == 1 and owners <= {"d1", "d2"} and kinds in (["cond", "eff2"], ["cond", "eff3"])
            idxs = [[i for i, (_x, core) in enumerate(pool(s)) if core or full] for s in combo]
            for pick in product(*idxs):
                out.append((level, tuple(zip(combo, pick))))
    return out


def shards(tier, seed):
    return su.chunk_cases(_ids(tier), seed, per_level_chunks={0: 1, 1: 16, 2: 64 if tier == "quick" else 192, 3: 128})


def run_shard(shard, tier, seed):
    acc = Acc()
    for cid in shard["cids"]:
        check_case(tuple(tuple(x) for x in cid), K(tier, len(cid)), acc)
    return acc


def replay(case):
    acc = Acc()
    check_case(tuple(tuple(x) for x in case["cid"]), case.get("k", 3), acc, only=case.get("cplan"))
    return [(fp, e["cases"][0]["what"]) for fp, e in acc.viol.items()]


finalize = su.prune_supersets

DOCUMENTED = ("UPUnsupportedProblemTypeError",)


def check_case(cid, k, acc, only=None):
    from unified_planning.engines.compilers.timed_to_sequential import TimedToSequential
    from unified_planning.engines import CompilationKind as CK
    from unified_planning.plans import SequentialPlan, ActionInstance

    ps = make(cid)
    lab = label(cid)
    b = su.build(ps, acc)
    if b is None:
        return
    prob, _ctx = b
    if not TimedToSequential.supports(prob.kind):
        acc.count("skipped_unsupported_kind")
        acc.outcome("skipped:unsupported-kind")
        return
    try:
        res = TimedToSequential().compile(prob, CK.TIMED_TO_SEQUENTIAL)
    except Exception as e:
        if type(e).__name__ in DOCUMENTED:
            acc.count("skipped_documented_rejection")
            acc.outcome("skipped:documented:" + str(e)[:60])
        else:
            acc.count("skipped_compile_raises")
            acc.outcome("skipped:compile-raises:" + type(e).__name__)
        return
    cprob = res.problem
    cps = gp.problem_to_spec(cprob)
    if "unsupported" in cps or cps.get("dactions"):
        acc.count("skipped_compiled_not_sequential")
        acc.outcome("skipped:compiled-not-sequential")
        return
    back = res.plan_back_conversion
    if back is None:
        # older trees never ran CompilerResult's post-init; this compiler always passes its own
        acc.violation("no-plan-back-conversion|%s" % lab, "CompilerResult.plan_back_conversion is None", {"cid": tj(cid), "k": k})
        return
    acc.count("problems")
    ref = TempRef(ps)
    cref = RefProblem(cps)
    gas = cref.ground_actions()
    em = cprob.environment.expression_manager
    durative = set(a["name"] for a in ps.get("dactions", ()))
    n_valid = 0

    def judge(plan_idx):
        steps = [gas[j] for j in plan_idx]
        case = {"cid": tj(cid), "k": k, "cplan": [int(j) for j in plan_idx], "compiled_plan": [[an, list(args)] for an, args in steps]}
        sp = SequentialPlan(
            [ActionInstance(cprob.action(an), tuple(cc._val(em, cprob, a) for a in args)) for an, args in steps],
            cprob.environment,
        )
        try:
            ttp = back(sp)
            bplan = tc.from_ttp(ttp)
        except Exception as e:
            acc.violation(
                "back-raises:%s|%s" % (type(e).__name__, lab),
                "plan_back_conversion raised %s: %s on compiled plan %s" % (type(e).__name__, str(e)[:120], case["compiled_plan"]),
                case,
            )
            acc.outcome("back-raises:" + type(e).__name__)
            return False
        if [(an, args) for _s, an, args, _d in sorted(bplan, key=lambda x: x[0])] != [(an, tuple(args)) for an, args in steps]:
            acc.violation(
                "back-other-actions|%s" % lab,
                "back-converted plan %s is not the compiled plan's action sequence %s" % (tc.plan_json(bplan), case["compiled_plan"]),
                case,
            )
            return False
        verdict, why = ref.validate(list(bplan))
        if verdict == "AMBIGUOUS":
            acc.count("skipped_back_ambiguous")
            acc.outcome("back:AMBIGUOUS:" + str(why))
            return False
        acc.outcome("back:" + verdict)
        if verdict != "VALID":
            sub = (why or "").split(" at ")[0]
            acc.violation(
                "back-invalid:%s|%s" % (sub, lab),
                "compiled plan %s is valid for the compiled problem, but its back conversion %s is INVALID for the original problem (%s)"
                % (case["compiled_plan"], tc.plan_json(bplan), why),
                case,
            )
            return False
        return True

    if only is not None:
        judge(tuple(only))
        return
    for plan_idx, states in _valid_plans(cref, k, gas, acc):
        n_valid += 1
        acc.count("evaluations")
        if any(gas[j][0] in durative for j in plan_idx):
            acc.count("nontrivial")
        if judge(plan_idx):
            acc.count("traces")
    acc.sample({"cid": tj(cid), "valid_compiled_plans": n_valid})


def _valid_plans(ref, k, gas, acc):
    """cc.valid_plans with search counters (states = prefixes reached, transitions = steps tried)."""
    init = ref.initial_state()

    def rec(plan, states):
        acc.count("states")
        if ref.is_goal(states[-1]) and cc.Compiled.traj_ok(ref, states):
            yield plan, states
        if len(plan) >= k:
            return
        for j, (an, args) in enumerate(gas):
            nxt, _ = ref.apply(states[-1], an, args)
            if nxt is not None:
                acc.count("transitions")
                yield from rec(plan + (j,), states + [nxt])

    yield from rec((), [init])
