"""C29 - durative-actions-to-processes plan conversions are mutually inverse (DESIGN 4/C29).

Per U-TEMP problem inside DurativeActionToProcesses' supported kind (non-static fluents in
durations are outside it), compile once and push EVERY time-triggered plan of <= 3 timed steps
on the (start, duration) grid - valid or not, the statement is about the conversions - through
res.plan_forward_conversion and res.plan_back_conversion:

  roundtrip   back(forward(plan)) has the same multiset of (start, action, params, duration)
  end-event   every action of the forward plan is either the compiled start action of a step,
              placed at the step's start, or the compiled (first-)end action of a step, placed
              inside (start, start + duration]; every step of a variable-duration action has
              exactly one such end event and fixed-duration steps have none
  forward     the forward plan only uses actions of the compiled problem, the back plan only
              actions of the original problem

Scope: a step of an action whose duration is FIXED (closed interval with equal bounds, constant
or parameter dependent) carries that duration - it is not recorded in the compiled plan, the
back conversion re-derives it from the model, so another number is not a plan of the original
problem the conversion could reproduce; steps of variable-duration actions take every grid
duration.  Plans in which a variable-duration step's first end time-point (end - 1 in the pools)
does not lie after the start have no compiled counterpart (the conversion asserts
0 < delay) and are skipped and counted.
"""
from __future__ import annotations

from fractions import Fraction
from itertools import combinations_with_replacement

from mc.kernel.runner import Acc
from mc.gen import utemp
from mc.gen.spec import tj
from mc.ref.tempsem import TempRef
from mc.ref.eval import ev, Bottom
from mc.checks import simutil as su
from mc.checks import tempcommon as tc

PROPERTY = "C29"
LEVEL = "exploration"
RULE = (
    "U-TEMP problems (deviation levels 0,1 over full pools; level 2: pairs over core pools [quick] / "
    "all pairs on the slots of one durative action plus core pairs [thorough]) inside "
    "DurativeActionToProcesses.supports; per compiled problem all multisets of <= 3 timed steps over "
    "the start grid x (the fixed duration of fixed-duration actions | every grid duration for "
    "variable-duration actions) [levels 0,1; also in reversed listing order] / <= 2 steps [level 2]; plans "
    "in which one ground durative action overlaps itself are skipped; one evaluation = one plan pushed "
    "through forward and back; non-trivial = plan with >= 2 steps, or with a variable-duration step "
    "(its end event is placed by the forward conversion); plus the family intdur (4 problems: an action "
    "whose fixed duration is k, 2k-1, 3-k, k/2 for an integer parameter k in {1,2}), plans of <= 3 steps containing it"
)
ASSUMPTIONS = [
    "fixed-duration steps carry the duration fixed by the model (evaluated by the reference on the initial state: only static fluents / parameters are in the compiler's kind)",
    "skipped and counted: problems outside supports(kind); compile exceptions (C08's subject); plans with a variable-duration step whose first end time-point is not after its start",
    "plans need not be valid (the statement is about the conversions), except that two executions of the same ground durative action never overlap (no compiled counterpart by construction: per-instance running flag)",
]

F = Fraction
GRID = {
    "quick": ([F(0), F(1), F(2)], [F(1), F(2), F(5, 2)]),
    "thorough": ([F(0), F(1, 2), F(1), F(2), F(3)], [F(1), F(3, 2), F(2), F(5, 2), F(3)]),
}
MAX_STEPS = 3


def bounds(tier):
    s, d = GRID[tier]
    return {"steps": MAX_STEPS, "starts": [str(x) for x in s], "durations_for_variable_duration_actions": [str(x) for x in d]}


def _ids(tier):
    out = []
    for level, core_only in [(0, False), (1, False), (2, True)]:
        for cid, _ps in utemp.instances(level, None, core_only):
            out.append((level, cid))
    for i in range(len(INTDUR)):
        out.append((1, (("intdur", i),)))
    if tier == "thorough":
        seen = set(c for _l, c in out)
        for cid, _ps in utemp.instances(2, None, False):
            owners = set(s.split(".")[0] for s, _ in cid)
            if len(owners) == 1 and owners <= {"d1", "d2"} and cid not in seen:
                out.append((2, cid))
    return out


def shards(tier, seed):
    return su.chunk_cases(_ids(tier), seed, per_level_chunks={0: 1, 1: 32, 2: 96 if tier == "quick" else 256})


def run_shard(shard, tier, seed):
    acc = Acc()
    for cid in shard["cids"]:
        check_case(tuple(tuple(x) for x in cid), tier, acc)
    return acc


def replay(case):
    acc = Acc()
    check_case(tuple(tuple(x) for x in case["cid"]), case.get("tier", "quick"), acc, only=tc.plan_from_json(case["plan"]))
    return [(fp, e["cases"][0]["what"]) for fp, e in acc.viol.items()]


finalize = su.prune_supersets


def _fixed_duration(ref, a, args):
    """the duration fixed by the model, or None for a variable-duration action"""
    lo, hi, lop, rop = a["dur"]
    if lop or rop or lo != hi:
        return None
    params = dict(zip([pn for pn, _ in a["params"]], args))
    return Fraction(ev(lo, ref.interp(ref.initial_state(), params)))


def _first_end_delay(a):
    """delay (<= 0) of the earliest end-relative time-point of the action, None if none"""
    best = None
    for iv, _c in a.get("conds", ()):
        for tm in (iv[0], iv[1]):
            if tm[0] == "end":
                d = Fraction(tm[1]) if not isinstance(tm[1], tuple) else Fraction(*tm[1])
                best = d if best is None or d < best else best
    for tm, _e in a.get("effs", ()):
        if tm[0] == "end":
            d = Fraction(tm[1]) if not isinstance(tm[1], tuple) else Fraction(*tm[1])
            best = d if best is None or d < best else best
    return best


def _timed_steps(ref, tier, steps):
    starts, durs = GRID[tier]
    out = []
    for an, args in steps:
        if an in ref.dactions:
            fd = _fixed_duration(ref, ref.dactions[an], args)
            for s in starts:
                for d in [fd] if fd is not None else durs:
                    out.append((s, an, args, d))
        else:
            for s in starts:
                out.append((s, an, args, None))
    return out


# family intdur: a durative action whose FIXED duration is arithmetic in an integer parameter, so
# two instances of one action have different durations that no fluent distinguishes
def _intdur_specs():
    I, K = utemp.I, ("p", "k")
    out = []
    for name, d in [("k", K), ("2k-1", ("-", ("*", I(2), K), I(1))), ("3-k", ("-", I(3), K)), ("k/2", ("/", K, I(2)))]:
        ps = dict(utemp.make({}))
        dk = {
            "name": "dk",
            "params": (("k", ("int", 1, 2)),),
            "dur": (d, d, False, False),
            "conds": (),
            "effs": ((utemp.END, utemp.eff("assign", utemp.b, utemp.TRUE)),),
        }
        ps["dactions"] = tuple(a for a in ps["dactions"] if a["name"] == "d2") + (dk,)
        out.append(("intdur:" + name, ps))
    return out


INTDUR = _intdur_specs()
INTDUR_STEPS = [("dk", (1,)), ("dk", (2,)), ("d2", ()), ("i1", ())]


def check_case(cid, tier, acc, only=None):
    if cid and cid[0][0] == "intdur":
        lab, ps = INTDUR[cid[0][1]]
        return check_spec(ps, lab, cid, INTDUR_STEPS, tier, acc, only)
    return check_spec(utemp.make(dict(cid)), utemp.label(cid), cid, utemp.STEPS, tier, acc, only)


def check_spec(ps, lab, cid, steps, tier, acc, only=None):
    from unified_planning.engines.compilers.durative_actions_to_processes import DurativeActionToProcesses
    from unified_planning.engines import CompilationKind as CK

    b = su.build(ps, acc)
    if b is None:
        return
    prob, _ctx = b
    if not DurativeActionToProcesses.supports(prob.kind):
        acc.count("skipped_unsupported_kind")
        acc.outcome("skipped:unsupported-kind")
        return
    try:
        res = DurativeActionToProcesses().compile(prob, CK.DURATIVE_ACTIONS_TO_PROCESSES)
    except Exception as e:
        acc.count("skipped_compile_raises")
        acc.outcome("skipped:compile-raises:" + type(e).__name__)
        return
    fwd, back = res.plan_forward_conversion, res.plan_back_conversion
    if fwd is None or back is None:
        acc.violation("no-conversion|%s" % lab, "plan_forward_conversion / plan_back_conversion is None", {"cid": tj(cid), "tier": tier, "plan": []})
        return
    acc.count("problems")
    ref = TempRef(ps)
    try:
        ts = _timed_steps(ref, tier, steps)
    except Bottom:
        acc.count("skipped_duration_not_evaluable")
        return
    variable = set(an for an, a in ref.dactions.items() if a["dur"][2] or a["dur"][3] or a["dur"][0] != a["dur"][1])
    fed = {an: _first_end_delay(a) for an, a in ref.dactions.items()}
    cnames = set(a.name for a in res.problem.actions)
    onames = set(a.name for a in prob.actions)
    ctx = (prob, res, fwd, back, ref, variable, fed, cnames, onames, lab, cid, tier)
    if only is not None:
        check_plan(ctx, tuple(only), acc)
        return
    n = 0
    used_dev = [s.split(".")[0] for s, _ in cid if s.split(".")[0] in ("d1", "d2", "i1")]
    if cid and cid[0][0] == "intdur":
        used_dev = ["dk"]
    deep = len(cid) <= 1
    for k in range(0, (MAX_STEPS if deep else MAX_STEPS - 1) + 1):
        for combo in combinations_with_replacement(range(len(ts)), k):
            plan = tuple(ts[i] for i in combo)
            if used_dev:
                names = set(p[1] for p in plan)
                if any(o not in names for o in used_dev):
                    continue
            n += 1
            check_plan(ctx, plan, acc)
            if deep and k >= 2 and plan[::-1] != plan:
                check_plan(ctx, plan[::-1], acc)  # listing order must not matter
    acc.sample({"cid": tj(cid), "plans": n})


def check_plan(ctx, plan, acc):
    prob, res, fwd, back, ref, variable, fed, cnames, onames, lab, cid, tier = ctx
    case = {"cid": tj(cid), "tier": tier, "plan": tc.plan_json(plan)}
    # degenerate: first end time-point of a variable-duration step not after its start
    for s, an, args, d in plan:
        if an in variable and fed.get(an) is not None and d + fed[an] <= 0:
            acc.count("skipped_end_timepoint_not_after_start")
            return
    so = _self_overlap(plan)
    if so == "overlap":
        acc.count("skipped_self_overlapping_instance")
        return
    if so == "touch" and list(plan) != sorted(plan, key=lambda x: x[0]):
        # the same ground action ends and restarts at one instant: only the time-ordered listing
        # is in scope (the back conversion pairs equal-time start/end actions in listing order)
        acc.count("skipped_self_touching_instance_unordered_listing")
        return
    acc.count("evaluations")
    has_var = any(an in variable for _s, an, _a, _d in plan)
    if len(plan) >= 2 or has_var:
        acc.count("nontrivial")
    ttp, _steps = tc.to_ttp(prob, plan)
    try:
        fplan = fwd(ttp)
        fl = tc.from_ttp(fplan)
    except Exception as e:
        acc.violation(
            "forward-raises:%s|%s" % (type(e).__name__, lab),
            "plan_forward_conversion raised %s: %s on %s" % (type(e).__name__, str(e)[:120], tc.plan_json(plan)),
            case,
        )
        acc.outcome("forward-raises:" + type(e).__name__)
        return
    ok = True
    # ---- forward plan shape / end events ---------------------------------------------------
    if any(an not in cnames for _s, an, _a, _d in fl) or any(d is not None for _s, _an, _a, d in fl):
        acc.violation("forward-foreign-action|%s" % lab, "forward plan is not made of instantaneous actions of the compiled problem: %s" % tc.plan_json(fl), case)
        ok = False
    else:
        why = _match_forward(res, plan, fl, variable)
        if why is not None and why[0] == "skip":
            acc.count("skipped_forward_shape_unclassifiable")
        elif why is not None:
            acc.violation("%s|%s" % (why[0], lab), "%s; plan %s -> forward %s" % (why[1], tc.plan_json(plan), tc.plan_json(fl)), case)
            acc.outcome(why[0])
            ok = False
    # ---- round trip --------------------------------------------------------------------------
    try:
        bplan = back(fplan)
        bl = tc.from_ttp(bplan)
    except Exception as e:
        acc.violation(
            "back-raises:%s|%s" % (type(e).__name__, lab),
            "plan_back_conversion(forward(plan)) raised %s: %s on %s" % (type(e).__name__, str(e)[:120], tc.plan_json(plan)),
            case,
        )
        acc.outcome("back-raises:" + type(e).__name__)
        return
    if any(an not in onames for _s, an, _a, _d in bl):
        acc.violation("back-foreign-action|%s" % lab, "back plan uses actions that are not of the original problem: %s" % tc.plan_json(bl), case)
        return
    if tc.plan_key(bl) != tc.plan_key(plan):
        kind = "roundtrip-differs"
        if tc.instances_key(bl) != tc.instances_key(plan):
            kind += ":instances"
        elif sorted((s, an, a) for s, an, a, _d in bl) != sorted((s, an, a) for s, an, a, _d in plan):
            kind += ":starts"
        else:
            kind += ":durations"
        acc.violation(
            "%s|%s" % (kind, lab),
            "back(forward(plan)) = %s differs from plan %s (forward %s)" % (tc.plan_json(bl), tc.plan_json(plan), tc.plan_json(fl)),
            case,
        )
        acc.outcome(kind)
        ok = False
    if ok:
        acc.outcome("roundtrip-ok:%s" % ("with-end-events" if has_var else "start-actions-only"))


def _self_overlap(plan):
    """"overlap": two executions of the SAME ground durative action whose intervals share more
    than an end-point (the compilation's per-instance `running` flag rules that out by
    construction); "touch": one ends exactly when the next starts; else None"""
    by = {}
    for s, an, args, d in plan:
        if d is not None:
            by.setdefault((an, args), []).append((s, s + d))
    res = None
    for lst in by.values():
        lst.sort()
        for (s1, e1), (s2, _e2) in zip(lst, lst[1:]):
            if s2 < e1 or s1 == s2:
                return "overlap"
            if s2 == e1:
                res = "touch"
    return res


def _match_forward(res, plan, fl, variable):
    """match forward-plan entries with plan steps: -> None or (sub-oracle, what)"""
    # compiled action name -> (original name, "start" | "end"), through the result's own tables
    kinds = {}
    f = res.plan_forward_conversion
    try:
        for orig, comp in f.keywords["start_actions_forward"].items():
            kinds[comp.name] = (orig.name, "start")
        for orig, (comp, _t) in f.keywords["end_actions_forward"].items():
            kinds[comp.name] = (orig.name, "end")
    except (AttributeError, KeyError, TypeError, ValueError):
        return ("skip", "compiler tables not available")
    starts = sorted((s, an, tuple(args)) for s, an, args, _d in plan)
    got_starts = sorted((s, kinds[an][0], tuple(args)) for s, an, args, _d in fl if kinds.get(an, ("", ""))[1] == "start")
    if starts != got_starts:
        return ("forward-start-events", "start actions of the forward plan are not the plan's steps at their start times")
    ends = [(s, kinds[an][0], tuple(args)) for s, an, args, _d in fl if kinds.get(an, ("", ""))[1] == "end"]
    need = [(s, an, tuple(args), d) for s, an, args, d in plan if an in variable]
    if len(ends) != len(need):
        return ("forward-end-events:count", "%d end events for %d variable-duration steps" % (len(ends), len(need)))
    # every end event must fall inside (start, start+duration] of a distinct matching step
    ends = sorted(ends)
    need = sorted(need)
    used = [False] * len(need)

    def assign(i):
        if i == len(ends):
            return True
        t, an, args = ends[i]
        for j, (s, an2, args2, d) in enumerate(need):
            if not used[j] and an2 == an and args2 == args and s < t <= s + d:
                used[j] = True
                if assign(i + 1):
                    return True
                used[j] = False
        return False

    if not assign(0):
        return ("forward-end-events:outside-duration", "a compiled end event does not lie in (start, start+duration] of its step")
    return None
