"""C30 - Ks0Compiler (conformant -> classical, K_S0) is sound and complete (DESIGN 4/C30).

Per U-CONF instance (mc/gen/ucont.py) and per set SIGMA of possible initial states (ALL
non-empty sets of <= 3 states over <= 3 uncertain ground fluents):
  * explicit mode:   Ks0Compiler(possible_initial_states=SIGMA).compile(Problem)
  * contingent mode: where SIGMA is the model set of <= 3 oneof/or/unknown constraints,
                     Ks0Compiler().compile(ContingentProblem with those constraints)
The compiled problem is extracted as a spec and searched with the reference semantics:
  soundness     product search (compiled state, belief of the original) over ALL compiled action
                sequences <= k': whenever the compiled goal holds the mapped-back plan must have
                been executable from every state of SIGMA and every final state must be a goal
                state (mc/ref/belief.py);
  completeness  belief-space BFS of the original to depth k; if a conformant plan exists the
                compiled problem must be solvable (bounded product search, then exhaustive BFS of
                the compiled state graph);
  dominated     when the compiler kept fewer tags than |SIGMA| (states recovered from the compiled
                initial state), the kept states must be members of SIGMA, the conformant plans
                <= k of the kept set and of SIGMA must coincide (reference only), and the
                bounded-solvability answer of the compiled problem must equal the one obtained
                for the kept set alone (judged earlier in the same enumeration).
Disjunctive / existential preconditions and goals: the compiler translates the DNF-split
conjunctive problem P' (one variant per disjunct).  P' is read off the compiled problem (variant
precondition literals, fake-goal alternatives); "dominated" is judged on P'; a completeness
failure is reported under the ordinary fingerprint when P' itself has a conformant plan, and
under the single fingerprint `incomplete:disjunction-not-known-by-cases|any` when only the
original has one (a disjunction holding through different disjuncts in different states: one
root cause, K_S0 is defined on conjunctions).
"""
from __future__ import annotations

import re

from mc.kernel.runner import Acc
from mc.gen import ucont as uc
from mc.gen import problem as gp
from mc.gen.spec import tj, fresh_env
from mc.ref.seqsem import RefProblem, canon
from mc.ref.belief import Belief, DEAD
from mc.checks import simutil as su

PROPERTY = "C30"
LEVEL = "model_checking"
RULE = (
    "U-CONF slot grammar (Boolean fluents b, p(T), q(S); 2 actions; conditional/forall effects; "
    "negative, disjunctive, quantified conditions; instances with two effects on one ground fluent "
    "of one ground action are dropped; plus the level-3 family of conditional-effect chains, see bounds) x ALL non-empty sets of <= 3 possible initial states over the "
    "uncertain ground fluents (see bounds), explicit and - where expressible with <= 3 constraints - as "
    "ContingentProblem; states = product nodes (compiled state, belief) expanded + beliefs expanded, "
    "transitions = compiled/original ground-action applications, traces = compiled goal nodes whose "
    "mapped-back plan was validated from every possible initial state; non-trivial = (problem, "
    "SIGMA, mode) with |SIGMA| >= 2 for which a conformant plan <= k or a compiled plan <= k' exists"
)
ASSUMPTIONS = [
    "both sides are judged by the reference semantics (mc/ref/seqsem.py, mc/ref/belief.py)",
    "UPUsageError whose text starts with 'Ks0Compiler ' is a documented rejection (skipped, counted)",
    "oneof = exactly one literal holds, or = at least one literal holds, unknown = unrestricted",
    "one built Problem is reused for the explicit-mode compilations of all SIGMA of an instance "
    "(rebuilt after any library exception; the global environment is the compiled problem's "
    "environment during every compile call); the contingent-mode problems of an instance share a second "
    "environment (renewed after any library exception)",
    "fingerprints: contingent-mode violations that the explicit mode shows for the same states are "
    "not repeated; only contingent-specific ones are reported (prefix contingent:)",
    "compiled solvability beyond k' is decided by exhaustive BFS of the compiled graph (cap 20000 "
    "states; cap hits are counted as inconclusive, never as verdicts)",
]

STATE_CAP = 20000
TAG_RE = re.compile(r"^K_(not_)?(.+)_(empty|s\d+)$")


def _k(tier):
    return 3 if tier == "quick" else 4


def _kk(tier):
    return 2 * _k(tier) + 2


def _uncertain(tier, level):
    if level == 3:
        return ["U0", "U2"]
    if tier == "quick":
        return ["U0"]
    return ["U0", "U1", "U2", "U3"] if level < 2 else ["U0"]


def _max_sigma(tier, level):
    if level == 3:
        return 2
    if tier == "quick" and level >= 2:
        return 2
    return 3


def _contingent_mode(tier, level):
    """the derivation of the states from the constraints does not depend on the action slots:
    the contingent mode runs on levels 0 and 1 only."""
    return level < 2


def bounds(tier):
    return {
        "contingent_mode_levels": [l for l in (0, 1, 2) if _contingent_mode(tier, l)],
        "k": _k(tier),
        "k_compiled": _kk(tier),
        "deviation_plan": uc.conf_plan(tier),
        "uncertain_sets": {str(l): _uncertain(tier, l) for l in (0, 1, 2, 3)},
        "max_states_per_set": {str(l): _max_sigma(tier, l) for l in (0, 1, 2, 3)},
        "level_3": "effect chains: %d instances (a1.eff1 conditional x a2.eff1 removed x a2.eff2 conditional) + %d hand-written three-schema lose/regain/use problems" % (len(chain_ids()) - len(uc.HAND), len(uc.HAND)),
        "pool_sizes": {s: len(pl) for s, pl in uc.CONF_POOLS.items()},
    }


def sigmas(tier, level):
    seen, out = set(), []
    for u in _uncertain(tier, level):
        for sg in uc.state_sets(uc.UNCERTAIN[u], _max_sigma(tier, level)):
            if sg not in seen:
                seen.add(sg)
                out.append(sg)
    out.sort(key=len)  # stable: by size
    return out


def chain_ids():
    """level-3 family "effect chains": a2 loses its default effect and gets a conditional effect,
    a1's default effect is replaced by a conditional one - every pair of conditional effects, so
    that one action's conditional effect can feed or cut the other's condition (the relevance
    relation behind the dominated-state reduction needs such chains to differ from its
    one-step approximation)."""
    cond = lambda x: bool(x) and any(e[3] is not None for e in x)
    c1 = [i for i, (x, _c) in enumerate(uc.CONF_POOLS["a1.eff1"]) if cond(x)]
    c2 = [j for j, (x, _c) in enumerate(uc.CONF_POOLS["a2.eff2"]) if cond(x)]
    return [(3, (("a1.eff1", i), ("a2.eff1", 0), ("a2.eff2", j))) for i in c1 for j in c2] + [(3, (("hand", i),)) for i in range(len(uc.HAND))]


def shards(tier, seed):
    ids = uc.conf_case_ids(tier) + chain_ids()
    per = {0: 1, 1: 48, 2: 160, 3: 48} if tier == "quick" else {0: 1, 1: 64, 2: 512, 3: 48}
    return su.chunk_cases(ids, seed, per_level_chunks=per)


def run_shard(shard, tier, seed):
    acc = Acc()
    for cid in shard["cids"]:
        cid = tuple(tuple(x) for x in cid)
        check_case(cid, tier, shard["level"], acc)
    return acc


def replay(case):
    acc = Acc()
    cid = tuple(tuple(x) for x in case["cid"])
    sg = tuple(tuple(bool(v) for v in st) for st in case["sigma"])
    check_case(cid, case.get("tier", "quick"), len(cid), acc, only=(sg, case.get("mode"), case.get("alt")))
    out = []
    for fp, e in acc.viol.items():
        hits = [x for x in e["cases"] if tuple(tuple(st) for st in x["case"]["sigma"]) == sg]
        if hits:
            out.append((fp, hits[0]["what"]))
    return out


finalize = su.prune_supersets


# --------------------------------------------------------------------------------------
def one_effect_per_ground_fluent(ref):
    """at most one (expanded) effect per ground fluent in every ground action."""
    from itertools import product
    from mc.ref.eval import ev

    for an, args in ref.ground_actions():
        a = ref.actions[an]
        params = dict(zip([pn for pn, _ in a["params"]], args))
        I = ref.interp({}, params)
        seen = set()
        for _kind, fl, _val, _cond, fa in a.get("eff", ()):
            doms = [ref.objs(tn) for _vn, tn in fa]
            for combo in product(*doms):
                J = I.with_vars(dict(zip(fa, combo))) if fa else I
                t = (fl[1],) + tuple(ev(x, J) for x in fl[2:])
                if t in seen:
                    return False
                seen.add(t)
    return True


def _conjunctive(e):
    t = e[0]
    if t == "and":
        return all(_conjunctive(a) for a in e[1:])
    if t == "forall":
        return _conjunctive(e[2])
    if t == "not":
        return e[1][0] in ("f", "eq")
    return t in ("f", "eq", "b")


def disjunctive_conditions(ps):
    """some precondition or goal is not a conjunction of literals (K_S0 is defined on
    conjunctions; the compiler splits the rest into DNF variants)."""
    conds = list(ps["goals"])
    for a in ps["actions"]:
        conds.extend(a["pre"])
    return not all(_conjunctive(c) for c in conds)


class Built:
    """one built original Problem (explicit mode), rebuilt on demand."""

    def __init__(self, ps):
        self.ps = ps
        self.prob = None

    def get(self):
        if self.prob is None:
            self.prob, self.ctx = gp.build_problem(self.ps)
            em = self.ctx.em
            self.fexps = [self.ctx.e(f) for f in uc.GROUND]
            self.T, self.F = em.TRUE(), em.FALSE()
        return self.prob

    def drop(self):
        self.prob = None

    def upstates(self, sigma):
        from unified_planning.model import UPState

        prob = self.get()
        return [UPState({fe: (self.T if v else self.F) for fe, v in zip(self.fexps, st)}, prob) for st in sigma]


def recover_tags(cref):
    """possible initial states kept by the compiler, read off the compiled initial state:
    tag s_i -> tuple over GROUND, or None when the naming scheme is not recognised."""
    init = cref.initial_state()
    tags = {}
    for key, val in init.items():
        m = TAG_RE.match(key[0])
        if m is None:
            return None
        neg, f, tag = m.group(1), m.group(2), m.group(3)
        if tag == "empty" or f not in ("b", "p", "q"):
            continue  # unconditional knowledge / auxiliary fluents of the normalisation
        d = tags.setdefault(tag, {})
        if val is True:
            gk = (f,) + tuple(key[1:])
            if gk in d and d[gk] != (neg is None):
                return None
            d[gk] = neg is None
    out = []
    for tag in sorted(tags, key=lambda t: int(t[1:])):
        d = tags[tag]
        if set(d) != set(uc.GKEYS):
            return None
        out.append(tuple(d[k] for k in uc.GKEYS))
    return out


class Compiled:
    def __init__(self, res, ref, ogas):
        from unified_planning.plans import ActionInstance, SequentialPlan

        self.res = res
        self.cprob = res.problem
        self.cps = gp.problem_to_spec(self.cprob)
        self.unsupported = "unsupported" in self.cps
        if self.unsupported:
            return
        self.cref = RefProblem(self.cps, {})
        self.cgas = self.cref.ground_actions()
        oidx = {ga: i for i, ga in enumerate(ogas)}
        self.mb = []
        self.mb_error = None
        em = self.cprob.environment.expression_manager
        from mc.checks.compcommon import _val, _unval

        for an, args in self.cgas:
            act = self.cprob.action(an)
            params = tuple(_val(em, self.cprob, a) for a in args)
            try:
                back = res.plan_back_conversion(SequentialPlan([ActionInstance(act, params)]))
                steps = [(ai.action.name, tuple(_unval(x) for x in ai.actual_parameters)) for ai in back.actions]
            except Exception as e:  # noqa
                self.mb_error = (an, e)
                self.mb.append(None)
                continue
            if len(steps) == 0:
                self.mb.append(None)
            elif len(steps) == 1 and steps[0] in oidx:
                self.mb.append(oidx[steps[0]])
            else:
                self.mb_error = (an, ValueError("maps back to %r" % (steps,)))
                self.mb.append(None)
        self.key = repr((self.cps["fluents"], self.cps["actions"], self.cps["init"], self.cps["goals"], self.mb))
        self._succ = {}

    def convert(self, plan):
        """res.plan_back_conversion on a whole compiled plan -> [(name, args)] | repr of the error"""
        from unified_planning.plans import ActionInstance, SequentialPlan
        from mc.checks.compcommon import _val, _unval

        em = self.cprob.environment.expression_manager
        try:
            ais = [ActionInstance(self.cprob.action(self.cgas[j][0]), tuple(_val(em, self.cprob, a) for a in self.cgas[j][1])) for j in plan]
            back = self.res.plan_back_conversion(SequentialPlan(ais))
            return [(ai.action.name, tuple(_unval(x) for x in ai.actual_parameters)) for ai in back.actions]
        except Exception as e:  # noqa
            return "%s: %s" % (type(e).__name__, str(e)[:100])

    def step(self, ck, cst, j):
        k = (ck, j)
        if k not in self._succ:
            an, args = self.cgas[j]
            nxt, _ = self.cref.apply(cst, an, args)
            self._succ[k] = (None, None) if nxt is None else (nxt, canon(nxt))
        return self._succ[k]


def _k_literal(e):
    """compiled condition K_<f>_empty(args) / K_not_<f>_empty(args) -> (fluent name, args, positive)"""
    if e[0] != "f":
        return None
    m = TAG_RE.match(e[1])
    if m is None or m.group(3) != "empty":
        return None
    if not all(a[0] == "o" for a in e[2:]):
        return None
    return (m.group(2), tuple(a[1] for a in e[2:]), m.group(1) is None)


def split_info(c, n_ogas):
    """The conjunctive problem P' the compiler actually translates (DNF variants of the
    preconditions, fake-goal actions for a disjunctive goal), read off the compiled problem:
      variants[g]  = for every original ground action g the list of precondition literal sets
                     (frozenset of (ground fluent key, positive)) of its compiled variants
      goal         = (set of required literals on original fluents,
                      [alternatives (list of literal sets) per auxiliary goal fluent])
    None when the compiled problem does not have the expected shape."""
    variants = {g: [] for g in range(n_ogas)}
    aux_by_fluent = {}
    for j, (an, _args) in enumerate(c.cgas):
        a = c.cref.actions[an]
        lits = []
        for pre in a["pre"]:
            kl = _k_literal(pre)
            if kl is None:
                lits = None
                break
            lits.append(kl)
        if c.mb[j] is not None:
            if lits is None or any(f not in ("b", "p", "q") for f, _a, _p in lits):
                return None
            variants[c.mb[j]].append(frozenset(((f,) + a, pos) for f, a, pos in lits))
            continue
        # auxiliary action: a merge (tagged preconditions) or a fake-goal action
        if lits is None:
            continue  # merge action: its preconditions are on the state tags
        targets = set()
        for _kind, fl, _val, _cond, _fa in a["eff"]:
            m = TAG_RE.match(fl[1])
            if m is not None and m.group(2) not in ("b", "p", "q"):
                targets.add(m.group(2))
        for t in targets:
            aux_by_fluent.setdefault(t, []).append(frozenset(((f,) + a, pos) for f, a, pos in lits))
    req, alts = set(), []
    for g in c.cref.goals:
        kl = _k_literal(g)
        if kl is None:
            return None
        f, a, pos = kl
        if f in ("b", "p", "q"):
            req.add(((f,) + a, pos))
        elif pos and f in aux_by_fluent:
            alts.append(aux_by_fluent[f])
        else:
            return None
    return variants, (req, alts)


def split_plans(bel, info, sigma_states, k, all_plans=False):
    """Conformant plans of the split problem P': a step is executable in a belief iff the
    original action is applicable in every member AND some variant's precondition literals are
    all KNOWN (same value in every member); the goal needs its literals known and, per auxiliary
    goal fluent, one alternative known.  -> shortest plan | None, or the set of all plans <= k."""
    variants, (req, alts) = info

    def known(belief):
        out = set()
        members = [dict(cs) for cs in belief]
        for gk in uc.GKEYS:
            vals = {m[gk] for m in members}
            if len(vals) == 1:
                out.add((gk, vals.pop()))
        return out

    def goal(belief, kn):
        return bel.is_goal(belief) and req <= kn and all(any(alt <= kn for alt in al) for al in alts)

    b0 = bel.initial(sigma_states)
    found = set()
    seen = {b0}
    frontier = [(b0, ())]
    for depth in range(k + 1):
        nxt = []
        for belief, plan in frontier:
            kn = known(belief)
            if goal(belief, kn):
                if not all_plans:
                    return plan
                found.add(plan)
            if depth == k:
                continue
            for j in range(len(bel.gas)):
                if not any(v <= kn for v in variants[j]):
                    continue
                nb = bel.step(belief, j)
                if nb == DEAD:
                    continue
                if not all_plans:
                    if nb in seen:
                        continue
                    seen.add(nb)
                nxt.append((nb, plan + (j,)))
        frontier = nxt
    return found if all_plans else None


def product_search(c, bel, sigma_states, kk, acc):
    """-> dict(unsound=(why, compiled plan)|None, solv=compiled plan|None, goal_nodes=n)"""
    cref = c.cref
    c0 = cref.initial_state()
    b0 = bel.initial(sigma_states)
    start = (canon(c0), b0)
    level = {start: (c0, ())}
    seen = {start}
    out = {"unsound": None, "solv": None, "goal_nodes": 0}
    for depth in range(kk + 1):
        for (ck, bl), (cst, plan) in level.items():
            acc.count("states")
            if cref.is_goal(cst):
                if out["solv"] is None:
                    out["solv"] = plan
                if bl == DEAD:
                    out["unsound"] = ("not-executable", plan)
                    return out
                if not bel.is_goal(bl):
                    out["unsound"] = ("goal", plan)
                    return out
                out["goal_nodes"] += 1
        if depth == kk:
            break
        nxt_level = {}
        for (ck, bl), (cst, plan) in level.items():
            for j in range(len(c.cgas)):
                acc.count("transitions")
                nxt, nk = c.step(ck, cst, j)
                if nxt is None:
                    continue
                m = c.mb[j]
                nb = bl if m is None else bel.step(bl, m)
                node = (nk, nb)
                if node in seen:
                    continue
                seen.add(node)
                nxt_level[node] = (nxt, plan + (j,))
        level = nxt_level
        if not level:
            break
    return out


def compiled_solvable(c, acc):
    """exhaustive BFS of the compiled state graph -> True | False | None (cap hit)"""
    cref = c.cref
    c0 = cref.initial_state()
    seen = {canon(c0)}
    frontier = [(c0, canon(c0))]
    while frontier:
        nxt_f = []
        for cst, ck in frontier:
            acc.count("states")
            if cref.is_goal(cst):
                return True
            for j in range(len(c.cgas)):
                acc.count("transitions")
                nxt, nk = c.step(ck, cst, j)
                if nxt is None or nk in seen:
                    continue
                if len(seen) >= STATE_CAP:
                    return None
                seen.add(nk)
                nxt_f.append((nxt, nk))
        frontier = nxt_f
    return False


def _set_global_env(env):
    """isolation rule (DESIGN 2.3): library paths that create objects in the implicit global
    environment (e.g. the fake-goal fluent of DisjunctiveConditionsRemover) must find the
    environment of the problem being compiled there."""
    import unified_planning.environment as upe

    upe.GLOBAL_ENVIRONMENT = env


def _documented(e):
    from unified_planning.exceptions import UPUsageError

    return isinstance(e, UPUsageError) and str(e).startswith("Ks0Compiler ")


def check_case(cid, tier, level, acc, only=None):
    from unified_planning.engines.compilers import Ks0Compiler
    from unified_planning.engines import CompilationKind as CK

    ps = uc.conf_make(dict(cid))
    lab = uc.label(cid)
    ref = RefProblem(ps)
    if not one_effect_per_ground_fluent(ref):
        acc.count("skipped_two_effects_on_one_ground_fluent")
        return
    ogas = ref.ground_actions()
    bel = Belief(ref, ogas)
    k, kk = _k(tier), _kk(tier)
    built = Built(ps)
    try:
        prob = built.get()
    except Exception as e:  # the library rejects the model itself
        acc.count("skipped_rejected_at_build")
        acc.outcome("build-rejected:" + type(e).__name__)
        return
    if not Ks0Compiler.supports(prob.kind):
        acc.count("skipped_unsupported_kind")
        return
    acc.count("problems")
    disj = disjunctive_conditions(ps)
    explicit_subs = {}  # sigma -> sub-oracles violated in explicit mode
    verdicts = {}  # explicit mode: sigma -> compiled problem solvable within k'
    cache = {}
    conf_cache = {}
    cctx = [None]  # environment shared by the contingent-mode problems of this instance

    def conformant(sigma):
        if sigma not in conf_cache:
            sts = [uc.state_dict(s) for s in sigma]
            plan, expanded, tried = bel.search(sts, k)
            acc.count("states", expanded)
            acc.count("transitions", tried)
            conf_cache[sigma] = plan
        return conf_cache[sigma]

    def judge(res, sigma, mode, alt, cons):
        """all sub-oracles on one compilation result"""
        case = {"cid": tj(cid), "sigma": tj(sigma), "mode": mode, "alt": alt, "constraints": tj(cons), "tier": tier}
        subs = explicit_subs.setdefault(sigma, set()) if mode == "explicit" else set()

        def viol(sub, what, extra=None):
            # root-cause oriented: a contingent-mode violation that the explicit mode shows for
            # the same states is the same defect; only contingent-specific ones get their own name
            subs.add(sub)
            if mode != "explicit":
                if sub in explicit_subs.get(sigma, ()):
                    acc.count("contingent_violation_same_as_explicit")
                    return
                sub = "contingent:" + sub
            acc.violation("%s|%s" % (sub, lab), what, dict(case, **(extra or {})))

        c = Compiled(res, ref, ogas)
        if c.unsupported:
            acc.count("skipped_compiled_unsupported_by_reference")
            return None
        if c.mb_error is not None:
            an, e = c.mb_error
            viol("map-back:%s" % type(e).__name__, "plan_back_conversion of [%s] failed: %s" % (an, str(e)[:160]))
            return None
        acc.count("evaluations")
        sts = [uc.state_dict(s) for s in sigma]
        tags = recover_tags(c.cref)
        reduced = tags is not None and len(tags) < len(sigma)
        if (c.key, sigma) in cache:
            r = cache[(c.key, sigma)]
            acc.count("compiled_problem_seen_before")
        else:
            r = product_search(c, bel, sts, kk, acc)
            cache[(c.key, sigma)] = r
        acc.count("traces", r["goal_nodes"])
        names = lambda plan: [c.cgas[j][0] for j in plan]
        if r["solv"]:
            # the step-wise map-back table must agree with the conversion of a whole plan
            whole = c.convert(r["solv"])
            stepwise = [ogas[c.mb[j]] for j in r["solv"] if c.mb[j] is not None]
            if whole != stepwise:
                viol("map-back:whole-plan-differs", "plan_back_conversion(%s) = %s, step by step %s" % (names(r["solv"]), whole, stepwise))
        if r["unsound"] is not None:
            why, plan = r["unsound"]
            mapped = [ogas[c.mb[j]] for j in plan if c.mb[j] is not None]
            viol(
                "unsound:%s" % why,
                "compiled plan %s is valid for the compiled problem%s but maps back to %s, which %s"
                % (names(plan), " (dominated states dropped)" if reduced else "", mapped, "is not executable from every possible initial state" if why == "not-executable" else "misses the goal from some possible initial state"),
                {"compiled_plan": names(plan), "mapped": [[a, list(b)] for a, b in mapped]},
            )
        cplan = conformant(sigma)
        if (cplan is not None or r["solv"] is not None) and len(sigma) >= 2:
            acc.count("nontrivial")
        acc.outcome("%s conformant=%s compiled=%s%s" % (mode, cplan is not None, r["solv"] is not None, " reduced" if reduced else ""))
        info = split_info(c, len(ogas)) if disj else None
        if disj and info is None:
            acc.count("split_problem_not_recognised")
        if cplan is not None and r["solv"] is None:
            s = compiled_solvable(c, acc)
            if s is False:
                splan = split_plans(bel, info, sts, k) if info is not None else None
                if disj and info is not None and splan is None:
                    # K_S0 is defined on conjunctive conditions; the compiler splits disjunctive /
                    # existential preconditions and goals into DNF variants, each needing ITS
                    # disjunct known in all possible states.  One root cause, one fingerprint.
                    subs.add("incomplete:disjunction-not-known-by-cases")
                    acc.violation(
                        "incomplete:disjunction-not-known-by-cases|any",
                        "%s: the original has the conformant plan %s for the possible initial states %s (a disjunctive/existential condition holds through different disjuncts in different states), but the compiled problem is unsolvable"
                        % (lab, [ogas[j] for j in cplan], list(sigma)),
                        dict(case, conformant_plan=[[ogas[j][0], list(ogas[j][1])] for j in cplan]),
                    )
                else:
                    viol(
                        "incomplete:unsolvable",
                        "the original has the conformant plan %s for the %d possible initial states but the compiled problem is unsolvable (full compiled graph explored)"
                        % ([ogas[j] for j in (splan if splan is not None else cplan)], len(sigma)),
                        {"conformant_plan": [[ogas[j][0], list(ogas[j][1])] for j in (splan if splan is not None else cplan)]},
                    )
            elif s is None:
                acc.count("inconclusive_compiled_state_cap")
            else:
                acc.count("compiled_solvable_only_beyond_bound")
        # ---- tags / dominated states
        if tags is None:
            acc.count("tags_not_recognised")
        else:
            tagset, sigset = set(tags), set(sigma)
            if not tagset <= sigset:
                viol("basis:foreign-state", "the compiled tags %s are not all among the possible initial states %s" % (sorted(tagset - sigset), sorted(sigset)))
            elif reduced:
                acc.count("basis_reduced")
                kept = tuple(sorted(tagset))
                if not disj:
                    pk = bel.all_conformant_plans([uc.state_dict(s) for s in kept], k)
                    pa = bel.all_conformant_plans(sts, k)
                elif info is not None:
                    # dominance is a statement about the split (conjunctive) problem
                    pk = split_plans(bel, info, [uc.state_dict(s) for s in kept], k, all_plans=True)
                    pa = split_plans(bel, info, sts, k, all_plans=True)
                else:
                    pk = pa = None
                if pk != pa:
                    bad = sorted(pk ^ pa, key=lambda x: (len(x), x))[0]
                    viol(
                        "dominated:conformant-plans-differ",
                        "the compiler dropped %s as dominated, but %s is conformant for the kept states %s and not for all possible initial states"
                        % (sorted(sigset - tagset), [ogas[j] for j in bad], list(kept)),
                    )
            elif tagset != sigset:
                viol("basis:tags-differ", "tags %s differ from the possible initial states %s" % (sorted(tagset), sorted(sigset)))
        return {"solv": r["solv"] is not None, "reduced": reduced, "tags": tags, "unsound": r["unsound"] is not None}

    def compile_explicit(sigma):
        try:
            states = built.upstates(sigma)
            _set_global_env(built.get().environment)
            return Ks0Compiler(possible_initial_states=states).compile(built.get(), CK.CONFORMANT_TO_CLASSICAL), None
        except Exception as e:
            built.drop()
            return None, e

    todo = sigmas(tier, level)  # ordered by size: a kept subset is judged before its supersets
    if only is not None:
        todo = [sg for sg in todo if set(sg) <= set(only[0]) and len(sg) < len(only[0])] + [only[0]]
    for sigma in todo:
        # ------------------------------------------------------------- explicit mode
        if only is None or only[1] in (None, "explicit") or sigma != only[0]:
            res, e = compile_explicit(sigma)
            if e is not None:
                if _documented(e):
                    acc.count("rejected_documented")
                    acc.outcome("rejected:" + str(e)[:60])
                else:
                    explicit_subs.setdefault(sigma, set()).add("compile-raises:" + type(e).__name__)
                    acc.violation(
                        "compile-raises:%s|%s" % (type(e).__name__, lab),
                        "Ks0Compiler(states).compile raised %s: %s" % (type(e).__name__, str(e)[:160]),
                        {"cid": tj(cid), "sigma": tj(sigma), "mode": "explicit", "alt": None, "tier": tier},
                    )
            else:
                v = judge(res, sigma, "explicit", None, ())
                if v is not None:
                    verdicts[sigma] = v["solv"]
                    if v["reduced"] and v["tags"]:
                        kept = tuple(sorted(set(v["tags"])))
                        if kept in verdicts:
                            acc.count("dominated_pairs_compared")
                            if verdicts[kept] != v["solv"]:
                                acc.violation(
                                    "dominated:compiled-answer-differs|%s" % lab,
                                    "compiled solvability within k'=%d is %s for the states %s but %s with the dominated states added (%s)"
                                    % (kk, verdicts[kept], list(kept), v["solv"], list(sigma)),
                                    {"cid": tj(cid), "sigma": tj(sigma), "mode": "explicit", "alt": None, "tier": tier},
                                )
        # ------------------------------------------------------------- contingent mode
        if (only is not None and (only[1] == "explicit" or sigma != only[0])) or not _contingent_mode(tier, level):
            continue
        alts = uc.synthesize(sigma)
        if not alts:
            acc.count("sigma_not_expressible_as_constraints")
        for alt, cons in enumerate(alts):
            if only is not None and only[2] is not None and only[2] != alt:
                continue
            ms = uc.models(cons)
            hidden = [uc.key_of(a) for a in uc.hidden_atoms(cons)]
            const = {gk: sigma[0][i] for i, gk in enumerate(uc.GKEYS) if gk not in hidden}
            got = sorted(tuple(m[gk] if gk in m else const[gk] for gk in uc.GKEYS) for m in ms)
            assert got == sorted(sigma), (cons, sigma, got)  # harness self-check of the synthesis
            init = tuple((f, uc.TRUE) for f, gk in zip(uc.GROUND, uc.GKEYS) if gk in const and const[gk])
            cps_spec = dict(ps, constraints=cons, init=init)
            try:
                cprob, cctx[0] = uc.build_contingent(cps_spec, ctx=cctx[0])
            except Exception as e:
                cctx[0] = None
                acc.count("skipped_rejected_at_build")
                continue
            try:
                _set_global_env(cprob.environment)
                res = Ks0Compiler().compile(cprob, CK.CONFORMANT_TO_CLASSICAL)
            except Exception as e:
                cctx[0] = None
                if _documented(e):
                    acc.count("rejected_documented")
                    acc.outcome("rejected:" + str(e)[:60])
                elif "compile-raises:" + type(e).__name__ in explicit_subs.get(sigma, ()):
                    acc.count("contingent_violation_same_as_explicit")
                else:
                    acc.violation(
                        "contingent:compile-raises:%s|%s" % (type(e).__name__, lab),
                        "Ks0Compiler().compile(ContingentProblem) raised %s: %s" % (type(e).__name__, str(e)[:160]),
                        {"cid": tj(cid), "sigma": tj(sigma), "mode": "contingent", "alt": alt, "constraints": tj(cons), "tier": tier},
                    )
                continue
            judge(res, sigma, "contingent", alt, cons)
    acc.sample({"cid": tj(cid), "sigmas": len(sigmas(tier, level)), "ground_actions": len(ogas)}, limit=4)
