"""C31 - meta-engines return only valid plans and truthful statuses (DESIGN 4/C31).

The harness registers an exact breadth-first planner (mc.ref.plan_search.McBfsPlanner: explores
the full reachable graph with the reference semantics) and solves
  * U-PROB instances that use interpreted functions through
    `interpreted_functions_planning[mc_bfs]`,
  * U-PROB instances with every oversubscription gain vector through `oversubscription[mc_bfs]`.
Oracle: the full reachable graph of the ORIGINAL problem under the reference semantics.
"""
from __future__ import annotations

from fractions import Fraction
from itertools import product

from mc.kernel.runner import Acc
from mc.gen import uprob
from mc.gen import problem as gp
from mc.gen.spec import tj
from mc.ref.seqsem import RefProblem
from mc.ref.eval import truth
from mc.checks import simutil as su
from mc.checks import compcommon as cc
from mc.checks.c01 import uprob_label

PROPERTY = "C31"
LEVEL = "model_checking"
RULE = (
    "(IF) U-PROB instances (levels 1,2) with an interpreted function in a precondition (G(n)) or an "
    "effect value (n:=F(n)), no effect on the unbounded fluent m, plus the 32 hand-enumerated ifchain problems "
    "(dependency on an interpreted function through a second fluent x reader x action declaration order); (OS) base + core level-1 instances x "
    "all gain vectors over {3, 1/2, -1} for the soft goals {b, p(o2), n=1} (and all 2-goal subsets); "
    "states/transitions = full reachable graph of the original problem explored by the reference; "
    "non-trivial = solvable instance"
)
ASSUMPTIONS = [
    "relative to the harness's exact BFS planner (valid plans only, complete on finite graphs)",
    "instances whose reachable graph exceeds the state cap are skipped (none in this universe: asserted by counter)",
]

M_EFFECTS = (19, 20, 28)
GAINS = [3, (1, 2), -1]
SOFT = [uprob.b, uprob.p(uprob.o2), ("eq", uprob.n, uprob.I(1))]


def bounds(tier):
    return {"gains": [str(g) for g in GAINS], "soft_goals": 3}


def _if_ids(tier):
    out = []
    eff_slots = [s for s in uprob.BASE_SLOTS if ".eff" in s]
    pre_slots = [s for s in uprob.BASE_SLOTS if ".pre" in s]
    ifc = [(s, 19) for s in pre_slots] + [(s, _eff_index(s, 26)) for s in eff_slots]
    for c in ifc:
        out.append((1, (c,)))
    for c in ifc:
        for s in uprob.BASE_SLOTS:
            if s == c[0]:
                continue
            pl = uprob.pool(s)
            for i, (x, core) in enumerate(pl):
                if not core and tier == "quick":
                    continue
                if ".eff" in s and _raw_eff_index(s, i) in M_EFFECTS:
                    continue
                cid = tuple(sorted([c, (s, i)], key=lambda t: uprob.BASE_SLOTS.index(t[0])))
                out.append((2, cid))
    for i in range(len(IFCHAIN)):
        out.append((1, (("ifchain", i),)))
    seen = set()
    res = []
    for lv, cid in out:
        if cid not in seen:
            seen.add(cid)
            res.append((lv, cid))
    return res


def _eff_index(slot, raw):
    """index in pool(slot) of the raw eff_pool entry `raw` (the *.eff1 pools are shifted)."""
    base = uprob.eff_pool(("p", "x"), uprob.o2)
    target = None
    _an, _params, X, Y = uprob.ACTIONS[[a[0] for a in uprob.ACTIONS].index(slot.split(".")[0])]
    want = uprob.eff_pool(X, Y)[raw][0]
    for i, (x, _c) in enumerate(uprob.pool(slot)):
        if x == want:
            return i
    raise KeyError((slot, raw))


def _raw_eff_index(slot, i):
    _an, _params, X, Y = uprob.ACTIONS[[a[0] for a in uprob.ACTIONS].index(slot.split(".")[0])]
    x = uprob.pool(slot)[i][0]
    for j, (y, _c) in enumerate(uprob.eff_pool(X, Y)):
        if y == x:
            return j
    return -1


def _os_ids(tier):
    out = [(0, ())]
    for s in uprob.BASE_SLOTS:
        if s in ("undef",):
            continue
        for i, (x, core) in enumerate(uprob.pool(s)):
            if tier == "quick" and not core:
                continue
            if ".eff" in s and _raw_eff_index(s, i) in M_EFFECTS:
                continue
            out.append((1, ((s, i),)))
    return out


def _gain_vectors():
    vs = []
    for g in product(GAINS, repeat=3):
        vs.append(tuple(zip(SOFT, g)))
    for i in range(3):
        for j in range(i + 1, 3):
            for g in product(GAINS, repeat=2):
                vs.append(((SOFT[i], g[0]), (SOFT[j], g[1])))
    return vs


def shards(tier, seed):
    out = []
    for sh in su.chunk_cases(_if_ids(tier), seed, per_level_chunks={1: 4, 2: 40}):
        sh["part"] = "IF"
        out.append(sh)
    for sh in su.chunk_cases(_os_ids(tier), seed, per_level_chunks={0: 1, 1: 40}):
        sh["part"] = "OS"
        out.append(sh)
    out.sort(key=lambda s: s["level"])
    return out


def run_shard(shard, tier, seed):
    acc = Acc()
    for cid in shard["cids"]:
        cid = tuple(tuple(x) for x in cid)
        if shard["part"] == "IF":
            check_if(cid, acc)
        else:
            for gv in _gain_vectors():
                check_os(cid, gv, acc)
    return acc


def replay(case):
    acc = Acc()
    cid = tuple(tuple(x) for x in case["cid"])
    if case["part"] == "IF":
        check_if(cid, acc)
    else:
        from mc.gen.spec import fj

        check_os(cid, fj(case["gains"]), acc)
    return [(fp, e["cases"][0]["what"]) for fp, e in acc.viol.items()]


finalize = su.prune_supersets


def _solve(prob, engine_name):
    env = prob.environment
    if "mc_bfs" not in env.factory.engines:
        env.factory.add_engine("mc_bfs", "mc.ref.plan_search", "McBfsPlanner")
    with env.factory.OneshotPlanner(name=engine_name) as planner:
        if not planner.supports(prob.kind):
            return None
        return planner.solve(prob)


def _graph(ref, acc):
    from mc.ref.plan_search import full_graph

    states, parent, gas, complete = full_graph(ref, 5000)
    acc.count("states", len(states))
    acc.count("transitions", len(states) * len(gas))
    return states, complete


def _plan_steps(plan):
    from mc.checks.compcommon import _unval

    return [(ai.action.name, tuple(_unval(p) for p in ai.actual_parameters)) for ai in plan.actions]


# family ifchain: a fluent that depends on an interpreted function only THROUGH another fluent
# (scaled := raw + 1, raw := F(raw)), read by a precondition or the goal; every declaration order of
# the actions, one or two interpreted-function effects
def _ifchain_specs():
    from itertools import permutations

    I = uprob.I
    fl = lambda n: ("f", n)
    E = lambda f, v: ("assign", fl(f), v, None, ())
    out = []
    for dep_name, dep, want in [("raw+1", ("+", fl("raw"), I(1)), 4), ("raw", fl("raw"), 3)]:
        for reader in ("pre", "goal"):
            for two in (False, True):
                acts = {
                    "measure": {"name": "measure", "params": (), "pre": (), "eff": (E("raw", ("ifun", "F", fl("raw"))),) + ((E("aux", ("ifun", "F", fl("aux"))),) if two else ())},
                    "scale": {"name": "scale", "params": (), "pre": (), "eff": (E("scaled", dep),)},
                }
                names = ["measure", "scale"]
                if reader == "pre":
                    acts["finish"] = {"name": "finish", "params": (), "pre": (("eq", fl("scaled"), I(want)),), "eff": (E("done", ("b", True)),)}
                    names.append("finish")
                    goals = (fl("done"),)
                else:
                    goals = (("eq", fl("scaled"), I(want)),)
                for order in permutations(names):
                    ps = {
                        "name": "ifchain", "types": (("T", None),), "objects": (("o1", "T"),),
                        "fluents": (
                            ("raw", ("int", 0, 3), (), I(2)), ("aux", ("int", 0, 3), (), I(2)),
                            ("scaled", ("int", 0, 4), (), I(0)), ("done", ("bool",), (), ("b", False)),
                        ),
                        "ifuns": (("F", ("int", None, None), (("int", None, None),), "sqm1"),),
                        "actions": tuple(acts[n] for n in order),
                        "init": (), "goals": goals, "traj": (), "metric": None,
                    }
                    out.append(("ifchain:%s/%s/%s/%s" % (dep_name, reader, "2if" if two else "1if", ">".join(order)), ps))
    return out


IFCHAIN = _ifchain_specs()


def check_if(cid, acc):
    if cid and cid[0][0] == "ifchain":
        lab, ps = IFCHAIN[cid[0][1]]
        return check_if_spec(ps, lab, cid, acc)
    return check_if_spec(uprob.make(dict(cid)), uprob_label(cid), cid, acc)


def check_if_spec(ps, lab, cid, acc):
    from unified_planning.engines.results import POSITIVE_OUTCOMES

    b = su.build(ps, acc)
    if b is None:
        return
    prob, ctx = b
    ref = RefProblem(ps)
    if not ref.state_ok(ref.initial_state()):
        acc.count("skipped_malformed_initial")
        return
    states, complete = _graph(ref, acc)
    if not complete:
        acc.count("skipped_state_cap")
        return
    solvable = any(ref.is_goal(s) for s in states)
    case = {"part": "IF", "cid": tj(cid)}
    acc.count("evaluations")
    if solvable:
        acc.count("nontrivial")
    try:
        res = _solve(prob, "interpreted_functions_planning[mc_bfs]")
    except Exception as e:
        from unified_planning.exceptions import UPUsageError

        if isinstance(e, UPUsageError) and "cannot" in str(e).lower() and not solvable:
            acc.count("skipped_unsupported")
            return
        acc.outcome("raises:%s" % type(e).__name__)
        if solvable or True:
            acc.violation(
                "if:raises:%s:%s|%s" % (type(e).__name__, "solvable" if solvable else "unsolvable", lab),
                "interpreted_functions_planning[mc_bfs].solve raised %s: %s" % (type(e).__name__, str(e)[:140]),
                case,
            )
        return
    if res is None:
        acc.count("skipped_unsupported_kind")
        return
    acc.outcome("if:%s:%s" % (res.status.name, "solvable" if solvable else "unsolvable"))
    if res.plan is not None:
        steps = _plan_steps(res.plan)
        if not cc.Compiled.valid(ref, steps):
            acc.violation("if:invalid-plan|%s" % lab, "returned plan %s is not valid for the original problem" % (steps,), case)
            return
    if solvable and res.plan is None:
        acc.violation("if:solvable-not-solved:%s|%s" % (res.status.name, lab), "problem is solvable (reference BFS) but status is %s" % res.status.name, case)
        return
    acc.count("traces")
    acc.sample({"part": "IF", "cid": tj(cid), "states": len(states), "status": res.status.name})


def check_os(cid, gv, acc):
    from unified_planning.engines.results import PlanGenerationResultStatus as S

    ps = uprob.make(dict(cid))
    ps["metric"] = ("over", tuple(gv))
    lab = uprob_label(cid)
    glab = ";".join("%s" % (g if not isinstance(g, tuple) else "%d/%d" % g) for _x, g in gv) + ("" if len(gv) == 3 else ":" + ",".join(str(SOFT.index(x)) for x, _ in gv))
    b = su.build(ps, acc)
    if b is None:
        return
    prob, ctx = b
    ref = RefProblem(ps)
    if not ref.state_ok(ref.initial_state()):
        acc.count("skipped_malformed_initial")
        return
    states, complete = _graph(ref, acc)
    if not complete:
        acc.count("skipped_state_cap")
        return

    def gain(st):
        I = ref.interp(st)
        tot = Fraction(0)
        for g, w in gv:
            if truth(g, I):
                tot += Fraction(*w) if isinstance(w, tuple) else w
        return tot

    goal_states = [s for s in states if ref.is_goal(s)]
    best = max((gain(s) for s in goal_states), default=None)
    case = {"part": "OS", "cid": tj(cid), "gains": tj(gv)}
    acc.count("evaluations")
    if goal_states:
        acc.count("nontrivial")
    try:
        res = _solve(prob, "oversubscription[mc_bfs]")
    except Exception as e:
        acc.outcome("raises:%s" % type(e).__name__)
        acc.violation(
            "os:raises:%s:gains[%s]|%s" % (type(e).__name__, glab, lab),
            "oversubscription[mc_bfs].solve raised %s: %s" % (type(e).__name__, str(e)[:140]),
            case,
        )
        return
    if res is None:
        acc.count("skipped_unsupported_kind")
        return
    acc.outcome("os:%s" % res.status.name)
    if res.plan is not None:
        steps = _plan_steps(res.plan)
        sts = cc.Compiled.run(ref, steps)
        if sts is None or not ref.is_goal(sts[-1]):
            acc.violation("os:invalid-plan:gains[%s]|%s" % (glab, lab), "returned plan %s is not valid for the hard goals" % (steps,), case)
            return
        if res.status == S.SOLVED_OPTIMALLY and gain(sts[-1]) != best:
            acc.violation(
                "os:optimal-status-suboptimal-gain:gains[%s]|%s" % (glab, lab),
                "status SOLVED_OPTIMALLY with gain %s but a reachable goal state has gain %s" % (gain(sts[-1]), best),
                case,
            )
            return
    elif goal_states:
        acc.violation("os:solvable-not-solved:%s:gains[%s]|%s" % (res.status.name, glab, lab), "hard goals reachable but status is %s" % res.status.name, case)
        return
    acc.count("traces")
    acc.sample({"part": "OS", "cid": tj(cid), "gains": tj(gv), "states": len(states), "status": res.status.name}, limit=2)
