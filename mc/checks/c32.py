"""C32 - Factory engine selection honours every requested requirement (DESIGN 4/C32).

Registry: an isolated Environment's Factory = the built-in engines that import offline + the
harness stubs of mc/checks/c32_stubs.py (+ the meta-engine products the factory derives from
the stub planners).  Every call goes through the public operation-mode methods
(OneshotPlanner, AnytimePlanner, PlanValidator, Compiler, PlanRepairer, PortfolioSelector,
Replanner, SequentialSimulator, ActionSelector); problem-taking modes get an (empty) Problem
whose `kind` is the enumerated kind.

Oracle: a brute-force scan of the registry in preference order written here (`scan`):
  * returned engine's class supports the kind and the requirement          (sub-oracle "returned")
  * it is the FIRST qualifying engine of the preference list               ("not-first")
  * no engine qualifies  <=>  UPNoSuitableEngineAvailableException          ("no-engine", "qualifying-but-raises")
  * pipelines: stage i is the first compiler qualifying for the kind produced by stages < i.
"""
from __future__ import annotations

import json
from itertools import combinations

import unified_planning as up
from unified_planning.engines import OperationMode as OM, OptimalityGuarantee, AnytimeGuarantee, CompilationKind
from unified_planning.exceptions import UPNoSuitableEngineAvailableException, UPUsageError
from unified_planning.model import ProblemKind
from unified_planning.model.problem_kind import get_valid_features
from unified_planning.model.problem_kind_versioning import LATEST_PROBLEM_KIND_VERSION as V
from unified_planning.plans import PlanKind

from mc.kernel.runner import Acc

PROPERTY = "C32"
LEVEL = "exploration"
RULE = (
    "registry = built-in engines importable offline + 13 harness stubs + derived meta engines; problem "
    "kinds = supported kind of every registered engine (and the empty kind) with <= d features removed "
    "or added out of all valid features (d per tier and family, see bounds); every operation mode x "
    "every value of its optional requirement (3 optimality values, 3 anytime values, 8 plan kinds, 20 "
    "compilation kinds, plan kind x optimality for repairers); preference lists: default, reversed, every "
    "singleton; compilation pipelines: all ordered pairs (and triples on the base kinds of the stubs [thorough] and on 5 small feature-adding kinds PIPE3_BASES [both tiers]) of "
    "the compilation kinds some registered compiler supports. One evaluation = one factory call compared "
    "with a brute-force scan of the registry; non-trivial = at least one engine of the requested mode "
    "supports the kind (so the requirement, the preference order or the kind decides)"
)
ASSUMPTIONS = [
    "Replanner with SOLVED_OPTIMALLY on a kind without quality metrics may raise UPUsageError (documented message)",
    "only automatic selection (no `name=`) is checked; engine classes are judged by their own static protocol",
]

MODE_API = {
    OM.ONESHOT_PLANNER: "OneshotPlanner",
    OM.ANYTIME_PLANNER: "AnytimePlanner",
    OM.PLAN_VALIDATOR: "PlanValidator",
    OM.COMPILER: "Compiler",
    OM.PLAN_REPAIRER: "PlanRepairer",
    OM.PORTFOLIO_SELECTOR: "PortfolioSelector",
    OM.REPLANNER: "Replanner",
    OM.SEQUENTIAL_SIMULATOR: "SequentialSimulator",
    OM.ACTION_SELECTOR: "ActionSelector",
}
OPTS = [None] + list(OptimalityGuarantee)
ANYS = [None] + list(AnytimeGuarantee)
PKS = [None] + list(PlanKind)
CKS = [None] + list(CompilationKind)


def requests():
    """[(mode, opt, anytime, plan_kind, compilation_kind)] - every mode x every requirement value"""
    out = []
    for o in OPTS:
        out.append((OM.ONESHOT_PLANNER, o, None, None, None))
        out.append((OM.PORTFOLIO_SELECTOR, o, None, None, None))
        out.append((OM.REPLANNER, o, None, None, None))
    for a in ANYS:
        out.append((OM.ANYTIME_PLANNER, None, a, None, None))
    for p in PKS:
        out.append((OM.PLAN_VALIDATOR, None, None, p, None))
        for o in OPTS:
            out.append((OM.PLAN_REPAIRER, o, None, p, None))
    for c in CKS:
        out.append((OM.COMPILER, None, None, None, c))
    out.append((OM.SEQUENTIAL_SIMULATOR, None, None, None, None))
    out.append((OM.ACTION_SELECTOR, None, None, None, None))
    return out


REQUESTS = requests()


class KProblem(up.model.Problem):
    """an empty problem that reports the enumerated kind"""

    _forced_kind = None

    @property
    def kind(self):
        return self._forced_kind


class World:
    def __init__(self):
        from mc.checks import c32_stubs as st

        self.env = up.environment.Environment()
        self.env.credits_stream = None
        up.environment.GLOBAL_ENVIRONMENT = self.env
        self.f = self.env.factory
        for n, c in st.STUBS:
            self.f.add_engine(n, "mc.checks.c32_stubs", c)
        self.default_pref = list(self.f.preference_list)
        self.names = list(self.f.engines)
        self.cls = {n: self.f.engine(n) for n in self.names}
        self.features = sorted(get_valid_features(V))
        self.problem = KProblem("k", self.env)

    # -- brute-force oracle ----------------------------------------------------------------
    def qualifies(self, E, req, kind):
        mode, opt, any_, pk, ck = req
        if not getattr(E, "is_" + mode.value)():
            return False
        if not E.supports(kind):
            return False
        if mode in (OM.ONESHOT_PLANNER, OM.PORTFOLIO_SELECTOR, OM.REPLANNER, OM.PLAN_REPAIRER):
            if opt is not None and not E.satisfies(opt):
                return False
        if mode in (OM.PLAN_VALIDATOR, OM.PLAN_REPAIRER):
            if pk is not None and not E.supports_plan(pk):
                return False
        if mode == OM.COMPILER:
            if ck is not None and not E.supports_compilation(ck):
                return False
        if mode == OM.ANYTIME_PLANNER:
            if any_ is not None and not E.ensures(any_):
                return False
        return True

    def scan(self, pref, req, kind):
        for n in pref:
            if self.qualifies(self.cls[n], req, kind):
                return n
        return None

    # -- the call under test ---------------------------------------------------------------
    def call(self, req, kind, kinds=None):
        mode, opt, any_, pk, ck = req
        api = getattr(self.f, MODE_API[mode])
        kw = {}
        if opt is not None:
            kw["optimality_guarantee"] = opt
        if any_ is not None:
            kw["anytime_guarantee"] = any_
        if pk is not None:
            kw["plan_kind"] = pk
        if ck is not None:
            kw["compilation_kind"] = ck
        if kinds is not None:
            kw["compilation_kinds"] = kinds
        if mode in (OM.REPLANNER, OM.SEQUENTIAL_SIMULATOR, OM.ACTION_SELECTOR):
            self.problem._forced_kind = kind
            return api(self.problem, **kw)
        return api(problem_kind=kind, **kw)


_W = None


def world():
    global _W
    if _W is None:
        _W = World()
    return _W


# ------------------------------------------------------------------ kinds
def base_kinds(w):
    """[(label, frozenset(features))] distinct supported kinds of the registry + the empty kind"""
    out, seen = [("empty", frozenset())], {frozenset()}
    for n in w.names:
        fs = frozenset(w.cls[n].supported_kind().features)
        if fs not in seen:
            seen.add(fs)
            out.append((n, fs))
    return out


def deviations(w, base, d):
    """all (removed tuple, added tuple) with |removed|+|added| == d"""
    inb = sorted(base)
    outb = [f for f in w.features if f not in base]
    for r in range(d + 1):
        for rem in combinations(inb, r):
            for add in combinations(outb, d - r):
                yield rem, add


def mk_kind(feats):
    return ProblemKind(set(feats), version=V)


def req_label(req):
    mode, opt, any_, pk, ck = req
    bits = [mode.value]
    for x in (opt, any_, pk, ck):
        if x is not None:
            bits.append(x.name)
    return "/".join(bits)


# ------------------------------------------------------------------ judge
def judge(acc, w, pref_name, pref, req, base_label, rem, add, feats, level):
    kind = mk_kind(feats)
    acc.count("evaluations")
    expected = w.scan(pref, req, kind)
    mode = req[0]
    if any(getattr(w.cls[n], "is_" + mode.value)() and w.cls[n].supports(kind) for n in pref):
        acc.count("nontrivial")
    dev = ",".join(["-" + x for x in rem] + ["+" + x for x in add]) or "base"
    label = "%s:%s[%s]/pref=%s" % (req_label(req), base_label, dev, pref_name)
    case = {
        "kind": "single", "req": [req[0].name] + [None if x is None else x.name for x in req[1:]],
        "features": sorted(feats), "pref": list(pref), "_level": level,
        "label": [pref_name, base_label, list(rem), list(add)],
    }

    def viol(sub, what):
        acc.violation("%s|%s" % (sub, label), what, case)

    try:
        res = w.call(req, kind)
    except UPNoSuitableEngineAvailableException:
        acc.outcome("raises-no-suitable")
        if expected is not None:
            viol("no-engine-but-one-qualifies:%s" % mode.value, "factory raised UPNoSuitableEngineAvailableException although %s qualifies" % expected)
        return
    except Exception as e:
        acc.outcome("raises-" + type(e).__name__)
        if (
            isinstance(e, UPUsageError) and mode == OM.REPLANNER and req[1] == OptimalityGuarantee.SOLVED_OPTIMALLY
            and not kind.has_quality_metrics()
        ):
            return  # documented refusal: optimality requested on a problem without metrics
        if expected is None:
            viol("wrong-exception:%s:%s" % (mode.value, type(e).__name__), "no engine qualifies; expected UPNoSuitableEngineAvailableException, got %s: %s" % (type(e).__name__, str(e)[:150]))
        else:
            viol("qualifying-but-raises:%s:%s" % (mode.value, type(e).__name__), "%s qualifies but the factory raised %s: %s" % (expected, type(e).__name__, str(e)[:150]))
        return
    E = type(res)
    got = next((n for n in w.names if w.cls[n] is E), E.__name__)
    acc.outcome("returns:" + str(got))
    if expected is None:
        viol("returned-but-none-qualifies:%s:%s" % (mode.value, _why(w, E, req, kind)), "factory returned %s although no registered engine qualifies" % got)
        return
    if not w.qualifies(E, req, kind):
        viol("returned-unqualified:%s:%s" % (mode.value, _why(w, E, req, kind)), "factory returned %s which does not qualify (%s); first qualifying is %s" % (got, _why(w, E, req, kind), expected))
        return
    if got != expected:
        viol("not-first:%s" % mode.value, "factory returned %s, first qualifying engine in preference order is %s" % (got, expected))


def _why(w, E, req, kind):
    mode, opt, any_, pk, ck = req
    why = []
    if not getattr(E, "is_" + mode.value)():
        return "wrong-mode"
    if not E.supports(kind):
        why.append("kind")
    if opt is not None and hasattr(E, "satisfies") and not E.satisfies(opt):
        why.append("optimality")
    if any_ is not None and hasattr(E, "ensures") and not E.ensures(any_):
        why.append("anytime")
    if pk is not None and hasattr(E, "supports_plan") and not E.supports_plan(pk):
        why.append("plan_kind")
    if ck is not None and hasattr(E, "supports_compilation") and not E.supports_compilation(ck):
        why.append("compilation_kind")
    return "+".join(why) or "qualifies"


def judge_pipeline(acc, w, pref_name, pref, cks, base_label, feats, level):
    kind = mk_kind(feats)
    acc.count("evaluations")
    exp, k = [], kind
    for ck in cks:
        n = w.scan(pref, (OM.COMPILER, None, None, None, ck), k)
        if n is None:
            exp = None
            break
        exp.append(n)
        try:
            k = w.cls[n].resulting_problem_kind(k, ck)
        except Exception as e:  # a registered compiler's own protocol method is broken
            exp = "undefined:%s.resulting_problem_kind raises %s" % (n, type(e).__name__)
            break
    if exp:
        acc.count("nontrivial")
    label = "pipeline/%s:%s/pref=%s" % ("+".join(c.name for c in cks), base_label, pref_name)
    case = {"kind": "pipeline", "cks": [c.name for c in cks], "features": sorted(feats), "pref": list(pref), "_level": level,
            "label": [pref_name, base_label]}

    def viol(sub, what):
        acc.violation("%s|%s" % (sub, label), what, case)

    try:
        res = w.call((OM.COMPILER, None, None, None, None), kind, kinds=list(cks))
    except UPNoSuitableEngineAvailableException:
        acc.outcome("pipeline-raises-no-suitable")
        if exp is not None:
            viol("pipeline-no-engine-but-qualifies", "pipeline raised although %s qualify stage by stage" % exp)
        return
    except Exception as e:
        acc.outcome("pipeline-raises-" + type(e).__name__)
        viol(
            "pipeline-raises:%s%s" % (type(e).__name__, ":" + exp.split(":")[1].split(" ")[0] if isinstance(exp, str) else ""),
            "pipeline call raised %s: %s (%s)" % (type(e).__name__, str(e)[:150], exp),
        )
        return
    if isinstance(exp, str):
        acc.outcome("pipeline-oracle-undefined")
        return
    got = [next((n for n in w.names if w.cls[n] is type(c)), type(c).__name__) for c in res._compilers]
    acc.outcome("pipeline-returns")
    if exp is None:
        viol("pipeline-returned-but-none-qualifies", "pipeline %s returned although some stage has no qualifying compiler" % got)
        return
    k = kind
    for i, (c, ck) in enumerate(zip(res._compilers, cks)):
        E = type(c)
        if not (E.supports(k) and E.supports_compilation(ck)):
            viol(
                "pipeline-stage-unqualified:stage%d:%s" % (i, "kind" if not E.supports(k) else "compilation_kind"),
                "stage %d (%s) does not support %s of the kind produced by the previous stages" % (i, got[i], ck.name),
            )
            return
        k = E.resulting_problem_kind(k, ck)
    if got != exp:
        viol("pipeline-not-first", "pipeline %s, expected %s" % (got, exp))


# ------------------------------------------------------------------ kernel interface
# quick tier: features added to the (large) supported kinds of the built-in engines - one per feature group
QUICK_ADDITIONS = {
    "HIERARCHICAL", "GENERAL_NUMERIC_PLANNING", "TIMED_EFFECTS", "SELF_OVERLAPPING", "FLUENTS_IN_DURATIONS", "BOUNDED_TYPES",
    "UNIVERSAL_CONDITIONS", "FORALL_EFFECTS", "NON_LINEAR_CONTINUOUS_EFFECTS", "HIERARCHICAL_TYPING", "REAL_ACTION_PARAMETERS",
    "OBJECT_FLUENTS", "TEMPORAL_OVERSUBSCRIPTION", "FLUENTS_IN_ACTIONS_COST", "REAL_NUMBERS_IN_OVERSUBSCRIPTION",
    "SIMULATED_EFFECTS", "TRAJECTORY_CONSTRAINTS", "TASK_NETWORK_CONSTRAINTS", "AGENT_SPECIFIC_PRIVATE_GOAL",
    "UNDEFINED_INITIAL_NUMERIC", "SCOPED_CONSTRAINTS", "CONTINGENT", "PROCESSES",
}
STUB_FEATURES = {
    "ACTION_BASED", "FLAT_TYPING", "NEGATIVE_CONDITIONS", "EQUALITIES", "DISJUNCTIVE_CONDITIONS", "HIERARCHICAL_TYPING",
    "INT_FLUENTS", "SIMPLE_NUMERIC_PLANNING", "BOUNDED_TYPES", "INCREASE_EFFECTS", "CONDITIONAL_EFFECTS", "ACTIONS_COST",
    "PLAN_LENGTH", "FINAL_VALUE", "INT_NUMBERS_IN_ACTIONS_COST", "CONTINUOUS_TIME", "TIMED_GOALS", "MAKESPAN",
    "INT_TYPE_DURATIONS", "EXISTENTIAL_CONDITIONS", "UNIVERSAL_CONDITIONS",
}
SMALL = 20  # base kinds with at most this many features are swept with every request


def _tier(tier):
    if tier == "quick":
        return {"d1_big_bases": "own-mode requests; removals: all, additions: QUICK_ADDITIONS", "d1_small_bases": "all requests except 16 compilation kinds no stub supports; additions: QUICK_ADDITIONS + STUB_FEATURES",
                "d1_reversed": False, "d2_bases": [], "pipeline_len": 2}
    return {
        "d1_big_bases": "all requests (default list); own-mode requests (reversed list)", "d1_reversed": True,
        "d2_bases": "mc_* stubs + empty, without the 19 explicit compilation kinds", "pipeline_len": 3,
    }


def bounds(tier):
    w = world()
    t = _tier(tier)
    return dict(t, base_kinds=len(base_kinds(w)), features=len(w.features), requests=len(REQUESTS), engines=len(w.names))


def own_requests(w, name, representative_unsupported=True):
    """requests in the operation modes engine `name` implements; for compilers the compilation kinds are
    narrowed to None, the ones it supports and one it does not (a failing Compiler call costs ~90 ms:
    the factory rebuilds every compiler's supported kind once per feature for its error table)"""
    E = w.cls[name]
    out = []
    for req in REQUESTS:
        mode, opt, any_, pk, ck = req
        if not getattr(E, "is_" + mode.value)():
            continue
        if mode == OM.COMPILER and ck is not None and not E.supports_compilation(ck):
            if not (representative_unsupported and ck == CompilationKind.GROUNDING):
                continue
        out.append(req)
    return out


# small kinds on which some real compiler ADDS features (object fluents -> conditional effects /
# existential conditions / equalities, quantifiers -> disjunctions, ...): three-stage pipelines over
# ALL triples of compilation kinds, so that a later stage is selected for a kind that differs from
# the original one by additions and removals of earlier stages
PIPE3_BASES = [
    ("p3:object-fluents+time", {"ACTION_BASED", "FLAT_TYPING", "OBJECT_FLUENTS", "CONTINUOUS_TIME"}),
    ("p3:object-fluents", {"ACTION_BASED", "FLAT_TYPING", "OBJECT_FLUENTS"}),
    ("p3:quantifiers+time", {"ACTION_BASED", "FLAT_TYPING", "UNIVERSAL_CONDITIONS", "EXISTENTIAL_CONDITIONS", "CONTINUOUS_TIME"}),
    ("p3:negative+disjunctive+time", {"ACTION_BASED", "FLAT_TYPING", "NEGATIVE_CONDITIONS", "DISJUNCTIVE_CONDITIONS", "CONTINUOUS_TIME"}),
    ("p3:invariants+bounded", {"ACTION_BASED", "HIERARCHICAL_TYPING", "STATE_INVARIANTS", "BOUNDED_TYPES", "INT_FLUENTS"}),
]


def shards(tier, seed):
    w = world()
    t = _tier(tier)
    bks = base_kinds(w)
    out = []
    for bi in range(len(bks)):
        out.append({"level": 0, "what": "base", "base": bi})
        out.append({"level": 0, "what": "pipe", "base": bi})
    for bi, (lab, fs) in enumerate(bks):
        k = 2 if len(fs) <= SMALL else 6
        for part in range(k):
            out.append({"level": 1, "what": "dev", "base": bi, "d": 1, "part": part, "nparts": k})
    for i in range(len(PIPE3_BASES)):
        out.append({"level": 1, "what": "pipe3", "base": 0, "pipe3": i})
    if t["d2_bases"]:
        for bi, (lab, fs) in enumerate(bks):
            if lab == "empty" or lab.startswith("mc_"):
                for part in range(24):
                    out.append({"level": 2, "what": "dev", "base": bi, "d": 2, "part": part, "nparts": 24})
    return out


def compiler_kinds(w):
    return [c for c in CompilationKind if any(w.cls[n].is_compiler() and w.cls[n].supports_compilation(c) for n in w.names)]


def run_shard(shard, tier, seed):
    acc = Acc()
    w = world()
    t = _tier(tier)
    bks = base_kinds(w)
    lab, base = bks[shard["base"]]
    default = w.default_pref
    reversed_ = list(reversed(default))
    try:
        if shard["what"] == "base":
            for pn, pref in (("default", default), ("reversed", reversed_)):
                w.f.preference_list = list(pref)
                for req in REQUESTS:
                    judge(acc, w, pn, pref, req, lab, (), (), base, 0)
            for n in default:  # every singleton list: only the engine's own modes can return anything
                w.f.preference_list = [n]
                for req in own_requests(w, n):
                    judge(acc, w, "only:" + n, [n], req, lab, (), (), base, 0)
            acc.sample({"base": lab, "features": sorted(base)}, limit=1)
        elif shard["what"] == "pipe3":
            lab3, feats3 = PIPE3_BASES[shard["pipe3"]]
            cks = compiler_kinds(w)
            kind = mk_kind(feats3)
            w.f.preference_list = list(default)
            for c1 in cks:
                first = w.scan(default, (OM.COMPILER, None, None, None, c1), kind)
                for c2 in cks if first is not None else cks[:1]:
                    for c3 in cks if first is not None else cks[:1]:
                        judge_pipeline(acc, w, "default", default, (c1, c2, c3), lab3, feats3, 1)
            acc.sample({"base": lab3, "features": sorted(feats3)}, limit=1)
        elif shard["what"] == "pipe":
            cks = compiler_kinds(w)
            kind = mk_kind(base)
            prefs = [("default", default)] + ([("reversed", reversed_)] if len(base) <= SMALL else [])
            for pn, pref in prefs:
                w.f.preference_list = list(pref)
                for c1 in cks:
                    first = w.scan(pref, (OM.COMPILER, None, None, None, c1), kind)
                    # when stage 1 has no compiler the rest of the pipeline is irrelevant: one representative
                    for c2 in cks if first is not None else cks[:1]:
                        judge_pipeline(acc, w, pn, pref, (c1, c2), lab, base, 0)
                        if t["pipeline_len"] >= 3 and first is not None and len(base) <= SMALL:
                            for c3 in cks:
                                judge_pipeline(acc, w, pn, pref, (c1, c2, c3), lab, base, 0)
        else:
            d = shard["d"]
            prefs = [("default", default)]
            if t["d1_reversed"] and d == 1:
                prefs.append(("reversed", reversed_))
            own = own_requests(w, lab, representative_unsupported=False) if lab in w.cls else REQUESTS
            if d >= 2:  # small stub bases only: every request except the 19 explicit compilation kinds
                by_pref = {"default": [r for r in REQUESTS if r[4] is None]}
            elif len(base) <= SMALL and not t["d1_reversed"]:
                # quick: of the explicit compilation kinds only those a stub compiler supports (the others
                # fail for every kind alike, at ~10-90 ms per failing Compiler call)
                stub_cks = (None, CompilationKind.GROUNDING, CompilationKind.QUANTIFIERS_REMOVING, CompilationKind.NEGATIVE_CONDITIONS_REMOVING)
                by_pref = {"default": [r for r in REQUESTS if r[4] in stub_cks]}
            elif len(base) <= SMALL:
                by_pref = {"default": REQUESTS, "reversed": REQUESTS}
            elif t["d1_reversed"]:  # thorough, big base: a failing Compiler call costs ~90 ms
                by_pref = {"default": REQUESTS, "reversed": own}
            else:
                by_pref = {"default": own}
            for i, (rem, add) in enumerate(deviations(w, base, d)):
                if i % shard["nparts"] != shard["part"]:
                    continue
                if add and not t["d1_reversed"] and add[0] not in QUICK_ADDITIONS and add[0] not in STUB_FEATURES:
                    continue  # quick tier: added features = one per feature group + every feature a stub supports
                feats = (set(base) - set(rem)) | set(add)
                for pn, pref in prefs:
                    w.f.preference_list = list(pref)
                    for req in by_pref[pn]:
                        judge(acc, w, pn, pref, req, lab, rem, add, feats, d)
    finally:
        w.f.preference_list = list(default)
    finalize(acc)  # per-shard minimisation too: a capped run skips the merged finalize
    return acc


def replay(case):
    acc = Acc()
    w = world()
    pref = list(case["pref"])
    w.f.preference_list = list(pref)
    try:
        if case["kind"] == "pipeline":
            pn, bl = case.get("label", ["replay", "replay"])[:2]
            judge_pipeline(acc, w, pn, pref, tuple(CompilationKind[c] for c in case["cks"]), bl, set(case["features"]), case.get("_level", 0))
        else:
            r = case["req"]
            enums = (OptimalityGuarantee, AnytimeGuarantee, PlanKind, CompilationKind)
            req = (OM[r[0]],) + tuple(None if x is None else en[x] for x, en in zip(r[1:], enums))
            pn, bl, rem, add = case.get("label", ["replay", "replay", [], []])
            judge(acc, w, pn, pref, req, bl, tuple(rem), tuple(add), set(case["features"]), case.get("_level", 0))
    finally:
        w.f.preference_list = list(w.default_pref)
    return [(fp, e["cases"][0]["what"]) for fp, e in acc.viol.items()]


def finalize(acc, tier=None):
    """per sub-oracle keep the smallest failing input (level, then fewest features / shortest list)"""
    best = {}
    for fp, e in acc.viol.items():
        sub = fp[: fp.index("|")]
        c0 = e["cases"][0]["case"]
        key = (c0.get("_level", 9), len(c0.get("pref", [])) > 1, len(c0.get("features", [])), len(json.dumps(c0, default=str)), fp)
        if sub not in best or key < best[sub][0]:
            best[sub] = (key, fp)
    keep = {fp for _k, fp in best.values()}
    for fp in list(acc.viol):
        if fp not in keep:
            acc.c["violations_subsumed"] += acc.viol[fp]["count"]
            del acc.viol[fp]
