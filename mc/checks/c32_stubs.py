"""Harness stub engines for C32 (factory selection).  They never plan: only the static protocol the
factory consults (`is_*`, `supports`, `satisfies`, `ensures`, `supports_plan`,
`supports_compilation`, `resulting_problem_kind`) matters.  Registered through the public
`Factory.add_engine(name, "mc.checks.c32_stubs", class_name)`.
"""
from __future__ import annotations

import unified_planning as up
from unified_planning.engines import Engine, OptimalityGuarantee, AnytimeGuarantee, CompilationKind
from unified_planning.engines import mixins
from unified_planning.engines.mixins.action_selector import ActionSelectorMixin
from unified_planning.model import ProblemKind
from unified_planning.model.problem_kind_versioning import LATEST_PROBLEM_KIND_VERSION
from unified_planning.plans import PlanKind

A_FEATURES = ["ACTION_BASED", "FLAT_TYPING", "NEGATIVE_CONDITIONS", "EQUALITIES", "DISJUNCTIVE_CONDITIONS"]
B_FEATURES = A_FEATURES + [
    "HIERARCHICAL_TYPING", "INT_FLUENTS", "SIMPLE_NUMERIC_PLANNING", "BOUNDED_TYPES", "INCREASE_EFFECTS",
    "CONDITIONAL_EFFECTS", "ACTIONS_COST", "PLAN_LENGTH", "FINAL_VALUE", "INT_NUMBERS_IN_ACTIONS_COST",
]
C_FEATURES = A_FEATURES + ["CONTINUOUS_TIME", "TIMED_GOALS", "MAKESPAN", "INT_TYPE_DURATIONS"]
Q_FEATURES = A_FEATURES + ["EXISTENTIAL_CONDITIONS", "UNIVERSAL_CONDITIONS"]


def _kind(features):
    return ProblemKind(set(features), version=LATEST_PROBLEM_KIND_VERSION)


class _Stub(Engine):
    FEATURES: list = []
    NAME = "stub"

    def __init__(self, **options):
        Engine.__init__(self)
        self.options = options

    @property
    def name(self):
        return self.NAME

    @classmethod
    def supported_kind(cls):
        return _kind(cls.FEATURES)

    @classmethod
    def supports(cls, problem_kind):
        return problem_kind <= cls.supported_kind()


# ---- planners ---------------------------------------------------------------------------
class PlannerA(_Stub, mixins.OneshotPlannerMixin, mixins.AnytimePlannerMixin):
    FEATURES, NAME = A_FEATURES, "mc_planner_a"

    def __init__(self, **options):
        _Stub.__init__(self, **options)
        mixins.OneshotPlannerMixin.__init__(self)
        mixins.AnytimePlannerMixin.__init__(self)

    @staticmethod
    def satisfies(optimality_guarantee):
        return optimality_guarantee == OptimalityGuarantee.SATISFICING

    @staticmethod
    def ensures(anytime_guarantee):
        return False

    def _solve(self, problem, heuristic=None, timeout=None, output_stream=None):
        raise NotImplementedError

    def _get_solutions(self, problem, timeout=None, output_stream=None):
        raise NotImplementedError


class PlannerB(PlannerA):
    FEATURES, NAME = B_FEATURES, "mc_planner_b"

    @staticmethod
    def satisfies(optimality_guarantee):
        return True

    @staticmethod
    def ensures(anytime_guarantee):
        return True


class PlannerC(_Stub, mixins.AnytimePlannerMixin):
    FEATURES, NAME = C_FEATURES, "mc_planner_c"

    def __init__(self, **options):
        _Stub.__init__(self, **options)
        mixins.AnytimePlannerMixin.__init__(self)

    @staticmethod
    def ensures(anytime_guarantee):
        return anytime_guarantee == AnytimeGuarantee.INCREASING_QUALITY

    def _get_solutions(self, problem, timeout=None, output_stream=None):
        raise NotImplementedError


# ---- validator ---------------------------------------------------------------------------
class Validator(_Stub, mixins.PlanValidatorMixin):
    FEATURES, NAME = B_FEATURES, "mc_validator"

    @staticmethod
    def supports_plan(plan_kind):
        return plan_kind in (PlanKind.PARTIAL_ORDER_PLAN, PlanKind.SEQUENTIAL_PLAN)

    def _validate(self, problem, plan):
        raise NotImplementedError


# ---- compilers -----------------------------------------------------------------------------
class CompilerX(_Stub, mixins.CompilerMixin):
    FEATURES, NAME = Q_FEATURES, "mc_compiler_x"

    def __init__(self, **options):
        _Stub.__init__(self, **options)
        mixins.CompilerMixin.__init__(self)

    @staticmethod
    def supports_compilation(compilation_kind):
        return compilation_kind in (CompilationKind.GROUNDING, CompilationKind.QUANTIFIERS_REMOVING)

    @staticmethod
    def resulting_problem_kind(problem_kind, compilation_kind=None):
        new = problem_kind.clone()
        if compilation_kind == CompilationKind.QUANTIFIERS_REMOVING:
            if new.has_existential_conditions() or new.has_universal_conditions():
                new.unset_conditions_kind("EXISTENTIAL_CONDITIONS")
                new.unset_conditions_kind("UNIVERSAL_CONDITIONS")
                new.set_conditions_kind("DISJUNCTIVE_CONDITIONS")
        return new

    def _compile(self, problem, compilation_kind):
        raise NotImplementedError


class CompilerY(_Stub, mixins.CompilerMixin):
    FEATURES, NAME = A_FEATURES, "mc_compiler_y"

    def __init__(self, **options):
        _Stub.__init__(self, **options)
        mixins.CompilerMixin.__init__(self)

    @staticmethod
    def supports_compilation(compilation_kind):
        return compilation_kind == CompilationKind.NEGATIVE_CONDITIONS_REMOVING

    @staticmethod
    def resulting_problem_kind(problem_kind, compilation_kind=None):
        new = problem_kind.clone()
        new.unset_conditions_kind("NEGATIVE_CONDITIONS")
        return new

    def _compile(self, problem, compilation_kind):
        raise NotImplementedError


# ---- repairers / portfolios / replanner / selector / simulator -----------------------------
class Repairer(_Stub, mixins.PlanRepairerMixin):
    FEATURES, NAME = A_FEATURES, "mc_repairer"

    def __init__(self, **options):
        _Stub.__init__(self, **options)
        mixins.PlanRepairerMixin.__init__(self)

    @staticmethod
    def satisfies(optimality_guarantee):
        return optimality_guarantee == OptimalityGuarantee.SATISFICING

    @staticmethod
    def supports_plan(plan_kind):
        return plan_kind in (PlanKind.SEQUENTIAL_PLAN, PlanKind.TIME_TRIGGERED_PLAN)

    def _repair(self, problem, plan, heuristic=None, timeout=None, output_stream=None):
        raise NotImplementedError


class RepairerOpt(Repairer):
    FEATURES, NAME = B_FEATURES, "mc_repairer_opt"

    @staticmethod
    def satisfies(optimality_guarantee):
        return True

    @staticmethod
    def supports_plan(plan_kind):
        return plan_kind == PlanKind.SEQUENTIAL_PLAN


class Portfolio(_Stub, mixins.PortfolioSelectorMixin):
    FEATURES, NAME = B_FEATURES, "mc_portfolio"

    def __init__(self, **options):
        _Stub.__init__(self, **options)
        mixins.PortfolioSelectorMixin.__init__(self)

    @staticmethod
    def satisfies(optimality_guarantee):
        return True

    def _get_best_oneshot_planners(self, problem, max_planners=None):
        raise NotImplementedError


class PortfolioSat(Portfolio):
    FEATURES, NAME = C_FEATURES, "mc_portfolio_sat"

    @staticmethod
    def satisfies(optimality_guarantee):
        return optimality_guarantee == OptimalityGuarantee.SATISFICING


class StubReplanner(_Stub, mixins.ReplannerMixin):
    FEATURES, NAME = B_FEATURES, "mc_replanner"

    def __init__(self, problem, error_on_failed_checks=True, **options):
        _Stub.__init__(self, **options)
        mixins.ReplannerMixin.__init__(self, problem, error_on_failed_checks)

    @staticmethod
    def satisfies(optimality_guarantee):
        return True

    def _resolve(self, timeout=None, output_stream=None):
        raise NotImplementedError

    def _update_initial_value(self, fluent, value):
        raise NotImplementedError

    def _add_goal(self, goal):
        raise NotImplementedError

    def _remove_goal(self, goal):
        raise NotImplementedError

    def _add_action(self, action):
        raise NotImplementedError

    def _remove_action(self, name):
        raise NotImplementedError


class Selector(_Stub, ActionSelectorMixin):
    FEATURES, NAME = A_FEATURES, "mc_action_selector"

    def __init__(self, problem, error_on_failed_checks=True, **options):
        _Stub.__init__(self, **options)
        ActionSelectorMixin.__init__(self, problem)

    def _get_action(self):
        raise NotImplementedError

    def _update(self, observation):
        raise NotImplementedError


class Simulator(_Stub, mixins.SequentialSimulatorMixin):
    FEATURES, NAME = C_FEATURES, "mc_simulator"

    def __init__(self, problem, error_on_failed_checks=True, **options):
        _Stub.__init__(self, **options)
        mixins.SequentialSimulatorMixin.__init__(self, problem, error_on_failed_checks)

    def _get_initial_state(self):
        raise NotImplementedError

    def _is_applicable(self, state, action, parameters):
        raise NotImplementedError

    def _apply(self, state, action, parameters):
        raise NotImplementedError

    def _get_applicable_actions(self, state):
        raise NotImplementedError

    def _is_goal(self, state):
        raise NotImplementedError


STUBS = [
    ("mc_planner_a", "PlannerA"),
    ("mc_planner_b", "PlannerB"),
    ("mc_planner_c", "PlannerC"),
    ("mc_validator", "Validator"),
    ("mc_compiler_x", "CompilerX"),
    ("mc_compiler_y", "CompilerY"),
    ("mc_repairer", "Repairer"),
    ("mc_repairer_opt", "RepairerOpt"),
    ("mc_portfolio", "Portfolio"),
    ("mc_portfolio_sat", "PortfolioSat"),
    ("mc_replanner", "StubReplanner"),
    ("mc_action_selector", "Selector"),
    ("mc_simulator", "Simulator"),
]
