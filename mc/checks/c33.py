"""C33 - ProblemKind ordering is a lattice consistent with equality and hashing (DESIGN 4/C33).

Exhaustive pairs (and triples over a core) of ProblemKinds over a 13-feature universe that hits
every version rule (3 deprecated features, the 4 version-1 features that trigger an upgrade rule,
version-2 and version-3 features, one neutral feature), with version None/1/2/3 where the
constructor accepts it.  Only ALGEBRAIC LAWS over the implementation's own operators are demanded
(no reference order is imposed):

 same `.version`:  reflexive; antisymmetric w.r.t. ==; a==b => b==a, hash(a)==hash(b) and
                   a<=b, b<=a; transitive (triples); union is an upper bound and the least one
                   w.r.t. every c of the core; intersection dually
 mixed versions:   a<=b  ==  up(a)<=up(b), where up() applies the library's own upgrade functions
                   explicitly to the common version; union/intersection agree (==) with the ones
                   of the upgraded operands; upgrading preserves <= (a<=b at v  =>  up(a)<=up(b))
 purity (operation sequences op(a,b) ; observe):  after every observer/operator
                   (<=, ==, hash, union, intersection, clone, str/repr) the operands'
                   `features`, `version` and `hash` are what they were before it.

Every operator is run on FRESHLY constructed operands (an operator that mutates its operand must not
contaminate the next law), and the laws are evaluated on the recorded answers.
"""
from __future__ import annotations

from itertools import combinations

from unified_planning.model.problem_kind import ProblemKind
from unified_planning.model import problem_kind_versioning as pkv

from mc.kernel.runner import Acc
from mc.checks import minviol

PROPERTY = "C33"
LEVEL = "exploration"
RULE = (
    "feature universe of 13 (3 deprecated, 4 upgrade triggers, 4 version-2, 1 version-3, 1 neutral); kinds = "
    "all subsets of size <= k and their complements x version in {None,1,2,3} accepted by the constructor "
    "(k=2 quick, k=3 thorough); all ordered pairs: same-version laws or mixed-version laws, operand purity "
    "after each of 7 operators; all triples over a core (all subsets of a 5-feature sub-universe x versions) "
    "for transitivity and least-upper/greatest-lower bound; family hist: all histories of <= d operations "
    "(set_/unset_ of 5 features, hash, <=, ==; d=3 quick, 4 thorough) on 8 start kinds, each state compared with "
    "the freshly constructed kind of the same feature set; non-trivial pair = a<=b or b<=a holds with a!=b "
    "as feature sets, or the pair involves a deprecated feature or two versions"
)
ASSUMPTIONS = [
    "explicit upgrade = the library's own problem_kind_versioning.upgrade_functions_map applied step by step",
    "laws are demanded among kinds with equal .version only (as the statement says); <, >, >= (derived by "
    "functools.total_ordering, which presumes a total order) are not judged",
]

DEPRECATED = ["CONTINUOUS_NUMBERS", "DISCRETE_NUMBERS", "NUMERIC_FLUENTS"]
UNIVERSE = DEPRECATED + [
    "ACTIONS_COST", "OVERSUBSCRIPTION", "CONTINUOUS_TIME", "DISCRETE_TIME",  # v1, upgrade triggers
    "INT_FLUENTS", "REAL_FLUENTS", "INT_TYPE_DURATIONS", "INT_NUMBERS_IN_ACTIONS_COST",  # v2
    "PROCESSES",  # v3
    "NEGATIVE_CONDITIONS",  # neutral
]
CORE = ["NUMERIC_FLUENTS", "CONTINUOUS_NUMBERS", "REAL_FLUENTS", "ACTIONS_COST", "PROCESSES"]
VERSIONS = [None, 1, 2, 3]


def bounds(tier):
    return {"universe": UNIVERSE, "subset_size": 2 if tier == "quick" else 3, "core": CORE,
            "versions": [str(v) for v in VERSIONS]}


# ---------------------------------------------------------------------------------------------
# kinds as plain data: (sorted feature tuple, version or None)


def added(f):
    return pkv.FEATURES_VERSIONS.get(f, (1, None))[0]


def constructible(fs, v):
    return v is None or all(added(f) <= v for f in fs)


def feature_sets(k):
    out = []
    seen = set()
    for r in range(k + 1):
        for c in combinations(range(len(UNIVERSE)), r):
            for s in (frozenset(c), frozenset(range(len(UNIVERSE))) - frozenset(c)):
                if s not in seen:
                    seen.add(s)
                    out.append(tuple(UNIVERSE[i] for i in sorted(s)))
    return out


def kinds(tier):
    k = 2 if tier == "quick" else 3
    return [(fs, v) for fs in feature_sets(k) for v in VERSIONS if constructible(fs, v)]


def core_kinds():
    out = []
    for r in range(len(CORE) + 1):
        for c in combinations(CORE, r):
            for v in VERSIONS:
                if constructible(c, v):
                    out.append((tuple(c), v))
    return out


def mk(spec):
    return ProblemKind(list(spec[0]), version=spec[1])


def lab1(spec):
    return "{%s}v%s" % (",".join(spec[0]), spec[1])


def lab(*specs):
    return ";".join(lab1(s) for s in specs)


def size(*specs):
    return [sum(len(s[0]) for s in specs), sum(0 if s[1] is None else 1 for s in specs), lab(*specs)]


def upgrade_spec(spec, ver_from, ver_to):
    fs = set(spec[0])
    v = ver_from
    while v < ver_to:
        fs = pkv.upgrade_functions_map[(v, v + 1)](fs)
        v += 1
    return (tuple(sorted(fs)), ver_to)


def shards(tier, seed):
    ks = kinds(tier)
    n = len(ks)
    step = max(8, n // 96)
    out = [{"level": 0, "fam": "pairs", "lo": lo, "hi": min(n, lo + step)} for lo in range(0, n, step)]
    nc = len(core_kinds())
    cstep = max(2, nc // 32)
    out += [{"level": 1, "fam": "triples", "lo": lo, "hi": min(nc, lo + cstep)} for lo in range(0, nc, cstep)]
    out += [{"level": 0, "fam": "hist", "start": i} for i in range(len(hist_starts()))]
    return out


# ---------------------------------------------------------------------------------------------
# family hist: kinds reached through the set_<group> / unset_<group> mutators, with observers
# (hash, ==, <=) interleaved.  After every step the kind must be indistinguishable (==, hash, <= both
# ways, features) from a kind freshly CONSTRUCTED with the same feature set and version argument.
HIST_FEATURES = ["ACTIONS_COST", "CONTINUOUS_TIME", "NUMERIC_FLUENTS", "INT_FLUENTS", "PROCESSES"]
HIST_OPS = [("hash",), ("le",), ("eq",)] + [("set", f) for f in HIST_FEATURES] + [("unset", f) for f in HIST_FEATURES]


def hist_starts():
    return [((), v) for v in VERSIONS] + [(("ACTIONS_COST", "NUMERIC_FLUENTS"), v) for v in VERSIONS]


def hist_depth(tier):
    return 3 if tier == "quick" else 4


def _group(f):
    from unified_planning.model.problem_kind import FEATURES

    return next(g for g, l in FEATURES.items() if f in l).lower()


def hist_run(start, hist):
    """replay `hist` on a fresh kind -> (kind, expected feature set) or None when a mutator refuses
    (a feature that the kind's version does not have yet)."""
    k = mk(start)
    exp = set(start[0])
    other = mk(start)
    for op in hist:
        if op[0] == "hash":
            hash(k)
        elif op[0] == "le":
            k <= other
        elif op[0] == "eq":
            k == other
        elif op[0] == "set":
            if not constructible((op[1],), start[1]):
                return None
            getattr(k, "set_" + _group(op[1]))(op[1])
            exp.add(op[1])
        else:
            getattr(k, "unset_" + _group(op[1]))(op[1])
            exp.discard(op[1])
    return k, exp


def hist_judge(start, hist):
    r = hist_run(start, hist)
    if r is None:
        return None
    k, exp = r
    fresh = ProblemKind(sorted(exp), version=start[1])
    out = []
    if set(k.features) != set(fresh.features):
        out.append(("features", "features %s, freshly constructed %s" % (sorted(k.features), sorted(fresh.features))))
    if not (k == fresh and fresh == k):
        out.append(("eq", "not == to the freshly constructed kind with the same features %s" % sorted(exp)))
    elif hash(k) != hash(fresh):
        out.append(("hash", "== to the freshly constructed kind %s but hash %s != %s" % (lab1((tuple(sorted(exp)), start[1])), hash(k), hash(fresh))))
    if not (k <= fresh and fresh <= k):
        out.append(("le", "not <= both ways with the freshly constructed kind with the same features %s" % sorted(exp)))
    return out


def _subseq(a, b):
    it = iter(b)
    return all(x in it for x in a)


def check_hist(start, tier, acc, only=None):
    depth = hist_depth(tier)
    frontier = [()]
    reported = set()
    for d in range(1, depth + 1):
        nxt = []
        for h in frontier:
            for op in HIST_OPS:
                hist = h + (op,)
                if only is not None and hist != only[: len(hist)]:
                    continue
                res = hist_judge(start, hist)
                if res is None:
                    acc.count("hist_mutator_refused")
                    continue
                acc.count("evaluations")
                acc.count("histories")
                if any(o[0] == "unset" for o in hist) and any(o[0] in ("hash", "le", "eq") for o in hist):
                    acc.count("nontrivial")
                nxt.append(hist)
                for sub, what in res:
                    shape = ";".join(o[0] for o in hist)
                    toks = shape.split(";")
                    if any(s2 == sub and _subseq(sh2, toks) for s2, sh2 in reported):
                        acc.c["violations_subsumed"] += 1
                        continue
                    reported.add((sub, tuple(toks)))
                    acc.violation(
                        "hist:%s|%s" % (sub, shape),
                        "after %s on %s: %s" % (" ; ".join("%s(%s)" % (o[0], o[1]) if len(o) > 1 else o[0] for o in hist), lab1(start), what),
                        {"hist_start": [list(start[0]), start[1]], "hist": [list(o) for o in hist], "tier": tier},
                    )
        frontier = nxt


# ---------------------------------------------------------------------------------------------
# operators, each on fresh operands, with a purity observation


def snap(k):
    return (frozenset(k.features), k.version, hash(k))


OPS = {
    "le": lambda a, b: a <= b,
    "eq": lambda a, b: a == b,
    "hash": lambda a, b: hash(a),
    "union": lambda a, b: a.union(b),
    "intersection": lambda a, b: a.intersection(b),
    "clone": lambda a, b: a.clone(),
    "str": lambda a, b: (str(a), repr(a)),
}


class Judge:
    def __init__(self, acc, mv):
        self.acc, self.mv = acc, mv

    def viol(self, sub, specs, what, extra=None):
        case = {"specs": [[list(s[0]), s[1]] for s in specs]}
        if extra:
            case.update(extra)
        self.mv.add(sub, size(*specs), lab(*specs), what, case)

    def op(self, name, sa, sb):
        """run operator `name` on fresh operands built from specs; check operand purity.
        returns ("ok", result) or ("exc", type name)."""
        self.acc.count("operator_calls")
        try:
            a, b = mk(sa), mk(sb)
            before = (snap(a), snap(b))
            r = OPS[name](a, b)
        except Exception as e:
            self.viol("raises:%s:%s" % (name, type(e).__name__), (sa, sb), "%s raised %r" % (name, e), {"op": name})
            return ("exc", type(e).__name__)
        after = (snap(a), snap(b))
        if after != before:
            for who, x, y in (("lhs", before[0], after[0]), ("rhs", before[1], after[1])):
                if x != y:
                    what_changed = [n for n, p, q in zip(("features", "version", "hash"), x, y) if p != q]
                    self.viol(
                        "purity:%s:operand-%s-changed" % (name, "+".join(what_changed)),
                        (sa, sb),
                        "after `a %s b` the %s operand's %s changed: features %s -> %s, hash %s -> %s"
                        % (name, who, "/".join(what_changed), sorted(x[0]), sorted(y[0]), x[2], y[2]),
                        {"op": name},
                    )
        return ("ok", r)

    def val(self, name, sa, sb, default=None):
        t, r = self.op(name, sa, sb)
        return r if t == "ok" else default

    def same(self, k1, k2):
        """== of two result kinds, judged on clones so that == itself cannot disturb anything."""
        return k1.clone() == k2.clone()


def check_pair(J, sa, sb, acc):
    """all laws for the ordered pair (a, b)."""
    acc.count("evaluations")
    va, vb = mk(sa).version, mk(sb).version
    le_ab = J.val("le", sa, sb)
    le_ba = J.val("le", sb, sa)
    eq_ab = J.val("eq", sa, sb)
    eq_ba = J.val("eq", sb, sa)
    ha, hb = J.val("hash", sa, sb), J.val("hash", sb, sa)
    for name in ("clone", "str"):
        J.op(name, sa, sb)
    un = J.val("union", sa, sb)
    it = J.val("intersection", sa, sb)
    if None in (le_ab, le_ba, eq_ab, eq_ba, ha, hb, un, it):
        acc.outcome("operator-raised")
        return
    dep = any(f in DEPRECATED for f in sa[0] + sb[0])
    if (set(sa[0]) != set(sb[0]) and (le_ab or le_ba)) or dep or va != vb:
        acc.count("nontrivial")
    if eq_ab != eq_ba:
        J.viol("eq:asymmetric", (sa, sb), "a==b is %s but b==a is %s" % (eq_ab, eq_ba))
    if eq_ab and ha != hb:
        J.viol("hash:equal-kinds-different-hash", (sa, sb), "a==b but hash(a)=%s, hash(b)=%s" % (ha, hb))
    if va == vb:
        acc.outcome("same-version:le=%s,ge=%s,eq=%s" % (le_ab, le_ba, eq_ab))
        if sa == sb:
            if not le_ab:
                J.viol("le:irreflexive", (sa,), "a<=a is False")
            if not eq_ab:
                J.viol("eq:irreflexive", (sa,), "a==a is False")
        if le_ab and le_ba and not eq_ab:
            J.viol("le:not-antisymmetric", (sa, sb), "a<=b and b<=a but a!=b")
        if eq_ab and not (le_ab and le_ba):
            J.viol("eq:equal-but-not-le", (sa, sb), "a==b but a<=b is %s, b<=a is %s" % (le_ab, le_ba))
        # union / intersection are bounds (leastness: triples)
        sun = (tuple(sorted(un.features)), un.version)
        sit = (tuple(sorted(it.features)), it.version)
        if un.version != va:
            J.viol("union:version", (sa, sb), "union of two version-%s kinds has version %s" % (va, un.version))
        elif it.version != va:
            J.viol("intersection:version", (sa, sb), "intersection of two version-%s kinds has version %s" % (va, it.version))
        else:
            for who, s in (("lhs", sa), ("rhs", sb)):
                if not J.val("le", s, sun, True):
                    J.viol("union:not-upper-bound", (sa, sb), "%s operand is not <= a.union(b)=%s" % (who, lab1(sun)))
                if not J.val("le", sit, s, True):
                    J.viol("intersection:not-lower-bound", (sa, sb), "a.intersection(b)=%s is not <= %s operand" % (lab1(sit), who))
            if le_ab:
                if not J.same(un, mk(sb)):
                    J.viol("union:absorption", (sa, sb), "a<=b but a.union(b)=%s != b" % lab1(sun))
                if not J.same(it, mk(sa)):
                    J.viol("intersection:absorption", (sa, sb), "a<=b but a.intersection(b)=%s != a" % lab1(sit))
    else:
        acc.outcome("mixed:%s->%s:le=%s" % (va, vb, le_ab))
        v = max(va, vb)
        ua, ub = upgrade_spec(sa, va, v), upgrade_spec(sb, vb, v)
        want = J.val("le", ua, ub)
        if want is not None and want != le_ab:
            J.viol("mixed:le-differs-from-upgraded", (sa, sb),
                   "a<=b is %s but after explicit upgrade to version %d (%s <= %s) it is %s" % (le_ab, v, lab1(ua), lab1(ub), want))
        wun, wit = J.val("union", ua, ub), J.val("intersection", ua, ub)
        if wun is not None and not (un.version == v and J.same(un, wun)):
            J.viol("mixed:union-differs-from-upgraded", (sa, sb), "a.union(b)=%r, union of upgraded operands=%r" % (un, wun))
        if wit is not None and not (it.version == v and J.same(it, wit)):
            J.viol("mixed:intersection-differs-from-upgraded", (sa, sb), "a.intersection(b)=%r, of upgraded operands=%r" % (it, wit))
    # upgrading preserves <= : a<=b at version v  =>  up(a)<=up(b) at every later version
    if va == vb and le_ab:
        for v in range(va + 1, pkv.LATEST_PROBLEM_KIND_VERSION + 1):
            ua, ub = upgrade_spec(sa, va, v), upgrade_spec(sb, vb, v)
            if not constructible(ua[0], v) or not constructible(ub[0], v):
                continue
            acc.count("upgrade_monotonicity_checks")
            if J.val("le", ua, ub) is False:
                J.viol("upgrade:not-monotone:%d->%d" % (va, v), (sa, sb),
                       "a<=b at version %d but upgraded to %d: %s <= %s is False" % (va, v, lab1(ua), lab1(ub)))


def check_triples(J, core, lo, hi, acc):
    """transitivity and least/greatest bound over same-version triples of the core."""
    n = len(core)
    ver = [mk(s).version for s in core]
    le = {}
    for i in range(n):
        for j in range(n):
            if ver[i] == ver[j]:
                le[i, j] = J.val("le", core[i], core[j])
    for i in range(lo, hi):
        for j in range(n):
            if ver[i] != ver[j]:
                continue
            un = J.val("union", core[i], core[j])
            it = J.val("intersection", core[i], core[j])
            sun = None if un is None else (tuple(sorted(un.features)), un.version)
            sit = None if it is None else (tuple(sorted(it.features)), it.version)
            for k in range(n):
                if ver[k] != ver[i]:
                    continue
                acc.count("evaluations")
                acc.count("triples")
                a, b, c = core[i], core[j], core[k]
                if le[i, j] and le[j, k]:
                    acc.count("nontrivial")
                    if le[i, k] is False:
                        J.viol("le:not-transitive", (a, b, c), "a<=b and b<=c but not a<=c")
                if le[i, k] and le[j, k] and sun is not None and un.version == ver[i]:
                    if J.val("le", sun, c) is False:
                        J.viol("union:not-least", (a, b, c), "a<=c and b<=c but a.union(b)=%s is not <= c" % lab1(sun))
                if le[k, i] and le[k, j] and sit is not None and it.version == ver[i]:
                    if J.val("le", c, sit) is False:
                        J.viol("intersection:not-greatest", (a, b, c), "c<=a and c<=b but c is not <= a.intersection(b)=%s" % lab1(sit))
                acc.outcome("triple:%s%s%s" % (int(bool(le[i, j])), int(bool(le[j, k])), int(bool(le[i, k]))))


def run_shard(shard, tier, seed):
    acc = Acc()
    mv = minviol.MinViol(acc)
    J = Judge(acc, mv)
    if shard["fam"] == "hist":
        check_hist(hist_starts()[shard["start"]], tier, acc)
        acc.sample({"hist_start": lab1(hist_starts()[shard["start"]])})
        return acc
    if shard["fam"] == "pairs":
        ks = kinds(tier)
        for i in range(shard["lo"], shard["hi"]):
            for sb in ks:
                check_pair(J, ks[i], sb, acc)
        acc.sample({"pair": [lab1(ks[shard["lo"]]), lab1(ks[-1 - shard["lo"]])]})
    else:
        core = core_kinds()
        check_triples(J, core, shard["lo"], shard["hi"], acc)
        acc.sample({"triple": [lab1(core[shard["lo"]]), lab1(core[len(core) // 2]), lab1(core[-1])]})
    mv.flush()
    return acc


def finalize(acc, tier):
    minviol.finalize(acc, tier)


def replay(case):
    acc = Acc()
    if "hist" in case:
        start = (tuple(case["hist_start"][0]), case["hist_start"][1])
        hist = tuple(tuple(o) for o in case["hist"])
        res = hist_judge(start, hist) or []
        shape = ";".join(o[0] for o in hist)
        return [("hist:%s|%s" % (sub, shape), what) for sub, what in res]
    mv = minviol.MinViol(acc)
    J = Judge(acc, mv)
    specs = [(tuple(s[0]), s[1]) for s in case["specs"]]
    if len(specs) == 1:
        check_pair(J, specs[0], specs[0], acc)
    elif len(specs) == 2:
        check_pair(J, specs[0], specs[1], acc)
    else:
        check_triples(J, specs, 0, len(specs), acc)
    mv.flush()
    want = lab(*specs)
    res = [(fp, e["cases"][0]["what"]) for fp, e in acc.viol.items() if fp.rpartition("|")[2] == want]
    return minviol.filter_replay(case, res)
