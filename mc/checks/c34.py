"""C34 - HTN task-network ordering extraction is exact (DESIGN 4/C34).

Exhaustive enumeration of precedence relations (every subset of the ordered pairs, cyclic ones
and self-loops included) over n subtasks, each built through the real TaskNetwork / Method API;
`total_order()` / `partial_order()` are judged against a brute-force enumeration of all n!
permutations (linear extensions).  Every relation is also combined with one constraint of another
kind (delayed, non-strict, start-start, ..., non-subtask timepoint): then both must be None; with a
NON-temporal extra constraint the answers must be unchanged.

Scope decisions (so that nothing beyond the statement is demanded)
* `partial_order()` of a network that IS totally ordered returns the chain of consecutive pairs
  (TotalOrder is-a PartialOrder whose precedences are rebuilt from the order) - a list of
  precedences between the subtasks describing the same order.  For those networks the check
  demands equality of the transitive closures, not of the literal pair sets; for every other
  network it demands exactly the inserted pairs (as a set: re-inserting a pair is a no-op).
* precedences that mention identifiers that are not subtasks of the network are outside the
  statement and not generated.
* an extra constraint the library REJECTS at add_constraint time is a documented skip.
"""
from __future__ import annotations

from itertools import permutations

import unified_planning as up
from unified_planning.model.timing import Timing, Timepoint, TimepointKind, GlobalStartTiming

from mc.kernel.runner import Acc
from mc.gen.spec import fresh_env
from mc.checks import minviol

PROPERTY = "C34"
LEVEL = "exploration"
RULE = (
    "all subsets of the n*(n-1) ordered pairs of n subtasks (n<=4 quick, n<=5 thorough), built with "
    "set_strictly_before on a TaskNetwork (and on a Method for n<=4); for n<=3 additionally all "
    "subsets incl. self-loops, every insertion order of the pairs (plus a repeated insertion), three "
    "construction routes (set_strictly_before / add_constraint(LT) / add_constraint(GT)), reversed "
    "declaration order; every relation with n<=4 x 14 extra constraint kinds x positions "
    "first/middle/last (thorough: n=5 x 2 kinds appended last); oracle = brute force over all n! permutations; non-trivial = relation "
    "with >= 2 pairs that is cyclic, or has exactly one linear extension, or carries an extra constraint"
)
ASSUMPTIONS = [
    "for a totally ordered network partial_order() may return any pair list with the same transitive "
    "closure as the inserted pairs (the library returns the chain)",
    "one environment per shard (ordering extraction keeps no per-environment state besides hash-consing)",
]

EXTRA_KINDS = [
    "delay-lhs", "delay-rhs", "neg-delay", "le", "start-start", "end-end", "start-end",
    "global-start", "own-end", "own-start", "eq", "not", "or", "nontemporal",
]


N5_EXTRA = ["delay-lhs", "start-start"]  # thorough: n=5, appended last


def bounds(tier):
    q = tier == "quick"
    return {
        "n_max": 4 if q else 5,
        "n_max_method": 4,
        "n_max_extra": 4,
        "n5_extra_kinds": [] if q else N5_EXTRA,
        "n_max_orders_loops_routes": 3,
        "extra_kinds": EXTRA_KINDS,
    }


# ---------------------------------------------------------------------------------------------
# enumeration


def offdiag(n):
    return [(i, j) for i in range(n) for j in range(n) if i != j]


def allpairs(n):
    return [(i, j) for i in range(n) for j in range(n)]


def shards(tier, seed):
    b = bounds(tier)
    out = []
    out.append({"level": 0, "fam": "small"})  # n<=3: loops, orders, routes, decl order, method
    for n in range(0, b["n_max_extra"] + 1):
        tot = 1 << len(offdiag(n))
        step = 256
        for lo in range(0, tot, step):
            out.append({"level": 0 if n <= 3 else 1, "fam": "extra", "n": n, "lo": lo, "hi": min(tot, lo + step)})
    for n in range(4, b["n_max"] + 1):
        tot = 1 << len(offdiag(n))
        step = 512 if n == 4 else 4096
        for lo in range(0, tot, step):
            out.append({"level": n - 3, "fam": "rel", "n": n, "lo": lo, "hi": min(tot, lo + step),
                        "method": n <= b["n_max_method"]})
    if b["n5_extra_kinds"]:
        tot = 1 << len(offdiag(5))
        for lo in range(0, tot, 8192):
            out.append({"level": 3, "fam": "extra5", "n": 5, "lo": lo, "hi": min(tot, lo + 8192)})
    out.sort(key=lambda s: s["level"])
    return out


# ---------------------------------------------------------------------------------------------
# brute-force reference


class Brute:
    def __init__(self, n):
        self.n = n
        self.perms = list(permutations(range(n)))
        self.sat = []
        for p in self.perms:
            pos = {t: k for k, t in enumerate(p)}
            m = 0
            for i in range(n):
                for j in range(n):
                    if i != j and pos[i] < pos[j]:
                        m |= 1 << (i * n + j)
            self.sat.append(m)

    def extensions(self, pairs):
        """all permutations of the subtasks that respect every pair (none if a self-loop)."""
        m = 0
        for i, j in pairs:
            m |= 1 << (i * self.n + j)
        return [p for p, s in zip(self.perms, self.sat) if m & ~s == 0]


def closure(pairs):
    r = set(pairs)
    changed = True
    while changed:
        changed = False
        for a, b in list(r):
            for c, d in list(r):
                if b == c and (a, d) not in r:
                    r.add((a, d))
                    changed = True
    return r


# ---------------------------------------------------------------------------------------------
# building through the real API


class World:
    def __init__(self):
        self.env = fresh_env()
        self.em = self.env.expression_manager
        self.task = up.model.htn.Task("T", _env=self.env)
        self.act = up.model.InstantaneousAction("a", _env=self.env)
        ut = self.env.type_manager.UserType("U")
        self.o1 = self.em.ObjectExp(up.model.Object("o1", ut, self.env))
        self.o2 = self.em.ObjectExp(up.model.Object("o2", ut, self.env))
        self.nmeth = 0

    def container(self, cont):
        if cont == "tn":
            return up.model.htn.TaskNetwork(self.env)
        self.nmeth += 1
        m = up.model.htn.Method("m%d" % self.nmeth, _env=self.env)
        m.set_task(self.task)
        return m

    def extra(self, kind, subs):
        """the extra constraint as an FNode; a = first subtask, b = second (or first)."""
        em = self.em
        if kind == "nontemporal":
            return em.Equals(self.o1, self.o2)
        a = subs[0]
        b = subs[1] if len(subs) > 1 else subs[0]
        T0 = lambda tp: Timing(0, tp)
        if kind == "delay-lhs":
            return em.LT(Timing(1, a.end), T0(b.start))
        if kind == "delay-rhs":
            return em.LT(T0(a.end), Timing(1, b.start))
        if kind == "neg-delay":
            return em.LT(Timing(-1, a.end), T0(b.start))
        if kind == "le":
            return em.LE(T0(a.end), T0(b.start))
        if kind == "start-start":
            return em.LT(T0(a.start), T0(b.start))
        if kind == "end-end":
            return em.LT(T0(a.end), T0(b.end))
        if kind == "start-end":
            return em.LT(T0(a.start), T0(b.end))
        if kind == "global-start":
            return em.LT(GlobalStartTiming(), T0(b.start))
        if kind == "own-end":
            return em.LT(T0(Timepoint(TimepointKind.END, None)), T0(b.start))
        if kind == "own-start":
            return em.LT(T0(a.end), T0(Timepoint(TimepointKind.START, None)))
        if kind == "eq":
            return em.Equals(T0(a.end), T0(b.start))
        if kind == "not":
            return em.Not(em.LT(T0(a.end), T0(b.start)))
        if kind == "or":
            return em.Or(em.LT(T0(a.end), T0(b.start)), em.LT(T0(b.end), T0(a.start)))
        if kind == "nontemporal":
            return em.Equals(self.o1, self.o2)
        raise ValueError(kind)

    def build(self, case):
        """returns (network, idents) or None when the library rejected the extra constraint."""
        n = case["n"]
        net = self.container(case.get("cont", "tn"))
        idents = ["s%d" % i for i in range(n)]
        order = list(range(n))
        if case.get("decl") == "rev":
            order.reverse()
        subs = {}
        for i in order:
            subs[i] = net.add_subtask(self.task if i % 2 == 0 else self.act, ident=idents[i])
        seq = [("p", i, j) for i, j in case["pairs"]]
        ex = case.get("extra")
        if ex is not None:
            kind, pos = ex
            k = {"first": 0, "mid": len(seq) // 2, "last": len(seq)}[pos]
            seq.insert(k, ("x", kind))
        via = case.get("via", "ssb")
        em = self.em
        for item in seq:
            if item[0] == "p":
                a, b = subs[item[1]], subs[item[2]]
                if via == "ssb":
                    net.set_strictly_before(a, b)
                elif via == "lt":
                    net.add_constraint(em.LT(Timing(0, a.end), Timing(0, b.start)))
                elif via == "gt":
                    net.add_constraint(em.GT(Timing(0, b.start), Timing(0, a.end)))
                elif via == "ordered":
                    net.set_ordered(a, b)
                else:
                    raise ValueError(via)
            else:
                c = self.extra(item[1], [subs[i] for i in range(n)])
                net.add_constraint(c)
        return net, idents


# ---------------------------------------------------------------------------------------------
# oracle


def label(case):
    s = "n=%d:%s" % (case["n"], ",".join("%d<%d" % (i, j) for i, j in case["pairs"]) or "-")
    for k in ("cont", "via", "decl"):
        if case.get(k) not in (None, "tn", "ssb", "fwd"):
            s += ":%s=%s" % (k, case[k])
    if case.get("extra"):
        s += ":+%s@%s" % tuple(case["extra"])
    return s


def size(case):
    return [case["n"], len(case["pairs"]), 0 if not case.get("extra") else 1,
            [list(p) for p in case["pairs"]], label(case)]


def judge(w, brute, case):
    """-> list of (sub-oracle, what); also returns classification for counters."""
    out = []
    n = case["n"]
    pairs = [tuple(p) for p in case["pairs"]]
    ex = case.get("extra")
    try:
        built = w.build(case)
    except Exception as e:  # the library refused the network: only extras may be refused
        if ex is not None:
            return None, "rejected:%s:%s" % (ex[0], type(e).__name__)
        return [("build:raises:" + type(e).__name__, "building the network raised %r" % (e,))], "error"
    net, idents = built
    try:
        to1 = net.total_order()
        po = net.partial_order()
        to2 = net.total_order()
    except Exception as e:
        return [("extract:raises:" + type(e).__name__, "total_order/partial_order raised %r" % (e,))], "error"
    if to1 != to2:
        out.append(("total_order:unstable", "total_order() returned %r then %r" % (to1, to2)))
    # the answers belong to the caller: whatever it does with the returned lists, the network must
    # keep reporting the same orders (history: query, mutate the answer in place, query again)
    try:
        to_a, po_a = net.total_order(), net.partial_order()
        snap_to, snap_po = (None if to_a is None else list(to_a)), (None if po_a is None else list(po_a))
        for ans in (to_a, po_a):
            if isinstance(ans, list):
                ans.reverse()
                ans.append(ans[0] if ans else ("x", "y"))
        to_b, po_b = net.total_order(), net.partial_order()
        if to_b != snap_to:
            out.append(("total_order:depends-on-callers-list", "total_order() returned %r after the caller modified the earlier answer %r in place" % (to_b, snap_to)))
        if po_b != snap_po:
            out.append(("partial_order:depends-on-callers-list", "partial_order() returned %r after the caller modified the earlier answer %r in place" % (po_b, snap_po)))
    except Exception as e:
        out.append(("extract:raises-on-requery:" + type(e).__name__, "re-querying after modifying the returned lists raised %r" % (e,)))
    temporal_extra = ex is not None and ex[0] != "nontemporal"
    if temporal_extra:
        if to1 is not None:
            out.append(("extra:%s:total_order-not-None" % ex[0], "total_order()=%r with a %s constraint" % (to1, ex[0])))
        if po is not None:
            out.append(("extra:%s:partial_order-not-None" % ex[0], "partial_order()=%r with a %s constraint" % (po, ex[0])))
        return out, "extra"
    exts = brute.extensions(pairs)
    want_pairs = {(idents[i], idents[j]) for i, j in pairs}
    cls = "ext0" if not exts else ("ext1" if len(exts) == 1 else "ext2+")
    tag = "" if ex is None else "nontemporal:"
    if len(exts) == 1:
        want = [idents[i] for i in exts[0]]
        if to1 is None:
            out.append((tag + "total_order:None-but-unique-extension", "total_order()=None, unique linear extension %r" % (want,)))
        elif list(to1) != want:
            out.append((tag + "total_order:wrong-order", "total_order()=%r, unique linear extension %r" % (to1, want)))
    elif to1 is not None:
        out.append((tag + "total_order:list-but-%s" % ("cyclic" if not exts else "several-extensions"),
                    "total_order()=%r but the precedences admit %d linear extensions" % (to1, len(exts))))
    if po is None:
        out.append((tag + "partial_order:None", "partial_order()=None for pure precedences %r" % (sorted(want_pairs),)))
    else:
        try:
            got = {(a, b) for a, b in po}
        except Exception:
            got = None
        if got is None:
            out.append((tag + "partial_order:malformed", "partial_order()=%r" % (po,)))
        elif len(exts) == 1:
            if closure(got) != closure(want_pairs):
                out.append((tag + "partial_order:total:different-order",
                            "partial_order()=%r is not equivalent to the inserted %r" % (po, sorted(want_pairs))))
        elif got != want_pairs:
            out.append((tag + "partial_order:pairs", "partial_order()=%r, inserted %r" % (po, sorted(want_pairs))))
    return out, cls


def run_case(w, brute, case, acc, mv):
    res, cls = judge(w, brute, case)
    acc.count("evaluations")
    acc.outcome(cls)
    if res is None:
        acc.count("skipped_extra_rejected_by_library")
        return
    if case.get("extra") or (len(case["pairs"]) >= 2 and cls in ("ext0", "ext1")):
        acc.count("nontrivial")
    if res and case.get("extra") and case["extra"][0] == "nontemporal":
        # report only what the non-temporal constraint CHANGES (the plain relation is judged on its own)
        base = dict(case)
        del base["extra"]
        bres, _ = judge(w, brute, base)
        have = {"nontemporal:" + sub for sub, _ in (bres or [])}
        res = [(sub, what) for sub, what in res if sub not in have]
    for sub, what in res:
        mv.add(sub, size(case), label(case), what, case)


def from_mask(prs, mask):
    return [list(prs[k]) for k in range(len(prs)) if mask >> k & 1]


def run_shard(shard, tier, seed):
    acc = Acc()
    mv = minviol.MinViol(acc)
    w = World()
    fam = shard["fam"]
    if fam == "rel":
        n = shard["n"]
        brute = Brute(n)
        prs = offdiag(n)
        for mask in range(shard["lo"], shard["hi"]):
            pairs = from_mask(prs, mask)
            run_case(w, brute, {"n": n, "pairs": pairs}, acc, mv)
            if mask % 2 == 1:  # reversed insertion order
                run_case(w, brute, {"n": n, "pairs": pairs[::-1]}, acc, mv)
            if shard.get("method"):
                run_case(w, brute, {"n": n, "pairs": pairs, "cont": "method"}, acc, mv)
        acc.sample({"n": n, "pairs": from_mask(prs, shard["hi"] - 1)})
    elif fam == "extra":
        n = shard["n"]
        brute = Brute(n)
        prs = offdiag(n)
        for mask in range(shard["lo"], shard["hi"]):
            pairs = from_mask(prs, mask)
            for kind in EXTRA_KINDS:
                if n == 0 and kind != "nontemporal":
                    continue
                poss = ["last"] if not pairs else (["first", "last"] if len(pairs) == 1 else ["first", "mid", "last"])
                for pos in poss:
                    run_case(w, brute, {"n": n, "pairs": pairs, "extra": [kind, pos]}, acc, mv)
        acc.sample({"n": n, "pairs": from_mask(prs, shard["hi"] - 1), "extra": [EXTRA_KINDS[0], "last"]})
    elif fam == "extra5":
        n = 5
        brute = Brute(n)
        prs = offdiag(n)
        for mask in range(shard["lo"], shard["hi"]):
            pairs = from_mask(prs, mask)
            for kind in N5_EXTRA:
                run_case(w, brute, {"n": n, "pairs": pairs, "extra": [kind, "last"]}, acc, mv)
        acc.sample({"n": n, "pairs": from_mask(prs, shard["hi"] - 1), "extra": [N5_EXTRA[0], "last"]})
    elif fam == "small":
        for n in range(0, 4):
            brute = Brute(n)
            # (a) plain relations on TaskNetwork and Method, both declaration orders
            prs = offdiag(n)
            for mask in range(1 << len(prs)):
                pairs = from_mask(prs, mask)
                for cont in ("tn", "method"):
                    for decl in ("fwd", "rev"):
                        run_case(w, brute, {"n": n, "pairs": pairs, "cont": cont, "decl": decl}, acc, mv)
                for via in ("lt", "gt", "ordered"):
                    run_case(w, brute, {"n": n, "pairs": pairs, "via": via}, acc, mv)
                # (b) every insertion order, and one repeated insertion
                if 2 <= len(pairs) <= 6:
                    for perm in permutations(pairs):
                        run_case(w, brute, {"n": n, "pairs": [list(p) for p in perm]}, acc, mv)
                if pairs:
                    run_case(w, brute, {"n": n, "pairs": pairs + [pairs[0]]}, acc, mv)
            # (c) relations with self-loops
            prs = allpairs(n)
            for mask in range(1 << len(prs)):
                pairs = from_mask(prs, mask)
                if all(i != j for i, j in pairs):
                    continue
                run_case(w, brute, {"n": n, "pairs": pairs}, acc, mv)
        acc.sample({"n": 3, "pairs": [[2, 1], [1, 0], [2, 0]], "cont": "method", "decl": "rev"})
    else:
        raise ValueError(fam)
    mv.flush()
    return acc


finalize = minviol.finalize


def replay(case):
    orig = case
    case = {k: v for k, v in case.items() if not k.startswith("_")}
    w = World()
    res, _cls = judge(w, Brute(case["n"]), case)
    return minviol.filter_replay(orig, [("%s|%s" % (sub, label(case)), what) for sub, what in (res or [])])
