"""C35 - SimulatedExecutionEnvironment is faithful to its contingent problem (DESIGN 4/C35).

Per U-CONT instance (mc/gen/ucont.py): the module-level `random` of
unified_planning.model.contingent.execution_environment is replaced by a chooser, so that
EVERY answer of `random.choice` is enumerated (one exploration per offered hidden state).
For each answer:
  * the initial state is observed through the problem's own `look` sensing action (observes all
    ground fluents): the hidden part must satisfy every oneof/or constraint, every non-hidden
    ground fluent must have its declared value (explicit > per-fluent default > per-type
    default), `is_goal_reached` must agree with the reference goal test;
  * ALL action sequences of length <= D over the 6 ground actions are executed (the
    environment is rebuilt and the prefix replayed whenever a sibling is needed after a
    successful step; after a refused step the same environment is kept, so "a refused action
    leaves the state unchanged" is exercised too); every step is compared with the sequential
    reference on that state: raises UPUsageError iff inapplicable, returned observation = values of
    the sensed fluents (parameters substituted) in the new state, {} for ordinary actions,
    `is_goal_reached` = reference goal test;
  * over all answers: the hidden states offered to `random.choice` are exactly the brute-force
    models of the constraints, each once.
"""
from __future__ import annotations

from mc.kernel.runner import Acc, HarnessError
from mc.gen import ucont as uc
from mc.gen.spec import tj, to_spec
from mc.ref.seqsem import RefProblem, canon
from mc.checks import simutil as su

PROPERTY = "C35"
LEVEL = "model_checking"
RULE = (
    "U-CONT slot grammar (hidden fluents via oneof/or/unknown incl. negative literals and overlapping "
    "constraints; non-hidden fluents with explicit value, per-fluent default true/false, per-type "
    "default; ordinary actions a1(x), a2, sensing actions sense(x), look; sensing actions with "
    "effects / several / no observed fluents) with <= d deviating slots; every answer of the "
    "intercepted random.choice; all action sequences <= D; states = sequence prefixes reached, "
    "transitions = apply calls compared with the reference, traces = maximal sequences on which "
    "every step agreed; non-trivial = transition that changes the state, is refused, or returns a "
    "non-empty observation"
)
ASSUMPTIONS = [
    "reference sequential semantics mc/ref/seqsem.py; a sensing action is executed like an ordinary action",
    "the initial state is read through the problem's own `look` sensing action (black box)",
    "oneof = exactly one literal holds, or = at least one literal holds",
    "combinations that declare no initial value for a non-hidden fluent, or an explicit value for a "
    "hidden one, are not generated",
    "z3 enumerates the models in a fixed order for a fixed problem object; the chooser selects by "
    "model content, so a different order is harmless",
]


def _depth(tier, level):
    if tier == "quick":
        return 3 if level <= 1 else 2
    return 3


def bounds(tier):
    return {
        "deviation_plan": uc.cont_plan(tier),
        "depth": {str(l): _depth(tier, l) for l in (0, 1, 2)},
        "pool_sizes": {s: len(pl) for s, pl in uc.CONT_POOLS.items()},
        "ground_actions": 6,
    }


def shards(tier, seed):
    ids = uc.cont_case_ids(tier)
    per = {0: 1, 1: 55, 2: 120} if tier == "quick" else {0: 1, 1: 55, 2: 400}
    return su.chunk_cases(ids, seed, per_level_chunks=per)


def run_shard(shard, tier, seed):
    acc = Acc()
    for cid in shard["cids"]:
        cid = tuple(tuple(x) for x in cid)
        check_case(cid, _depth(tier, shard["level"]), acc)
    return acc


def replay(case):
    acc = Acc()
    check_case(tuple(tuple(x) for x in case["cid"]), case.get("depth", 3), acc)
    return [(fp, e["cases"][0]["what"]) for fp, e in acc.viol.items()]


finalize = su.prune_supersets


# --------------------------------------------------------------------------------------
class Chooser:
    """stands in for the module `random`: records what is offered, answers by index or by
    model content."""

    def __init__(self, index=None, content=None):
        self.index, self.content = index, content
        self.offered = None

    @staticmethod
    def key(model):
        return tuple(sorted((str(k), str(v)) for k, v in model.items()))

    def choice(self, seq):
        seq = list(seq)
        self.offered = [self.key(m) for m in seq]
        if self.content is not None:
            if self.content not in self.offered:
                from mc.kernel.runner import HarnessError

                raise HarnessError("the model %r is no longer among the offered ones %r" % (self.content, self.offered))
            return seq[self.offered.index(self.content)]
        return seq[self.index]

    def __getattr__(self, name):  # anything else the module may want from `random`
        import random as _r

        return getattr(_r, name)


class Harness:
    def __init__(self, ps):
        import unified_planning.model.contingent.execution_environment as ee
        from unified_planning.plans import ActionInstance

        self.ee = ee
        self.ps = ps
        self.prob, self.ctx = uc.build_contingent(ps)
        self.ref = RefProblem(ps)
        self.gas = self.ref.ground_actions()
        self.ais = []
        for an, args in self.gas:
            act = self.prob.action(an)
            self.ais.append(ActionInstance(act, tuple(self.ctx.e(("o", a)) for a in args)))
        self.look = self.gas.index(("look", ()))
        self.envs_built = 0

    def new_env(self, index=None, content=None):
        """-> (env, chooser); exceptions propagate"""
        ch = Chooser(index, content)
        saved = self.ee.random
        self.ee.random = ch
        try:
            env = self.ee.SimulatedExecutionEnvironment(self.prob)
        finally:
            self.ee.random = saved
        self.envs_built += 1
        return env, ch

    def observation(self, obs):
        """FNode dict -> {reference key: bool}"""
        out = {}
        for k, v in obs.items():
            out[uc.key_of(to_spec(k))] = bool(v.bool_constant_value())
        return out

    def expected_obs(self, j, post):
        an, args = self.gas[j]
        a = self.ref.actions[an]
        if a.get("observe") is None:
            return {}
        sub = dict(zip([pn for pn, _ in a["params"]], args))
        out = {}
        for f in a["observe"]:
            key = (f[1],) + tuple(sub[x[1]] if x[0] == "p" else x[1] for x in f[2:])
            out[key] = post[key]
        return out


def check_case(cid, depth, acc):
    from unified_planning.exceptions import UPUsageError

    ps = uc.cont_make(dict(cid))
    lab = uc.label(cid)
    if ps is None:
        acc.count("skipped_out_of_scope_combination")
        return
    try:
        h = Harness(ps)
    except Exception as e:
        acc.count("skipped_rejected_at_build")
        acc.outcome("build-rejected:" + type(e).__name__)
        return
    acc.count("problems")
    ref, gas = h.ref, h.gas
    case = {"cid": tj(cid), "depth": depth}

    def viol(sub, what, extra=None):
        acc.violation("%s|%s" % (sub, lab), what, dict(case, **(extra or {})))

    cons = ps["constraints"]
    hidden = [uc.key_of(a) for a in uc.hidden_atoms(cons)]
    declared = uc.cont_declared_initial(ps)
    models = uc.models(cons)
    model_set = {tuple(m[k] for k in hidden) for m in models}

    # ---- how many answers does random.choice have?
    try:
        env, ch = h.new_env(index=0)
    except Exception as e:
        viol("init:raises:" + type(e).__name__, "SimulatedExecutionEnvironment(problem) raised %s: %s" % (type(e).__name__, str(e)[:160]))
        return
    offered = ch.offered
    if offered is None:
        viol("init:no-choice", "random.choice was never called")
        return
    if len(offered) != len(set(offered)):
        viol("init:model-set:duplicates", "the same hidden state is offered twice to random.choice: %s" % (offered,))
    acc.outcome("answers=%d" % len(offered))
    seen_hidden = []
    for content in offered:
        acc.count("answers")
        try:
            env, ch = h.new_env(content=content)
            obs = h.observation(env.apply(h.ais[h.look]))
        except HarnessError:
            raise
        except Exception as e:
            viol("init:look-raises:" + type(e).__name__, "building the environment / applying `look` raised %s: %s" % (type(e).__name__, str(e)[:160]), {"answer": list(content)})
            continue
        if set(obs) != set(uc.GKEYS):
            viol("observation:keys", "`look` returned the keys %s" % (sorted(obs),), {"answer": list(content)})
            continue
        hid = tuple(obs[k] for k in hidden)
        seen_hidden.append(hid)
        bad = False
        for c in cons:
            if not uc.constraint_holds(c, obs):
                viol("init:hidden-violates-constraint:" + c[0], "the chosen hidden state %s violates %s" % (dict(zip(hidden, hid)), c), {"answer": list(content)})
                bad = True
        for gk, v in declared.items():
            if obs[gk] is not v:
                viol(
                    "init:non-hidden-value",
                    "non-hidden fluent %s starts as %s, the problem declares %s" % (gk, obs[gk], v),
                    {"answer": list(content)},
                )
                bad = True
        if bad:
            continue  # the environment is not in a state of the problem: nothing to compare against
        s0 = dict(obs)
        explore(h, content, s0, depth, acc, viol)
    if set(seen_hidden) != model_set and len(seen_hidden) == len(offered):
        viol(
            "init:model-set",
            "hidden states offered to random.choice %s differ from the models of the constraints %s (hidden fluents %s)"
            % (sorted(set(seen_hidden)), sorted(model_set), hidden),
        )
    acc.count("environments_built", h.envs_built)
    acc.sample({"cid": tj(cid), "answers": len(offered), "depth": depth}, limit=4)


def explore(h, content, s0, depth, acc, viol):
    """all action sequences <= depth from the initial state s0 (reference) / a fresh environment."""
    from unified_planning.exceptions import UPUsageError

    ref, gas = h.ref, h.gas

    class Cur:
        env = None
        at = None  # prefix (tuple of ground action indices that were APPLIED) the env stands at

    cur = Cur()

    def env_at(prefix):
        if cur.env is None or cur.at != prefix:
            env, _ch = h.new_env(content=content)
            for j in prefix:
                env.apply(h.ais[j])  # replay of steps that succeeded before: deterministic
            cur.env, cur.at = env, prefix
        return cur.env

    def goal_check(env, st, seq):
        gsub = "step" if seq else "init:goal"
        try:
            g = env.is_goal_reached()
        except Exception as e:
            viol(gsub + ":raises:" + type(e).__name__, "is_goal_reached raised %s: %s" % (type(e).__name__, str(e)[:120]), {"answer": list(content), "sequence": names(seq)})
            return False
        if g != ref.is_goal(st):
            viol(gsub, "is_goal_reached=%s, reference %s after %s" % (g, ref.is_goal(st), names(seq)), {"answer": list(content), "sequence": names(seq), "state": tj(canon(st))})
            return False
        return True

    def names(seq):
        return [[gas[j][0], list(gas[j][1])] for j in seq]

    def rec(applied, seq, st, ok):
        """applied: indices of the steps that succeeded (env replay key); seq: all steps tried"""
        acc.count("states")
        if len(seq) >= depth:
            if ok:
                acc.count("traces")
            return
        for j in range(len(gas)):
            an, args = gas[j]
            exp, why = ref.apply(st, an, args)
            try:
                env = env_at(applied)
            except HarnessError:
                raise
            except Exception as e:
                viol("replay:raises:" + type(e).__name__, "re-creating the environment and replaying %s raised %s" % (names(applied), type(e).__name__), {"answer": list(content)})
                return
            acc.count("transitions")
            extra = {"answer": list(content), "sequence": names(seq + (j,)), "state": tj(canon(st))}
            try:
                obs = env.apply(h.ais[j])
                raised = None
            except UPUsageError as e:
                raised = e
            except Exception as e:
                viol("step:raises:" + type(e).__name__, "apply(%s%s) raised %s: %s" % (an, args, type(e).__name__, str(e)[:120]), extra)
                cur.env = None
                continue
            if raised is None:
                cur.at = applied + (j,)
            if exp is None:
                acc.count("nontrivial")
                acc.outcome("refused")
                if raised is None:
                    viol("step", "apply(%s%s) succeeded, the reference says inapplicable (%s)" % (an, args, why), extra)
                    cur.env = None
                    continue
                # refused on both sides: the state must be unchanged, the same env is kept
                if goal_check(env, st, seq + (j,)):
                    rec(applied, seq + (j,), st, ok)
                continue
            if raised is not None:
                viol("step", "apply(%s%s) raised UPUsageError, the reference says applicable" % (an, args), extra)
                continue
            want = h.expected_obs(j, exp)
            try:
                got = h.observation(obs)
            except Exception as e:
                viol("step:observation-malformed", "observation %r cannot be read: %s" % (obs, e), extra)
                continue
            if exp != st or want:
                acc.count("nontrivial")
            acc.outcome("sensed" if want else ("changed" if exp != st else "unchanged"))
            if got != want:
                viol("step", "apply(%s%s) returned the observation %s, the sensed fluents have the values %s in the new state" % (an, args, got, want), extra)
                continue  # environment and reference disagree from here on: nothing to compare below
            if not goal_check(env, exp, seq + (j,)):
                continue
            rec(applied + (j,), seq + (j,), exp, ok)

    try:
        env = env_at(())
    except HarnessError:
        raise
    except Exception as e:
        viol("init:raises:" + type(e).__name__, "SimulatedExecutionEnvironment(problem) raised %s" % type(e).__name__, {"answer": list(content)})
        return
    if goal_check(env, s0, ()):
        rec((), (), s0, True)
