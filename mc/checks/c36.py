"""C36 - UPState behaves like a finite map under any make_child history (DESIGN 4/C36).

Explicit-state search over branching make_child histories.  A search state is the history
(sequence of update dicts) reaching it; it is materialised by replaying the history on
fresh real objects.  Canonical form = (reference map, chain shape); equal canonical forms
have equal futures because get_value/make_child/condense read nothing else.
Observers (hash / repr / ==) are part of the alphabet because they condense IN PLACE.
"""
from __future__ import annotations

from itertools import combinations, product

import unified_planning as up
from unified_planning.exceptions import UPStateMissingFluentError

from mc.kernel.runner import Acc, HarnessError
from mc.gen.spec import fresh_env

PROPERTY = "C36"
LEVEL = "model_checking"
RULE = (
    "BFS over all make_child histories of depth <= D from 3 root states, updates = all "
    "assignments to <= 2 of the fluents f(default false), g(default 1), h(no default), k(o)(default "
    "false) incl. explicit default-valued updates, optional observer call (hash/repr/==) "
    "after each step; per MAX_ANCESTORS in {1,2,3,20,None}; sibling pairs (two children of one state object, all pairs of small updates) for == ; oracle = dict reference on every "
    "state, pairwise ==/hash over the whole explored forest; non-trivial = history with an update "
    "that overrides an earlier value or writes a default value"
)
ASSUMPTIONS = ["reference: latest update else default else raise (plain dict)"]

LIMITS = [1, 2, 3, 20, None]


def bounds(tier):
    return {"depth": 3 if tier == "quick" else 5, "limits": [str(x) for x in LIMITS]}


# alphabet -----------------------------------------------------------------------------
FLU = ["f", "g", "h", "k"]
VALS = {"f": [True, False], "g": [0, 1], "h": [0, 1], "k": [True, False]}


def updates(full=True):
    ups = [()]
    for fl in FLU:
        for v in VALS[fl]:
            ups.append(((fl, v),))
    if not full:
        return ups + [(("f", False), ("g", 1)), (("g", 0), ("h", 1)), (("f", True), ("k", False))]
    for a, b in combinations(FLU, 2):
        for va, vb in product(VALS[a], VALS[b]):
            ups.append(((a, va), (b, vb)))
    return ups


ROOTS = [(), (("f", True),), (("g", 1), ("h", 0)), (("f", False), ("g", 0), ("k", True))]
OBS = ["none", "hash", "repr", "eq", "phash"]


def shards(tier, seed):
    out = []
    for li, lim in enumerate(LIMITS):
        for ri in range(len(ROOTS)):
            out.append({"level": 0, "limit": li, "root": ri})
    if tier == "thorough":
        out.append({"level": 1, "limit": 3, "root": 0, "chain22": True})
    else:
        out.append({"level": 0, "limit": 3, "root": 0, "chain22": True})
    return out


class World:
    def __init__(self, limit):
        env = fresh_env()
        tm = env.type_manager
        self.em = env.expression_manager
        T = tm.UserType("T")
        self.prob = up.model.Problem("s", env)
        o = up.model.Object("o", T, env)
        self.prob.add_object(o)
        f = up.model.Fluent("f", tm.BoolType(), environment=env)
        g = up.model.Fluent("g", tm.IntType(), environment=env)
        h = up.model.Fluent("h", tm.IntType(), environment=env)
        k = up.model.Fluent("k", tm.BoolType(), [up.model.Parameter("x", T, env)], env)
        self.prob.add_fluent(f, default_initial_value=False)
        self.prob.add_fluent(g, default_initial_value=1)
        self.prob.add_fluent(h)
        self.prob.add_fluent(k, default_initial_value=False)
        self.fe = {"f": f(), "g": g(), "h": h(), "k": k(o)}
        self.defaults = {"f": False, "g": 1, "k": False}

        class S(up.model.UPState):
            MAX_ANCESTORS = limit

        self.S = S
        # children are created as plain UPState by make_child: give them the same limit
        up.model.state.UPState.MAX_ANCESTORS = limit

    def val(self, v):
        if isinstance(v, bool):
            return self.em.TRUE() if v else self.em.FALSE()
        return self.em.Int(v)

    def umap(self, upd):
        return {self.fe[k]: self.val(v) for k, v in upd}

    def root(self, upd):
        return self.S(self.umap(upd), self.prob)

    def read(self, st):
        out = {}
        for name, fe in self.fe.items():
            try:
                out[name] = st.get_value(fe).constant_value()
            except UPStateMissingFluentError:
                out[name] = "undef"
        return out


def ref_of(root, hist):
    d = {"f": False, "g": 1, "k": False}
    for k, v in root:
        d[k] = v
    for upd, _obs in hist:
        for k, v in upd:
            d[k] = v
    return {k: d.get(k, "undef") for k in FLU}


def materialise(w, root, hist):
    """Replay a history on fresh objects; returns the list of all states along it."""
    st = w.root(root)
    chain = [st]
    for upd, obs in hist:
        st = st.make_child(w.umap(upd))
        if obs == "hash":
            hash(st)
        elif obs == "repr":
            repr(st)
        elif obs == "eq":
            st == chain[0]
        elif obs == "phash":
            hash(chain[-1])  # condense the FATHER in place after the child exists
        chain.append(st)
    return chain


def shape(st):
    out = []
    cur = st
    while cur is not None:
        out.append(tuple(sorted(str(k) + "=" + str(v) for k, v in cur._values.items())))
        cur = cur._father
    return tuple(out)


def same(a, b):
    return all((a[k] is b[k]) if isinstance(a[k], bool) or isinstance(b[k], bool) else a[k] == b[k] for k in FLU)


def run_shard(shard, tier, seed):
    acc = Acc()
    limit = LIMITS[shard["limit"]]
    root = ROOTS[shard["root"]]
    w = World(limit)
    if shard.get("chain22"):
        return chain22(w, acc, limit, 23 if tier == "quick" else 45)
    depth = 3 if tier == "quick" else 5
    ups_full, ups_small = updates(True), updates(False)
    seen = {}
    frontier = [()]
    forest = []  # (reference map, real state) of every distinct canonical state
    lvl = 0
    while frontier and lvl <= depth:
        nxt = []
        for hist in frontier:
            chain = materialise(w, root, hist)
            st = chain[-1]
            ref = ref_of(root, hist)
            got = w.read(st)
            acc.count("transitions")
            if not same(got, ref):
                acc.violation(
                    "get_value|limit=%s" % limit,
                    "state reads %s, reference %s" % (got, ref),
                    {"limit": str(limit), "root": root, "hist": hist},
                )
            # earlier states along the path must be unaffected by later children/observers
            for i, s_i in enumerate(chain[:-1]):
                r_i = ref_of(root, hist[:i])
                if not same(w.read(s_i), r_i):
                    acc.violation(
                        "ancestor-mutated|limit=%s" % limit,
                        "ancestor %d reads %s, reference %s" % (i, w.read(s_i), r_i),
                        {"limit": str(limit), "root": root, "hist": hist},
                    )
            key = (tuple(sorted((k, str(v)) for k, v in ref.items())), shape(st))
            if key in seen:
                continue
            seen[key] = hist
            forest.append((ref, st, hist))
            overrides = _overrides(root, hist)
            if overrides:
                acc.count("nontrivial")
            acc.outcome(str(sorted(ref.items())))
            if lvl < depth:
                for u in ups_full if lvl < 2 else ups_small:
                    for ob in OBS if lvl < 2 else ("none", "hash"):
                        nxt.append(hist + ((u, ob),))
        frontier = nxt
        lvl += 1
    acc.count("states", len(seen))
    # equality / hash: every explored state against one representative of every distinct
    # reference map, plus all pairs among the first 300 states
    reps = {}
    for ra, sa, ha in forest:
        reps.setdefault(tuple(sorted((k, str(v)) for k, v in ra.items())), (ra, sa, ha))
    pairs = [(x, y) for x in forest for y in reps.values()]
    head = forest[:300]
    pairs += [(head[i], head[j]) for i in range(len(head)) for j in range(i, len(head))]
    for (ra, sa, ha), (rb, sb, hb) in pairs:
        acc.count("pairs")
        eq = sa == sb
        want = same(ra, rb)
        if eq != want:
            acc.violation(
                "eq|limit=%s" % limit,
                "== is %s but maps are %s vs %s" % (eq, ra, rb),
                {"limit": str(limit), "root": root, "hist": ha, "hist2": hb},
            )
        elif want and hash(sa) != hash(sb):
            acc.violation(
                "hash|limit=%s" % limit,
                "equal states, different hashes",
                {"limit": str(limit), "root": root, "hist": ha, "hist2": hb},
            )
    # siblings: two children of the SAME parent object, compared before anything hashed them (their
    # own update dictionaries differ although the maps they denote may be equal)
    for ra, _sa, ha in forest[:120]:
        for u1 in ups_small:
            for u2 in ups_small:
                parent = materialise(w, root, ha)[-1]
                c1, c2 = parent.make_child(w.umap(u1)), parent.make_child(w.umap(u2))
                r1, r2 = dict(ra), dict(ra)
                r1.update(dict(u1))
                r2.update(dict(u2))
                acc.count("pairs")
                eq = c1 == c2
                want = same(r1, r2)
                if eq != want:
                    acc.violation(
                        "eq-siblings|limit=%s" % limit,
                        "two children of one state (updates %s and %s): == is %s but their maps are %s vs %s" % (u1, u2, eq, r1, r2),
                        {"limit": str(limit), "root": root, "hist": ha, "siblings": [list(map(list, u1)), list(map(list, u2))]},
                    )
    acc.count("traces", len(seen))
    acc.sample({"limit": str(limit), "root": root, "history": seen[next(reversed(seen))] if seen else None})
    return acc


def _overrides(root, hist):
    d = dict(root)
    for upd, _ in hist:
        for k, v in upd:
            if k in d or (k in ("f", "g", "k") and v == {"f": False, "g": 1, "k": False}[k]):
                return True
            d[k] = v
    return False


def chain22(w, acc, limit, length):
    """single-chain family long enough to cross MAX_ANCESTORS=20: every position of one
    overriding update and one default-valued update along a chain of `length` children."""
    root = ()
    base = [((("g", 0),), "none")] + [((), "none")] * (length - 1)
    for i in range(length):
        for u in ((("g", 1),), (("f", True),), (("h", 1),), (("g", 0), ("f", False))):
            for j in (i, length - 1):
                hist = list(base)
                hist[i] = (u, "none")
                hist[j] = (hist[j][0], "hash") if j != i else (u, "hash")
                hist = tuple(hist)
                chain = materialise(w, root, hist)
                acc.count("transitions", len(hist))
                acc.count("states")
                acc.count("nontrivial")
                for t in (len(chain) - 1, 21 if len(chain) > 21 else len(chain) - 1, i + 1):
                    ref = ref_of(root, hist[:t])
                    got = w.read(chain[t])
                    acc.outcome(str(sorted(ref.items())))
                    if not same(got, ref):
                        acc.violation(
                            "get_value-long|limit=%s" % limit,
                            "state %d reads %s, reference %s" % (t, got, ref),
                            {"limit": str(limit), "root": root, "hist": hist},
                        )
                acc.count("traces")
    acc.sample({"limit": str(limit), "chain_length": length})
    return acc


def replay(case):
    lim = case["limit"]
    limit = None if lim == "None" else int(lim)
    w = World(limit)
    root = tuple(tuple(x) for x in case["root"])
    hist = tuple((tuple(tuple(y) for y in u), ob) for u, ob in case["hist"])
    out = []
    chain = materialise(w, root, hist)
    for i, s_i in enumerate(chain):
        r_i = ref_of(root, hist[:i])
        if not same(w.read(s_i), r_i):
            out.append(("get_value|limit=%s" % limit, "state %d reads %s, reference %s" % (i, w.read(s_i), r_i)))
    if "siblings" in case:
        u1, u2 = (tuple(tuple(y) for y in u) for u in case["siblings"])
        parent = materialise(w, root, hist)[-1]
        c1, c2 = parent.make_child(w.umap(u1)), parent.make_child(w.umap(u2))
        r1, r2 = dict(ref_of(root, hist)), dict(ref_of(root, hist))
        r1.update(dict(u1))
        r2.update(dict(u2))
        if (c1 == c2) != same(r1, r2):
            out.append(("eq-siblings|limit=%s" % limit, "== of two children of one state disagrees with their maps"))
    if "hist2" in case:
        hist2 = tuple((tuple(tuple(y) for y in u), ob) for u, ob in case["hist2"])
        sb = materialise(w, root, hist2)[-1]
        sa = chain[-1]
        want = same(ref_of(root, hist), ref_of(root, hist2))
        if (sa == sb) != want:
            out.append(("eq|limit=%s" % limit, "== disagrees with maps"))
        elif want and hash(sa) != hash(sb):
            out.append(("hash|limit=%s" % limit, "equal states, different hashes"))
    return out
