"""C37 - multi-agent conditional-effects / disjunctive-conditions removers preserve every agent's
action semantics and the goals (DESIGN 4/C37).

Per (compiler in {ma_cerm, ma_dcrm}, U-MA instance): compile with the real compiler, extract
the compiled MultiAgentProblem as a spec, resolve agent-local / public / Dot fluents
(mc/ref/ma.py) and compare, in ALL 2^7 Boolean states over the original ground fluents and for
every agent's every ground action:
  * the original action is applicable iff some compiled variant mapping back to it is
    (an applicable original action none of whose effects fires may have no variant: variants
    without effects are discarded, documented in the removers);
  * every applicable variant yields the original successor;
  * ma_cerm: at most one variant is applicable;
  * goals: without auxiliary actions the compiled goals hold in exactly the states where the
    original goals hold; with ma_dcrm's fake-goal actions (mapped back to None): the original
    goals hold in s iff the compiled goals are reachable from s by auxiliary steps only (which
    must not touch the original fluents), and in every compiled state reachable from the
    original states (auxiliary fluents false) by any compiled actions the compiled goals imply
    the original goals.
"""
from __future__ import annotations

from mc.kernel.runner import Acc
from mc.gen import uma
from mc.gen.spec import tj
from mc.ref.ma import MARef, AmbiguousFluent, SEP
from mc.ref.seqsem import canon
from mc.checks import simutil as su

PROPERTY = "C37"
LEVEL = "model_checking"
RULE = (
    "compilers {ma_cerm, ma_dcrm} x U-MA slot grammar (2 agents, agent-local fluents incl. one name "
    "shared by both agents, public environment fluent e(T), Dot in conditions and goals, "
    "conditional effects and disjunctive conditions; instances where two effects of one action can "
    "write one ground fluent are dropped) with <= d deviating slots; ALL 128 Boolean states x all 6 "
    "original ground actions and their compiled variants; states = (problem, state) pairs, "
    "transitions = reference applications of original and compiled ground actions, traces = "
    "(state, original ground action) pairs on which all variants agreed; non-trivial = pair whose "
    "original action has >= 2 variants or a variant with changed preconditions"
)
ASSUMPTIONS = [
    "MA reference: mc/ref/ma.py resolution of agent-local/public/Dot fluents + mc/ref/seqsem.py",
    "an undotted fluent that neither the acting agent nor the environment declares is the fluent of "
    "the only agent declaring it (needed for ma_dcrm's fake-goal fluents); ambiguous references are "
    "skipped and counted",
    "an applicable original action none of whose effects fires needs no compiled counterpart",
]

KEYS = ["ma_cerm", "ma_dcrm"]


def compilers():
    from unified_planning.engines import CompilationKind as CK
    from unified_planning.engines.compilers.ma_conditional_effects_remover import MAConditionalEffectsRemover
    from unified_planning.engines.compilers.ma_disjunctive_conditions_remover import MADisjunctiveConditionsRemover

    return {
        "ma_cerm": (MAConditionalEffectsRemover, CK.CONDITIONAL_EFFECTS_REMOVING),
        "ma_dcrm": (MADisjunctiveConditionsRemover, CK.DISJUNCTIVE_CONDITIONS_REMOVING),
    }


def bounds(tier):
    return {
        "deviation_plan": uma.plan(tier),
        "compilers": KEYS,
        "ground_fluents": 7,
        "states_per_problem": 128,
        "pool_sizes": {s: len(pl) for s, pl in uma.POOLS.items()},
    }


def shards(tier, seed):
    out = []
    ids = uma.case_ids(tier)
    per = {0: 1, 1: 16, 2: 96} if tier == "quick" else {0: 1, 1: 16, 2: 400}
    for key in KEYS:
        for sh in su.chunk_cases(ids, seed, per_level_chunks=per):
            sh["compiler"] = key
            out.append(sh)
    out.sort(key=lambda s: s["level"])
    return out


def run_shard(shard, tier, seed):
    acc = Acc()
    for cid in shard["cids"]:
        check_case(shard["compiler"], tuple(tuple(x) for x in cid), acc)
    return acc


def replay(case):
    acc = Acc()
    check_case(case["compiler"], tuple(tuple(x) for x in case["cid"]), acc)
    return [(fp, e["cases"][0]["what"]) for fp, e in acc.viol.items()]


finalize = su.prune_supersets


# --------------------------------------------------------------------------------------
def check_case(key, cid, acc):
    from unified_planning.plans import ActionInstance
    import unified_planning.environment as upe

    ms = uma.make(dict(cid))
    lab = uma.label(cid)
    if uma.same_target_twice(ms):
        acc.count("skipped_two_effects_on_one_ground_fluent")
        return
    Cls, ck = compilers()[key]
    try:
        prob, ctx = uma.build_ma(ms)
    except Exception as e:
        acc.count("skipped_rejected_at_build")
        acc.outcome("build-rejected:" + type(e).__name__)
        return
    if not Cls.supports(prob.kind):
        acc.count("skipped_unsupported_kind")
        return
    case = {"compiler": key, "cid": tj(cid)}

    def viol(sub, what, extra=None):
        acc.violation("%s:%s|%s" % (sub, key, lab), what, dict(case, **(extra or {})))

    upe.GLOBAL_ENVIRONMENT = prob.environment
    try:
        res = Cls().compile(prob, ck)
    except Exception as e:
        viol("compile-raises:" + type(e).__name__, "compile raised %s: %s" % (type(e).__name__, str(e)[:160]))
        return
    cprob = res.problem
    cms = uma.ma_to_spec(cprob)
    if "unsupported" in cms:
        acc.count("skipped_compiled_unsupported_by_reference")
        return
    oref = MARef(ms)
    try:
        cref = MARef(cms)
    except AmbiguousFluent as e:
        acc.count("skipped_ambiguous_fluent_reference")
        acc.outcome("ambiguous:" + str(e)[:50])
        return
    acc.count("problems")
    ogas = oref.ground_actions()
    cgas = cref.ground_actions()
    ofl = list(oref.ground_fluents)
    missing = [k for k in ofl if k not in set(cref.ground_fluents)]
    if missing:
        viol("fluent-missing", "compiled problem lacks the ground fluents %s" % (missing,))
        return
    extra = [k for k in cref.ground_fluents if k not in set(ofl)]
    # ---- map-back table
    em = cprob.environment.expression_manager
    mb = []
    for an, args in cgas:
        agn, acn = MARef.split(an)
        agent = cprob.agent(agn)
        act = agent.action(acn)
        params = tuple(em.ObjectExp(cprob.object(a)) for a in args)
        try:
            o = res.map_back_action_instance(ActionInstance(act, params, agent))
        except Exception as e:
            viol("map-back-raises:" + type(e).__name__, "map_back_action_instance(%s%s) raised %s: %s" % (an, args, type(e).__name__, str(e)[:120]))
            return
        if o is None:
            mb.append(None)
            continue
        oag = o.agent.name if o.agent is not None else None
        tgt = ((oag or "?") + SEP + o.action.name, tuple(p.object().name for p in o.actual_parameters))
        if tgt not in ogas:
            viol("map-back:foreign-action", "%s%s maps back to %s, which is not a ground action of the original problem" % (an, args, tgt))
            return
        oact = prob.agent(oag).action(o.action.name)
        if oact != o.action:
            viol("map-back:wrong-action", "%s%s maps back to an action named %s that differs from agent %s's action of that name" % (an, args, o.action.name, oag))
            return
        mb.append(tgt)
    by_orig = {}
    aux = []
    for j, m in enumerate(mb):
        if m is None:
            aux.append(j)
        else:
            by_orig.setdefault(m, []).append(j)
    changed = {}
    for g in ogas:
        vs = by_orig.get(g, [])
        oa = oref.actions[g[0]]
        changed[g] = len(vs) != 1 or any(cref.actions[cgas[j][0]]["pre"] != oa["pre"] for j in vs)
    acc.outcome("%s variants=%s aux=%d" % (key, sorted({len(by_orig.get(g, [])) for g in ogas}), len(aux)))

    # ---- every state x every original ground action
    ext_false = {k: False for k in extra}
    states = list(oref.all_boolean_states())
    for s in states:
        acc.count("states")
        cs = dict(s)
        cs.update(ext_false)
        for g in ogas:
            oexp, why = oref.apply(s, g[0], g[1])
            acc.count("transitions")
            vs = by_orig.get(g, [])
            if changed[g]:
                acc.count("nontrivial")
            applicable = []
            ok = True
            for j in vs:
                cexp, _ = cref.apply(cs, cgas[j][0], cgas[j][1])
                acc.count("transitions")
                if cexp is None:
                    continue
                applicable.append(j)
                if oexp is None:
                    viol(
                        "variant-applicable-original-not",
                        "variant %s%s is applicable but the original %s%s is not (%s)" % (cgas[j][0], cgas[j][1], g[0], g[1], why),
                        {"state": tj(canon(s)), "action": [g[0], list(g[1])]},
                    )
                    ok = False
                    break
                diff = [(k, cexp[k], oexp[k]) for k in ofl if cexp[k] is not oexp[k]]
                if diff:
                    viol(
                        "successor",
                        "variant %s%s yields a different successor than the original %s%s: %s (fluent, compiled, original)" % (cgas[j][0], cgas[j][1], g[0], g[1], diff[:3]),
                        {"state": tj(canon(s)), "action": [g[0], list(g[1])]},
                    )
                    ok = False
                    break
            if not ok:
                continue
            if oexp is not None and not applicable:
                a = oref.actions[g[0]]
                params = dict(zip([pn for pn, _ in a["params"]], g[1]))
                fired = oref.fired_effects(s, a["eff"], params)
                if fired:
                    viol(
                        "no-variant-applicable",
                        "the original %s%s is applicable (effects fire) but none of its %d variants is" % (g[0], g[1], len(vs)),
                        {"state": tj(canon(s)), "action": [g[0], list(g[1])]},
                    )
                    continue
                acc.count("effectless_original_without_variant")
            if key == "ma_cerm" and len(applicable) > 1:
                viol(
                    "several-variants-applicable",
                    "%d variants of %s%s are applicable in one state: %s" % (len(applicable), g[0], g[1], [cgas[j][0] for j in applicable]),
                    {"state": tj(canon(s)), "action": [g[0], list(g[1])]},
                )
                continue
            acc.count("traces")

    # ---- goals
    acc.count("evaluations")
    if not aux and not extra:
        for s in states:
            if cref.is_goal(s) != oref.is_goal(s):
                viol("goal", "compiled goals %s, original goals %s" % (cref.is_goal(s), oref.is_goal(s)), {"state": tj(canon(s))})
                break
        return
    # auxiliary (fake-goal) actions: G1 aux-only closure, G2 reachable closure
    succ_cache = {}

    def step(cst, ck, j):
        kk = (ck, j)
        if kk not in succ_cache:
            nxt, _ = cref.apply(cst, cgas[j][0], cgas[j][1])
            acc.count("transitions")
            succ_cache[kk] = (None, None) if nxt is None else (nxt, canon(nxt))
        return succ_cache[kk]

    reach = {}
    for s in states:
        cs = dict(s)
        cs.update(ext_false)
        ck = canon(cs)
        reach[ck] = cs
        # G1
        seen = {ck}
        frontier = [(cs, ck)]
        found = cref.is_goal(cs)
        bad = None
        while frontier and not found and bad is None:
            nf = []
            for cst, k0 in frontier:
                for j in aux:
                    nxt, nk = step(cst, k0, j)
                    if nxt is None or nk in seen:
                        continue
                    if any(nxt[k] is not s[k] for k in ofl):
                        bad = cgas[j]
                        break
                    seen.add(nk)
                    if cref.is_goal(nxt):
                        found = True
                        break
                    nf.append((nxt, nk))
                if found or bad is not None:
                    break
            frontier = nf
        if bad is not None:
            viol("goal:auxiliary-action-changes-state", "auxiliary action %s%s changes original fluents" % bad, {"state": tj(canon(s))})
            return
        if found != oref.is_goal(s):
            viol(
                "goal:auxiliary-closure",
                "original goals %s in the state, compiled goals %s by auxiliary steps only" % (oref.is_goal(s), "reachable" if found else "not reachable"),
                {"state": tj(canon(s))},
            )
            return
    # G2
    frontier = list(reach.items())
    while frontier:
        nf = []
        for ck, cst in frontier:
            if cref.is_goal(cst) and not oref.is_goal({k: cst[k] for k in ofl}):
                viol(
                    "goal:compiled-goal-in-non-goal-state",
                    "a compiled state reachable from the original states satisfies the compiled goals but not the original ones (auxiliary fluents %s)" % ({k: cst[k] for k in extra},),
                    {"state": tj(canon(cst))},
                )
                return
            for j in range(len(cgas)):
                nxt, nk = step(cst, ck, j)
                if nxt is None or nk in reach:
                    continue
                reach[nk] = nxt
                nf.append((nk, nxt))
        frontier = nf
    acc.count("compiled_states_goal_closure", len(reach))
    acc.sample({"compiler": key, "cid": tj(cid), "compiled_ground_actions": len(cgas), "auxiliary_actions": len(aux)}, limit=4)
