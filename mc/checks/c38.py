"""C38 - writer renamings are valid, injective and invertible (DESIGN 4/C38).

Base problem = PDDL projection of the U-PROB base + durative actions d1(x), d2 + an
existential precondition (so that a quantifier variable is written), renamed by EVERY U-NAME
assignment with <= L adversarial names over 15 renameable items (types, objects, fluents,
actions, action parameters, a fluent parameter, the variable).  Per assignment the problem is
written with PDDLWriter (domain + problem) and ANMLWriter and the renaming tables are judged:

PDDL  (public lookups get_pddl_name / get_item_named)
  valid      name matches [a-zA-Z][a-zA-Z0-9_-]* ('?' + that for parameters and variables)
  keyword    name (case-insensitively) is not a PDDL keyword of the requirement sets this problem
             needs: general + temporal (it has durative actions) [+ PDDL3 with constraints]
  injective  distinct items of one namespace get names that differ case-insensitively
             (namespaces: types, objects, fluents, actions, parameters+variables of one action,
             parameters of one fluent)
  inverse    get_item_named(get_pddl_name(x)) == x  and  get_pddl_name(get_item_named(n)) == n
  total      every item that occurs in the written text has a name (get_pddl_name does not raise)
ANML  (hook H1: writer._verif_names_mapping)
  valid      name fully matches [a-zA-Z][a-zA-Z0-9_]*
  keyword    name is not an ANML keyword
  injective  distinct items get different names (ANML identifiers are case-sensitive)
History: the renaming table of P2 built after P1 was written in the same process equals the
table of P2 built alone (ordered pairs of 6 representative problems).
"""
from __future__ import annotations

import re
from itertools import product

from mc.kernel.runner import Acc
from mc.gen import pddlfrag as pf
from mc.gen import naming
from mc.gen.spec import tj
from mc.checks import simutil as su
from mc.checks import ioutil as io

PROPERTY = "C38"
LEVEL = "exploration"
RULE = (
    "one base problem (classical+numeric+durative, quantifier variable) x all assignments of "
    "<= L names from U-NAME (17 adversarial identifiers) to 15 renameable items; level 3 uses the 9 "
    "collision-relevant names; every assignment UP itself accepts is written with both writers; a keyword sweep (every keyword of "
    "both languages in four spellings as the name of one type / object / fluent / action / parameter); a second PDDL+ "
    "base (2 fluents, action, process, event) x all assignments of <= 2 of 11 names, PDDL writer; "
    "non-trivial = at least one item had to be renamed by a writer"
)
ASSUMPTIONS = [
    "PDDL identifier grammar: letter followed by letters, digits, '-' or '_'; PDDL is case-insensitive",
    "keyword sets: the writer modules' own (pristine) GENERAL/TEMPORAL/PDDL3 and ANML_KEYWORDS tables",
    "ANML names are observed through hook H1 (UP_VERIF=1): ANMLWriter._verif_names_mapping",
]

ITEMS = [
    ("type", "T"), ("type", "S"),
    ("object", "o1"), ("object", "o2"), ("object", "s1"),
    ("fluent", "b"), ("fluent", "p"), ("fluent", "n"),
    ("action", "a1"), ("action", "a2"), ("action", "d1"),
    ("param", ("a3", "x")), ("param", ("a3", "y")),
    ("fparam", ("p", "o")),
    ("var", "v"),
]
NAMES3 = ["a", "A", "a_0", "a_b", "a-b", "1a", "at", "and", "object"]
BASE_CHOICES = {"a2.pre1": 8}  # exists v:T. p(v)

PDDL_NAME = re.compile(r"[a-zA-Z][a-zA-Z0-9_-]*\Z")
PDDL_VAR = re.compile(r"\?[a-zA-Z][a-zA-Z0-9_-]*\Z")
ANML_NAME = re.compile(r"[a-zA-Z][a-zA-Z0-9_]*\Z")


def _levels(tier):
    return [0, 1, 2] if tier == "quick" else [0, 1, 2, 3]


def bounds(tier):
    return {"levels": _levels(tier), "items": ["%s:%s" % (i[0], i[1]) for i in ITEMS],
            "names": naming.U_NAME, "names_level3": NAMES3}


def _assignments(level):
    names = naming.U_NAME if level < 3 else NAMES3
    return naming.assignments(ITEMS, names, level)


def shards(tier, seed):
    out = [{"level": 0, "hist": True}]
    out += [{"level": 1, "pp": j, "of": 8} for j in range(8)]
    out += [{"level": 1, "kw": j, "of": 12} for j in range(12)]
    for level in _levels(tier):
        n = sum(1 for _ in _assignments(level))
        k = {0: 1, 1: 4, 2: 64, 3: 320}[level]
        for j in range(min(k, n)):
            out.append({"level": level, "part": (j + seed) % min(k, n), "of": min(k, n)})
    return out


def run_shard(shard, tier, seed):
    acc = Acc()
    if shard.get("hist"):
        run_histories(acc)
        return acc
    if "kw" in shard:
        for i, assign in enumerate(keyword_assignments()):
            if i % shard["of"] == shard["kw"]:
                check_case(assign, acc)
        return acc
    if "pp" in shard:
        for i, assign in enumerate(pp_assignments()):
            if i % shard["of"] == shard["pp"]:
                check_pp(assign, acc)
        return acc
    for i, assign in enumerate(_assignments(shard["level"])):
        if i % shard["of"] == shard["part"]:
            check_case(assign, acc)
    return acc


def replay(case):
    acc = Acc()
    if case.get("kind") == "pp":
        check_pp(tuple(tuple(a) for a in case["assign"]), acc)
    elif case.get("kind") == "hist":
        run_histories(acc, only=(case["first"], case["second"]))
    else:
        assign = tuple(((ns, tuple(it) if isinstance(it, list) else it), nm) for (ns, it), nm in case["assign"])
        check_case(assign, acc)
    return [(fp, e["cases"][0]["what"]) for fp, e in acc.viol.items()]


finalize = su.prune_supersets


def base_spec():
    return pf.t_make(dict(BASE_CHOICES))


# ------------------------------------------------------------------------------ one case
def _namespaces(prob):
    """[(namespace label, [items])] of everything the writers name."""
    import unified_planning as up

    fve = prob.environment.free_vars_extractor
    out = [
        ("types", list(prob.user_types)),
        ("objects", list(prob.all_objects)),
        ("fluents", list(prob.fluents)),
        ("actions", list(prob.actions)),
    ]
    for f in prob.fluents:
        out.append(("params of fluent " + f.name, list(f.signature)))
    for a in prob.actions:
        items = list(a.parameters)
        exprs = []
        if isinstance(a, up.model.InstantaneousAction):
            exprs = list(a.preconditions)
            effs = a.effects
        else:
            exprs = [c for cl in a.conditions.values() for c in cl]
            effs = [e for el in a.effects.values() for e in el]
        for e in effs:
            items.extend(e.forall)
            exprs.extend([e.condition, e.value])
        seen = set()
        stack = list(exprs)
        while stack:
            x = stack.pop()
            if x in seen:
                continue
            seen.add(x)
            if x.is_exists() or x.is_forall():
                for v in x.variables():
                    if v not in items:
                        items.append(v)
            stack.extend(x.args)
        out.append(("parameters/variables of action " + a.name, items))
    return out


def judge_pddl(w, spaces, kws, viol):
    """valid / keyword / injective / inverse / total on the PDDL writer's public lookups -> number of
    items the writer renamed"""
    import unified_planning as up
    from unified_planning.exceptions import UPException

    mangled_p = 0
    for label, items in spaces:
        names = {}
        for x in items:
            try:
                n = w.get_pddl_name(x)
            except UPException as e:
                viol("pddl:total", "%s %r has no PDDL name after writing (%s)" % (label, _nm(x), e), x)
                continue
            is_var = isinstance(x, (up.model.Parameter, up.model.Variable))
            if n.lstrip("?") != _nm(x).lower():
                mangled_p += 1
            if not (PDDL_VAR if is_var else PDDL_NAME).match(n):
                viol("pddl:valid", "%s %r is written as %r, not a PDDL identifier" % (label, _nm(x), n), x)
            if not is_var and n.lower() in kws:
                viol("pddl:keyword", "%s %r is written as the keyword %r" % (label, _nm(x), n), x)
            k = n.lower()
            if k in names and names[k] != x:
                viol("pddl:injective", "%s: %r and %r are both written %r/%r" % (label, _nm(names[k]), _nm(x), w.get_pddl_name(names[k]), n), names[k], x)
            names[k] = x
            try:
                back = w.get_item_named(n)
                if not (back == x):
                    viol("pddl:inverse", "get_item_named(get_pddl_name(%r)=%r) returns %r" % (_nm(x), n, _nm(back)), x, back)
                elif w.get_pddl_name(back) != n:
                    viol("pddl:inverse", "get_pddl_name(get_item_named(%r)) = %r" % (n, w.get_pddl_name(back)), x)
            except UPException as e:
                viol("pddl:inverse", "get_item_named(%r) raises %s" % (n, e), x)

    return mangled_p


def check_case(assign, acc):
    import unified_planning as up
    from unified_planning.exceptions import UPException
    from unified_planning.io import ANMLWriter, PDDLWriter
    import unified_planning.io.anml_writer as aw
    import unified_planning.io.pddl_writer as pw

    io.reset_writer_state()
    ps = naming.rename_spec(base_spec(), assign) if assign else base_spec()
    lab = _label(assign)
    case = {"assign": tj(assign)}
    try:
        b = io.build(ps, acc)
    except Exception as e:
        acc.count("skipped_up_rejects_model")
        acc.outcome("build-rejected:" + io.exc_name(e))
        return
    if b is None:
        return
    prob, _ctx = b
    acc.count("evaluations")
    spaces = _namespaces(prob)

    def viol(sub, what, *items):
        # root-cause label: only the adversarial names carried by the items involved
        names = {_nm(x) for x in items}
        inv = tuple(e for e in assign if e[1] in names) if items else assign
        acc.violation("%s|%s" % (sub, _label(inv)), what, case)

    # ---------------- PDDL
    mangled_p = mangled_a = 0
    try:
        w = PDDLWriter(prob)
        text = w.get_domain() + w.get_problem()
    except Exception as e:
        if io.is_documented_writer_rejection(e):
            acc.outcome("pddl-writer-rejects:" + io.exc_name(e))
            w = None
        else:
            viol("pddl:write:raises:" + io.exc_name(e), "PDDLWriter raised %s: %s" % (io.exc_name(e), e))
            w = None
    if w is not None:
        kws = set(io.pristine("GENERAL_PDDL_KEYWORDS")) | set(io.pristine("TEMPORAL_PDDL_KEYWORDS"))
        if prob.trajectory_constraints:
            kws |= set(io.pristine("PDDL3_KEYWORDS"))
        mangled_p = judge_pddl(w, spaces, kws, viol)
    # ---------------- ANML
    try:
        a = ANMLWriter(prob)
        a.get_problem()
        mapping = getattr(a, "_verif_names_mapping", None)
    except Exception as e:
        viol("anml:write:raises:" + io.exc_name(e), "ANMLWriter raised %s: %s" % (io.exc_name(e), e))
        mapping = None
        a = None
    if a is not None and mapping is None:
        raise su_harness("hook H1 missing: UP_VERIF=1 not set or ANMLWriter not hooked")
    if mapping is not None:
        seen = {}
        for label, items in spaces:
            for x in items:
                if x not in mapping:
                    viol("anml:total", "%s %r has no ANML name after writing" % (label, _nm(x)), x)
                    continue
                n = mapping[x]
                if n != _nm(x):
                    mangled_a += 1
                if not ANML_NAME.match(n):
                    viol("anml:valid", "%s %r is written as %r, not an ANML identifier" % (label, _nm(x), n), x)
                if n in aw.ANML_KEYWORDS:
                    viol("anml:keyword", "%s %r is written as the keyword %r" % (label, _nm(x), n), x)
                if n in seen and not (seen[n] == x):
                    viol("anml:injective", "%r and %r are both written %r" % (_nm(seen[n]), _nm(x), n), seen[n], x)
                seen[n] = x
    if mangled_p or mangled_a:
        acc.count("nontrivial")
    acc.outcome("pddl-mangled=%d anml-mangled=%d" % (mangled_p, mangled_a))
    if len(assign) <= 1:
        acc.sample({"assign": lab})


# ------------------------------------------------------------------------------ keyword sweep
KW_ITEMS = [("type", "T"), ("object", "o1"), ("fluent", "b"), ("action", "a1"), ("param", ("a3", "x"))]


def keyword_assignments():
    """every keyword of either target language (the writer modules' own tables), in its own spelling and
    in lower / upper / capitalised form, as the name of one item of each kind"""
    import unified_planning.io.anml_writer as aw

    kws = set(aw.ANML_KEYWORDS)
    for t in ("GENERAL_PDDL_KEYWORDS", "TEMPORAL_PDDL_KEYWORDS", "PDDL3_KEYWORDS", "PDDL_PLUS_KEYWORDS", "CONTINGENT_PDDL_KEYWORDS"):
        kws |= set(io.pristine(t))
    out = []
    for kw in sorted(kws):
        for name in sorted({kw, kw.lower(), kw.upper(), kw.capitalize()}):
            for it in KW_ITEMS:
                out.append(((it, name),))
    return out


# ------------------------------------------------------------------------------ PDDL+ family
# processes and events are written into the domain like actions: a second base problem built with
# the model API (fluents f:bool, x:real; action act; process pr; event ev), every assignment of
# <= 2 names of PP_NAMES to its five items
PP_ITEMS = ["f", "x", "act", "pr", "ev"]
PP_NAMES = ["heat", "Heat", "HEAT", "heat_0", "a-b", "a_b", "at", "and", "increase", "process", "event"]


def pp_assignments():
    out = [()]
    for i, it in enumerate(PP_ITEMS):
        for n in PP_NAMES:
            out.append(((it, n),))
    for i, a in enumerate(PP_ITEMS):
        for b in PP_ITEMS[i + 1:]:
            for na in PP_NAMES:
                for nb in PP_NAMES:
                    if na != nb:
                        out.append(((a, na), (b, nb)))
    return out


def pp_build(assign):
    import unified_planning as up
    from unified_planning.model.natural_transition import Process, Event
    from mc.gen.spec import fresh_env

    env = fresh_env()
    tm, em = env.type_manager, env.expression_manager
    nm = {k: k for k in PP_ITEMS}
    nm.update(dict(assign))
    f = up.model.Fluent(nm["f"], tm.BoolType(), environment=env)
    x = up.model.Fluent(nm["x"], tm.RealType(), environment=env)
    prob = up.model.Problem("pp", env)
    prob.add_fluent(f, default_initial_value=False)
    prob.add_fluent(x, default_initial_value=0)
    act = up.model.InstantaneousAction(nm["act"], _env=env)
    act.add_effect(f, True)
    pr = Process(nm["pr"], _env=env)
    pr.add_precondition(em.FluentExp(f))
    pr.add_increase_continuous_effect(x, 1)
    ev = Event(nm["ev"], _env=env)
    ev.add_precondition(em.GE(em.FluentExp(x), 5))
    ev.add_effect(f, False)
    prob.add_action(act)
    prob.add_process(pr)
    prob.add_event(ev)
    prob.add_goal(em.GE(em.FluentExp(x), 5))
    return prob


def check_pp(assign, acc):
    from unified_planning.io import PDDLWriter

    io.reset_writer_state()
    case = {"kind": "pp", "assign": [list(a) for a in assign]}
    lab = ",".join(sorted("pp:%s=%r" % (("fluent" if it in ("f", "x") else {"act": "action", "pr": "process", "ev": "event"}[it]), n) for it, n in assign)) or "pp:base"
    try:
        prob = pp_build(assign)
    except Exception as e:
        acc.count("skipped_up_rejects_model")
        acc.outcome("build-rejected:" + io.exc_name(e))
        return
    acc.count("evaluations")

    def viol(sub, what, *items):
        acc.violation("%s|%s" % (sub, lab), what, case)

    try:
        w = PDDLWriter(prob)
        w.get_domain()
        w.get_problem()
    except Exception as e:
        if io.is_documented_writer_rejection(e):
            acc.outcome("pddl-writer-rejects:" + io.exc_name(e))
            return
        viol("pddl:write:raises:" + io.exc_name(e), "PDDLWriter raised %s: %s" % (io.exc_name(e), e))
        return
    # no durative action: the temporal keywords are free; processes / events add the PDDL+ ones
    kws = set(io.pristine("GENERAL_PDDL_KEYWORDS")) | set(io.pristine("PDDL_PLUS_KEYWORDS"))
    # PDDL has one name table per domain: the writer's lookups are global, so all items are judged
    # as one namespace for the inverse clause; injectivity is demanded among fluents and among the
    # action-like items (actions, processes, events)
    spaces = [("fluents", list(prob.fluents)), ("actions/processes/events", list(prob.actions) + list(prob.processes) + list(prob.events))]
    if judge_pddl(w, spaces, kws, viol):
        acc.count("nontrivial")
    acc.outcome("pp-written")


def _label(assign):
    """root-cause label: namespace kinds and adversarial names (which item of the namespace got
    the name does not matter)"""
    return ",".join(sorted({"%s=%r" % (ns, nm) for (ns, _it), nm in assign})) or "base"


def su_harness(msg):
    from mc.kernel.runner import HarnessError

    return HarnessError(msg)


def _nm(x):
    return getattr(x, "name", str(x))


# ------------------------------------------------------------------------------ histories
def _table(ps):
    from unified_planning.io import PDDLWriter

    prob, _c = io.build(ps, Acc())
    w = PDDLWriter(prob)
    w.get_domain()
    w.get_problem()
    out = {}
    for label, items in _namespaces(prob):
        for x in items:
            out[(label, _nm(x))] = w.get_pddl_name(x)
    return out


def run_histories(acc, only=None):
    from mc.checks import c18

    specs = c18._hist_specs()
    alone = {}
    for name, ps in specs:
        io.reset_writer_state()
        try:
            alone[name] = _table(ps)
        except Exception as e:
            acc.violation("pddl:write:raises:%s|hist:%s" % (io.exc_name(e), name), "writing %r raised %s: %s" % (name, io.exc_name(e), e),
                          {"kind": "hist", "first": name, "second": name})
    for (n1, p1), (n2, p2) in product(specs, specs):
        if only and (n1, n2) != tuple(only):
            continue
        if n1 not in alone or n2 not in alone:
            continue
        io.reset_writer_state()
        try:
            _table(p1)
            t2 = _table(p2)
        except Exception as e:
            acc.violation("pddl:history:raises:%s|%s" % (io.exc_name(e), n2), "writing %r after %r raised %s: %s" % (n2, n1, io.exc_name(e), e),
                          {"kind": "hist", "first": n1, "second": n2})
            continue
        acc.count("evaluations")
        if t2 != alone[n2]:
            acc.count("nontrivial")
            d = [(k, alone[n2][k], t2.get(k)) for k in alone[n2] if t2.get(k) != alone[n2][k]]
            acc.outcome("history-changes-names")
            acc.violation(
                "pddl:history|%s" % n2,
                "names of %r after writing %r differ from the names alone: %s" % (n2, n1, d[:3]),
                {"kind": "hist", "first": n1, "second": n2},
            )
        else:
            acc.outcome("history-same-names")
    io.reset_writer_state()
