"""Shared harness for the compiler properties C06-C09: compiler table, problem universes,
compile + spec extraction + map-back tables, exhaustive plan enumeration with the reference."""
from __future__ import annotations

from mc.gen import uprob
from mc.gen import problem as gp
from mc.gen.spec import tj
from mc.ref.seqsem import RefProblem, canon
from mc.ref import traj as rtraj
from mc.ref.eval import truth

EFFS = {"a1": ["a1.eff1", "a1.eff2", "a1.eff3"], "a2": ["a2.eff1", "a2.eff2"], "a3": ["a3.eff1"]}
ACT_SLOTS = {"a1": ["a1.pre1"] + EFFS["a1"], "a2": ["a2.pre1"] + EFFS["a2"], "a3": ["a3.pre1"] + EFFS["a3"]}


def compilers():
    from unified_planning.engines import CompilationKind as CK
    from unified_planning.engines.compilers import (
        Grounder,
        ConditionalEffectsRemover,
        DisjunctiveConditionsRemover,
        NegativeConditionsRemover,
        QuantifiersRemover,
        BoundedTypesRemover,
        StateInvariantsRemover,
        TrajectoryConstraintsRemover,
        UndefinedInitialNumericRemover,
    )
    from unified_planning.engines.compilers.usertype_fluents_remover import UsertypeFluentsRemover

    return {
        "grounder": (Grounder, CK.GROUNDING, None),
        "cerm": (ConditionalEffectsRemover, CK.CONDITIONAL_EFFECTS_REMOVING, None),
        "dcrm": (DisjunctiveConditionsRemover, CK.DISJUNCTIVE_CONDITIONS_REMOVING, None),
        "ncrm": (NegativeConditionsRemover, CK.NEGATIVE_CONDITIONS_REMOVING, None),
        "qurm": (QuantifiersRemover, CK.QUANTIFIERS_REMOVING, None),
        "utfr": (UsertypeFluentsRemover, CK.USERTYPE_FLUENTS_REMOVING, None),
        "btrm": (BoundedTypesRemover, CK.BOUNDED_TYPES_REMOVING, None),
        "sirm": (StateInvariantsRemover, CK.STATE_INVARIANTS_REMOVING, None),
        "tcrm": (TrajectoryConstraintsRemover, CK.TRAJECTORY_CONSTRAINTS_REMOVING, "bool"),
        "uinr": (UndefinedInitialNumericRemover, CK.UNDEFINED_INITIAL_NUMERIC_REMOVING, None),
    }


COMPILER_KEYS = ["grounder", "cerm", "dcrm", "ncrm", "qurm", "utfr", "btrm", "sirm", "tcrm", "uinr"]
VARIANT = {"tcrm": "bool"}
SLOTS = {"tcrm": uprob.BASE_SLOTS + ["traj"], "sirm": uprob.BASE_SLOTS + ["traj"], "grounder": uprob.BASE_SLOTS + ["traj"]}


def universe(key, tier):
    """[(level, cid)] for one compiler."""
    slots = SLOTS.get(key, uprob.BASE_SLOTS)
    variant = VARIANT.get(key)
    out = []
    for level, core_only in uprob.plan(tier):
        if level == 3:
            continue
        for cid in uprob.ids(level, slots, core_only, variant):
            if level == 2 and tier == "quick":
                names = [s for s, _ in cid]
                same_action = any(all(n in v for n in names) for v in ACT_SLOTS.values())
                one_action = sum(1 for n in names if "." in n) == 1
                if not (same_action or one_action):
                    continue
                if one_action and not same_action:
                    other = [n for n in names if "." not in n][0]
                    if other == "init":
                        continue
            out.append((level, cid))
    if key == "cerm":
        # three conditional effects on one action (the variants are the powerset of them):
        # all triples of conditional effects on a1's three effect slots
        from itertools import product as _prod

        cond_raw = (7, 8, 9, 13, 18)
        slots3 = ("a1.eff1", "a1.eff2", "a1.eff3")
        for combo in _prod(cond_raw, repeat=3):
            out.append((3, tuple((sl, uprob.raw_eff_choice(sl, r)) for sl, r in zip(slots3, combo))))
    if key in ("grounder", "tcrm", "cerm", "dcrm", "ncrm", "qurm", "sirm", "uinr", "btrm"):
        # integer-indexed fluents behind arithmetic argument expressions of integer parameters
        out.extend(c for c in uprob.intarg_ids() if uprob.make(dict(c[1]), variant) is not None)
    if key == "dcrm":
        # a disjunctive goal is witnessed by an auxiliary action; a LATER step may undo the witnessed
        # disjunct: every disjunctive goal x every effect alternative of every effect slot
        have = set(c for _l, c in out)
        order = list(uprob.BASE_SLOTS)
        gi = [i for i, (g, _c) in enumerate(uprob.pool("goal")) if any(isinstance(x, tuple) and x[0] in ("or", "implies", "iff") for x in g)]
        for es in [x for v in EFFS.values() for x in v]:
            for j in range(len(uprob.pool(es))):
                for g in gi:
                    cid = tuple(sorted([(es, j), ("goal", g)], key=lambda t: order.index(t[0])))
                    if cid not in have and uprob.make(dict(cid), variant) is not None:
                        have.add(cid)
                        out.append((2, cid))
    if key == "tcrm":
        # monitors are reset/advanced by the interplay of an initial value, one effect and the
        # constraint: all core triples (effect slot, init, traj)
        for es in [x for v in EFFS.values() for x in v]:
            for cid in uprob.ids(3, [es, "init", "traj"], True, variant):
                out.append((3, cid))
    return out


def plan_length(cid, tier):
    """quick: 2.  thorough: 3, except level-2 instances with a non-core choice (2)."""
    if tier == "quick":
        return 2
    if len(cid) >= 2 and not all(uprob.pool(s)[i][1] for s, i in cid):
        return 2
    return 3


def label(key, cid):
    return ",".join("%s#%d" % (s, i) for s, i in cid) or "base"


class Compiled:
    """One (compiler, problem) pair: original/compiled reference problems, map-back table."""

    def __init__(self, key, cid, acc):
        import unified_planning as up
        from unified_planning.plans import ActionInstance

        self.ok = False
        self.key, self.cid = key, cid
        Cls, ck, variant = compilers()[key]
        self.ps = uprob.make(dict(cid), VARIANT.get(key))
        try:
            self.prob, self.ctx = gp.build_problem(self.ps)
        except Exception as e:
            acc.count("skipped_rejected_at_build")
            return
        if not Cls.supports(self.prob.kind):
            acc.count("skipped_unsupported_kind")
            return
        self.ref = RefProblem(self.ps)
        if not self.ref.state_ok(self.ref.initial_state()):
            acc.count("skipped_malformed_initial")
            return
        try:
            self.res = Cls().compile(self.prob, ck)
        except Exception as e:
            acc.count("skipped_compile_raises")
            acc.outcome("compile-raises:%s:%s" % (key, type(e).__name__))
            self.exc = e
            return
        self.cprob = self.res.problem
        self.cps = gp.problem_to_spec(self.cprob)
        if "unsupported" in self.cps:
            acc.count("skipped_compiled_unsupported_by_reference")
            return
        ifuns = dict(self.ref.ifuns)
        self.cref = RefProblem(self.cps, ifuns)
        self.cgas = self.cref.ground_actions()
        # map-back table: compiled ground action index -> original (name, args) | None
        em = self.cprob.environment.expression_manager
        self.mb = []
        self.mb_error = None
        for an, args in self.cgas:
            act = self.cprob.action(an)
            params = tuple(_val(em, self.cprob, a) for a in args)
            try:
                o = self.res.map_back_action_instance(ActionInstance(act, params))
            except Exception as e:
                self.mb_error = (an, args, e)
                self.mb.append("ERR")
                continue
            if o is None:
                self.mb.append(None)
            else:
                self.mb.append((o.action.name, tuple(_unval(p) for p in o.actual_parameters)))
        self.ok = True

    # ---- validity under the reference (incl. remaining trajectory constraints) ---------
    @staticmethod
    def traj_ok(ref, states):
        if not ref.other_traj:
            return True

        def holds(e, st, va):
            return truth(e, ref.interp(st).with_vars(va))

        return all(rtraj.check(tc, states, holds, ref.objs) for tc in ref.other_traj)

    @staticmethod
    def run(ref, steps):
        """-> list of states or None if not executable"""
        st = ref.initial_state()
        states = [st]
        for an, args in steps:
            if an not in ref.actions:
                return None
            st, _ = ref.apply(st, an, args)
            if st is None:
                return None
            states.append(st)
        return states

    @classmethod
    def valid(cls, ref, steps):
        states = cls.run(ref, steps)
        if states is None:
            return False
        return ref.is_goal(states[-1]) and cls.traj_ok(ref, states)


def valid_plans(ref, k, gas=None):
    """All valid plans (tuples of ground-action indices) of length <= k, by exhaustive DFS
    with the reference.  Yields (plan, states)."""
    gas = gas if gas is not None else ref.ground_actions()
    init = ref.initial_state()

    def rec(plan, states):
        if ref.is_goal(states[-1]) and Compiled.traj_ok(ref, states):
            yield plan, states
        if len(plan) >= k:
            return
        for j, (an, args) in enumerate(gas):
            nxt, _ = ref.apply(states[-1], an, args)
            if nxt is not None:
                yield from rec(plan + (j,), states + [nxt])

    yield from rec((), [init])


def _val(em, prob, v):
    from fractions import Fraction

    if isinstance(v, bool):
        return em.TRUE() if v else em.FALSE()
    if isinstance(v, int):
        return em.Int(v)
    if isinstance(v, Fraction):
        return em.Real(v)
    return em.ObjectExp(prob.object(v))


def _unval(n):
    if n.is_object_exp():
        return n.object().name
    return n.constant_value()
