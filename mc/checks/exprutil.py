"""Glue shared by the expression-level checks C11 C12 C13 C15 C17 (profiles -> shards, world
handling after a library exception, sub-term minimisation of counterexamples)."""
from __future__ import annotations

import math

from mc.gen import uexpr as U
from mc.gen.spec import tj, fj, to_spec
from mc.kernel.runner import HarnessError

_CASES = {}


def grammar_of(profile):
    return U.Grammar(
        profile["leaves"],
        profile["ops"],
        arities=profile.get("arities", (2, 3)),
        qvars=profile.get("qvars", ((("v", "A"),), (("vb", "B"),))),
        nary3_leaf_only=profile.get("nary3_leaf_only", True),
        keep=profile.get("keep"),
    )


def cases_of(profile, max_ops, sorts=None):
    """[(n_ops, spec)] of one profile, cached per process (the enumeration is deterministic)."""
    key = (profile["name"], max_ops, tuple(sorts) if sorts else None)
    if key not in _CASES:
        _CASES[key] = grammar_of(profile).all(max_ops, sorts)
    return _CASES[key]


def make_shards(profiles, tier, per_shard=1500, extra=None, sorts=None):
    """One shard = (profile, level, chunk c of K): the worker regenerates the profile's list and
    takes the entries of that level with index = c mod K."""
    out = []
    for prof in profiles:
        N = prof["N"].get(tier)
        if N is None:
            continue
        cs = cases_of(prof, N, sorts or prof.get("sorts"))
        by = {}
        for n, _ in cs:
            by[n] = by.get(n, 0) + 1
        for n in sorted(by):
            K = max(1, int(math.ceil(by[n] / float(prof.get("per_shard", per_shard)))))
            for c in range(K):
                sh = {"level": n, "profile": prof["name"], "chunk": c, "of": K}
                if extra:
                    sh.update(extra)
                out.append(sh)
    out.sort(key=lambda s: s["level"])
    return out


def shard_cases(profiles, shard, tier, sorts=None):
    prof = [p for p in profiles if p["name"] == shard["profile"]][0]
    cs = [s for n, s in cases_of(prof, prof["N"][tier], sorts or prof.get("sorts")) if n == shard["level"]]
    return prof, cs[shard["chunk"] :: shard["of"]]


def profile_bounds(profiles, tier):
    out = {}
    for p in profiles:
        if p["N"].get(tier) is None:
            continue
        d = grammar_of(p).describe()
        d["max_ops"] = p["N"][tier]
        d["trees"] = len(cases_of(p, p["N"][tier], p.get("sorts")))
        out[p["name"]] = d
    return out


class Holder:
    """Owns the current World; `renew()` after ANY exception inside a library call (a failed
    walk may leave shared walkers in an undefined state - C14's subject, not ours)."""

    def __init__(self, factory):
        self.factory = factory
        self.world = factory()
        self.renewed = 0

    def renew(self):
        self.world = self.factory()
        self.renewed += 1
        return self.world


def build(world, spec):
    """spec -> FNode; cross-checks that the node reads back as the spec (DESIGN 2.3)."""
    e = world.ctx.e(spec)
    back = to_spec(e)
    if back != spec:
        raise HarnessError("spec %r builds a node that reads back as %r" % (spec, back))
    return e


def proper_subterms(spec):
    return [s for s in U.subterms(spec) if s != spec]


def _cls(s):
    try:
        so = U.sort_of(s)
    except U.IllTyped:
        return None
    return "num" if so in U.NUM else so


def _replace_child(s, idx, new):
    t = s[0]
    if t in ("exists", "forall"):
        return (t, s[1], new)
    off = 2 if t in ("f", "ifun") else 1
    return s[: off + idx] + (new,) + s[off + idx + 1 :]


def reductions(s):
    """strictly smaller variants of s: a sub-term replaced by one of its children of the same
    class, one argument of an n-ary operator dropped, one quantified variable dropped."""
    t = s[0]
    ch = U.children(s)
    c0 = _cls(s)
    for c in ch:
        if _cls(c) == c0:
            yield c
    if t in ("and", "or", "+", "*") and len(ch) >= 3:
        for i in range(len(ch)):
            yield (t,) + ch[:i] + ch[i + 1 :]
    if t in ("exists", "forall") and len(s[1]) >= 2:
        for i in range(len(s[1])):
            yield (t, s[1][:i] + s[1][i + 1 :], s[2])
    for i, c in enumerate(ch):
        for r in reductions(c):
            yield _replace_child(s, i, r)


def minimise(spec, fails):
    """greedy 1-minimal reduction: `fails(candidate)` says whether the candidate still violates
    the same sub-oracle.  Only well-typed canonical candidates are tried."""
    cur = spec
    seen = {spec}
    progress = True
    while progress:
        progress = False
        cands = []
        for c in reductions(cur):
            if c in seen:
                continue
            seen.add(c)
            if _cls(c) is None or not canonical(c):
                continue
            cands.append(c)
        cands.sort(key=lambda c: (U.nodes(c), repr(c)))
        for c in cands:
            if fails(c):
                cur = c
                progress = True
                break
    return cur


def localise(spec, violated, fold=None, memo=None):
    """Root-cause localisation of a failing spec.  violated(spec) -> set of violated sub-oracle
    names.  (1) the smallest failing proper sub-term (any sub-oracle) wins; (2) otherwise the
    spec is reduced per sub-oracle by hoisting / dropping (`minimise`) and, with `fold`, by a
    semantics-preserving rewriting of the spec (children replaced by their simplifications, the
    NNF, ...) whose result is judged like any other candidate; repeated until stable.
    Returns [(sub-oracle, minimal spec)].  memo: dict shared between calls."""
    if memo is None:
        memo = {}
    if spec in memo:
        return memo[spec]
    res = None
    for st in sorted(proper_subterms(spec), key=lambda s: (U.nodes(s), repr(s))):
        if _cls(st) is not None and canonical(st) and violated(st):
            res = localise(st, violated, fold, memo)
            break
    if res is None:
        res = []
        for so in sorted(violated(spec)):
            fails = lambda c, so=so: so in violated(c)
            m = minimise(spec, fails)
            if fold is not None and m == spec:
                m2 = fold(m)
                if m2 is not None and m2 != m and _cls(m2) is not None and canonical(m2) and fails(m2):
                    m = m2
            if m != spec:
                for so2, m3 in localise(m, violated, fold, memo):
                    if (so2, m3) not in res:
                        res.append((so2, m3))
            else:
                res.append((so, spec))
    memo[spec] = res
    return res


def canonical(s):
    """no form the constructors normalise away (so that spec -> node -> spec is the identity)."""
    t = s[0]
    if t in ("and", "or", "+", "*") and len(s) < 3:
        return False
    if t == "not" and s[1][0] == "not":
        return False
    if t == "r" and s[2] == 1:
        return False
    return all(canonical(c) for c in U.children(s))


def keep_smallest(acc, fp, what, case, spec):
    """record a violation; the runner keeps the 3 smallest cases per fingerprint."""
    acc.violation(fp, what, case)


__all__ = ["tj", "fj"]
