"""Shared pieces of the IO round-trip checks C18 / C19 / C21 / C38.

* classification of writer / reader outcomes (documented rejection vs crash)
* renamings read from the writers
* `temporal_compare`: temporal structure of two specs, structural in TIME (which timepoints /
  interval pieces carry conditions and effects, duration openness, TIL times) and semantic in
  the EXPRESSIONS (conditions, effect lists and duration bounds are evaluated with the
  reference evaluator on every sample state x parameter binding), so that harmless
  re-associations (`(and ..)` flattening, `a+1` vs `1+a`) are never reported.
"""
from __future__ import annotations

import os
import shutil
import tempfile
from fractions import Fraction
from itertools import product

from mc.ref.bisim import Renaming, same, _state_diff
from mc.ref.eval import Bottom, ev, truth
from mc.ref.seqsem import RefProblem, _fr

# --------------------------------------------------------------------------- outcomes
PDDL_WRITER_DOCUMENTED = ("UPProblemDefinitionError", "UPTypeError", "UPUnsupportedProblemTypeError")


def exc_name(e):
    return type(e).__name__


def is_documented_writer_rejection(e):
    """Exceptions the PDDL/ANML writers raise on purpose for problems outside the language."""
    import unified_planning.exceptions as ux

    return isinstance(e, (ux.UPProblemDefinitionError, ux.UPTypeError, ux.UPUnsupportedProblemTypeError)) and not isinstance(
        e, ux.UPUnreachableCodeError
    )


_LARK = {}


def enable_lark_cache():
    """The AI-planning reader builds two LALR parsers (package `pddl`, ~250 ms of grammar
    analysis) on EVERY PDDLReader call.  The harness replaces `pddl.parser.base.Lark` by a
    constructor that analyses each grammar once per process and then instantiates parsers from
    the serialised tables (lark's own save/load, in memory - nothing is written to disk), with a
    FRESH transformer object per parser exactly as in the original code path."""
    import io as _io

    import pddl.parser.base as pb
    from lark import Lark

    if getattr(pb.Lark, "_verif_cached", False):
        return

    def cached(text, **kw):
        tr = kw.pop("transformer", None)
        key = (str(kw.get("start")), hash(text), tuple(sorted((k, str(v)) for k, v in kw.items())))
        if key not in _LARK:
            base = Lark(text, **kw)
            buf = _io.BytesIO()
            base.save(buf)
            _LARK[key] = buf.getvalue()
        inst = Lark.__new__(Lark)
        return inst._load(_io.BytesIO(_LARK[key]), transformer=tr)

    cached._verif_cached = True
    pb.Lark = cached


def _restore_tracebacklimit():
    # pddl.parser.base._call_parser leaves sys.tracebacklimit = 0 behind when parsing fails
    import sys

    if getattr(sys, "tracebacklimit", None) == 0:
        del sys.tracebacklimit


def read_pddl(kind, domain_str, problem_str):
    """kind: 'up' | 'ai'. -> (status, payload)
    status 'ok'       payload = problem (in a fresh environment)
    status 'outside'  payload = reason string   (reader refuses the text the way it documents:
                      grammar/parse error of the text, UPUnsupportedProblemTypeError, SyntaxError)
    status 'crash'    payload = exception        (anything else: TypeError, KeyError, Assertion...)
    """
    from mc.gen.spec import fresh_env
    import unified_planning.exceptions as ux
    from unified_planning.io import PDDLReader

    env = fresh_env()
    if kind == "up":
        import pyparsing

        try:
            r = PDDLReader(env, force_up_pddl_reader=True)
            return "ok", r.parse_problem_string(domain_str, problem_str)
        except (pyparsing.ParseBaseException,) as e:
            return "outside", "parse:" + exc_name(e)
        except ux.UPUnsupportedProblemTypeError as e:
            return "outside", "unsupported"
        except SyntaxError as e:
            return "outside", "syntax"
        except Exception as e:  # noqa
            return "crash", e
    else:
        enable_lark_cache()
        try:
            r = PDDLReader(env, force_ai_planning_reader=True)
            return "ok", r.parse_problem_string(domain_str, problem_str)
        except ux.UPUnsupportedProblemTypeError as e:
            return "outside", "unsupported"
        except Exception as e:  # noqa
            if not _in_up_converter(e):
                # third-party parser (package pddl / lark): every failure = text outside ITS fragment
                return "outside", "aiparse:" + exc_name(e)
            return "crash", e
        finally:
            _restore_tracebacklimit()


def _in_up_converter(e):
    tb = e.__traceback__
    while tb is not None:
        if tb.tb_frame.f_code.co_filename.replace("\\", "/").endswith("interop/from_pddl.py"):
            return True
        tb = tb.tb_next
    return False


def pddl_renaming(w, prob):
    """A(original) -> B(written) names from the PDDL writer's public lookup."""
    from unified_planning.exceptions import UPException

    def nm(x, default):
        try:
            return w.get_pddl_name(x)
        except UPException:
            return default

    return Renaming(
        types={t.name: nm(t, t.name) for t in prob.user_types},
        objects={o.name: nm(o, o.name) for o in prob.all_objects},
        fluents={f.name: nm(f, f.name) for f in prob.fluents},
        actions={a.name: nm(a, a.name) for a in prob.actions},
    )


def anml_renaming(mapping, prob):
    def nm(x, default):
        return mapping.get(x, default)

    return Renaming(
        types={t.name: nm(t, t.name) for t in prob.user_types},
        objects={o.name: nm(o, o.name) for o in prob.all_objects},
        fluents={f.name: nm(f, f.name) for f in prob.fluents},
        actions={a.name: nm(a, a.name) for a in prob.actions},
    )


def build(ps, acc):
    """spec -> (problem, ctx) | None.  Like simutil.build, plus problem-level timed ASSIGN
    effects (mc/gen/problem.add_effect calls `Problem.add_effect`, which does not exist; the
    method is `add_timed_effect`), which are added here."""
    from mc.checks import simutil as su
    from mc.gen import temporal as gt

    teffs = ps.get("teffs", ())
    assigns = [(tm, e) for tm, e in teffs if e[0] == "assign"]
    if not assigns:
        return su.build(ps, acc)
    ps2 = dict(ps)
    ps2["teffs"] = tuple((tm, e) for tm, e in teffs if e[0] != "assign")
    b = su.build(ps2, acc)
    if b is None:
        return None
    prob, c = b
    for tm, (kind, fl, val, cond, fa) in assigns:
        kw = {}
        if cond is not None:
            kw["condition"] = c.e(cond)
        if fa:
            kw["forall"] = [c.var(n, tn) for n, tn in fa]
        prob.add_timed_effect(gt.mk_timing(tm), c.e(fl), c.e(val), **kw)
    return prob, c


_PRISTINE = {}


def reset_writer_state():
    """Module-level mutable state of the PDDL writer (keyword sets that PDDLWriter.__init__
    unions in place) is put back to its import-time value: per-case isolation, and the
    definition of 'written alone' in the history clause."""
    import unified_planning.io.pddl_writer as pw

    if not _PRISTINE:
        import importlib

        importlib.reload(pw)  # a pristine copy of the literals, whatever ran before
        import unified_planning.io as uio

        uio.PDDLWriter = pw.PDDLWriter
        for name in dir(pw):
            v = getattr(pw, name)
            if name.isupper() and isinstance(v, set):
                _PRISTINE[name] = frozenset(v)
    for name, v in _PRISTINE.items():
        cur = getattr(pw, name, None)
        if isinstance(cur, set) and cur != v:
            cur.clear()
            cur.update(v)


# --------------------------------------------------------------------------- minimisation
_MIN_CACHE = {}


def run_minimised(key, run_case, smaller, acc, max_cache=4000):
    """Deviation minimisation (DESIGN 6.1), local to the worker: run `key`; every violation is
    re-attributed to the smallest sub-case (deviations dropped one at a time) on which the same
    sub-oracle still fails, so that the fingerprint names the minimal failing input even when
    the run is capped before the cross-shard pruning.
      run_case(key, acc)   runs one case, recording counters and violations in acc
      smaller(key)         -> iterable of keys with one deviation less
    Counters of the extra sub-case runs are discarded."""
    from mc.kernel.runner import Acc

    scratch = Acc()
    run_case(key, scratch)
    acc.c.update(scratch.c)
    acc.outcomes.update(scratch.outcomes)
    for smp in scratch.samples:
        acc.sample(smp)
    if not scratch.viol:
        return

    def viols_of(k):
        if k not in _MIN_CACHE:
            if len(_MIN_CACHE) > max_cache:
                _MIN_CACHE.clear()
            a = Acc()
            run_case(k, a)
            _MIN_CACHE[k] = {fp: e["cases"][0] for fp, e in a.viol.items()}
        return _MIN_CACHE[k]

    _MIN_CACHE[key] = {fp: e["cases"][0] for fp, e in scratch.viol.items()}
    for fp, e in scratch.viol.items():
        sub = fp.rpartition("|")[0]
        cur_key, cur_fp, cur = key, fp, e["cases"][0]
        progress = True
        while progress:
            progress = False
            for k2 in smaller(cur_key):
                hit = [(f2, c2) for f2, c2 in viols_of(k2).items() if f2.rpartition("|")[0] == sub]
                if hit:
                    cur_key, (cur_fp, cur) = k2, hit[0]
                    progress = True
                    break
        if cur_fp != fp:
            acc.c["violations_minimised"] += 1
        acc.violation(cur_fp, cur["what"], cur["case"])


def pristine(name):
    """import-time value of a module-level keyword set of unified_planning.io.pddl_writer"""
    if not _PRISTINE:
        reset_writer_state()
    return _PRISTINE.get(name, frozenset())


class Scratch:
    """temp dir that is always removed"""

    def __enter__(self):
        self.d = tempfile.mkdtemp(prefix="verif_io_")
        return self.d

    def __exit__(self, *a):
        shutil.rmtree(self.d, ignore_errors=True)


# --------------------------------------------------------------------------- temporal
def _timing(ts):
    return (ts[0], Fraction(_fr(ts[1])))


def _gtiming(ts):
    """problem-level timings: `start + d` and `global start + d` denote the same instant"""
    k = {"start": "gstart", "end": "gend"}.get(ts[0], ts[0])
    return (k, Fraction(_fr(ts[1])))


def _gpieces(iv):
    g = lambda t: ({"start": "gstart", "end": "gend"}.get(t[0], t[0]), t[1])
    return pieces((g(iv[0]), g(iv[1]), iv[2], iv[3]))


def pieces(iv):
    lo, hi = _timing(iv[0]), _timing(iv[1])
    if lo == hi:
        return [("pt", lo)]
    out = []
    if not iv[2]:
        out.append(("pt", lo))
    out.append(("open", lo, hi))
    if not iv[3]:
        out.append(("pt", hi))
    return out


def _bindings(P, params):
    doms = [P.domain(pt) for _pn, pt in params]
    names = [pn for pn, _ in params]
    for combo in product(*doms):
        yield dict(zip(names, combo))


def _val(e, I):
    try:
        return ("v", ev(e, I))
    except Bottom:
        return ("undef", None)


def _apply_effs(P, state, effs, params):
    try:
        fired = P.fired_effects(state, effs, params)
    except Bottom:
        return None
    new, _why = P.combine(state, fired)
    return new


def temporal_compare(spec_a, spec_b, ren, samples, max_diffs=1):
    """samples: [(state_a, state_b)] related states. -> [(sub, what, witness)]"""
    A, B = RefProblem(spec_a), RefProblem(spec_b)
    diffs = []
    seen = set()

    def diff(sub, what, wit=None):
        if sub not in seen:
            seen.add(sub)
            diffs.append((sub, what, wit))

    da = {a["name"]: a for a in spec_a.get("dactions", ())}
    db = {a["name"]: a for a in spec_b.get("dactions", ())}
    img = set()
    n_eval = 0
    for an, a in da.items():
        bn = ren.a(an)
        img.add(bn)
        bb = db.get(bn)
        if bb is None:
            # the writers drop actions whose conditions simplify to false; such an action has an
            # unsatisfiable condition in A
            unsat = all(
                not all(truth(c, A.interp(sa, bind)) for iv, c in a.get("conds", ()))
                for sa, _sb in samples
                for bind in _bindings(A, a["params"])
            ) and a.get("conds")
            if not unsat:
                diff("dur-action-missing", "durative action %r (-> %r) missing in B" % (an, bn), {"action": an})
            continue
        if len(a["params"]) != len(bb["params"]):
            diff("dur-action-params", "arity of %r differs" % an, {"action": an})
            continue
        pa = [pn for pn, _ in a["params"]]
        pb = [pn for pn, _ in bb["params"]]
        # duration
        if a["dur"][0] != a["dur"][1] and (bool(a["dur"][2]) != bool(bb["dur"][2]) or bool(a["dur"][3]) != bool(bb["dur"][3])):
            diff("duration-openness", "%s: A %s B %s" % (an, a["dur"][2:], bb["dur"][2:]), {"action": an})
        ca, cb = {}, {}
        for src, dst in ((a, ca), (bb, cb)):
            for iv, c in src.get("conds", ()):
                for pc in pieces(iv):
                    dst.setdefault(pc, []).append(c)
        ea, eb = {}, {}
        for src, dst in ((a, ea), (bb, eb)):
            for tm, e in src.get("effs", ()):
                dst.setdefault(_timing(tm), []).append(e)
        for sa, sb in samples:
            for bind in _bindings(A, a["params"]):
                bind_b = dict(zip(pb, [ren.val(bind[p]) for p in pa]))
                Ia, Ib = A.interp(sa, bind), B.interp(sb, bind_b)
                n_eval += 1
                for k in (0, 1):
                    va, vb = _val(a["dur"][k], Ia), _val(bb["dur"][k], Ib)
                    if va[0] != vb[0] or (va[0] == "v" and not same(va[1], vb[1])):
                        diff("duration-bound", "%s%s %s bound: A=%s B=%s" % (an, list(bind.values()), ("lower", "upper")[k], va[1], vb[1]), {"action": an})
                for pc in set(ca) | set(cb):
                    ta = all(truth(c, Ia) for c in ca.get(pc, ()))
                    tb = all(truth(c, Ib) for c in cb.get(pc, ()))
                    if ta != tb:
                        diff("condition@%s" % _pc(pc), "%s%s in %s: condition on %s A=%s B=%s" % (an, list(bind.values()), _sh(sa), _pc(pc), ta, tb), {"action": an})
                for tm in set(ea) | set(eb):
                    na = _apply_effs(A, sa, ea.get(tm, ()), bind)
                    nb = _apply_effs(B, sb, eb.get(tm, ()), bind_b)
                    if (na is None) != (nb is None):
                        diff("effect@%s" % _tm(tm), "%s%s in %s: effects at %s fire-ability A=%s B=%s" % (an, list(bind.values()), _sh(sa), _tm(tm), na is not None, nb is not None), {"action": an})
                    elif na is not None:
                        dd = _state_diff(A, ren, na, nb)
                        if dd:
                            diff("effect@%s" % _tm(tm), "%s%s in %s: effects at %s differ (fluent, A, B) %s" % (an, list(bind.values()), _sh(sa), _tm(tm), dd[:3]), {"action": an})
    for bn in db:
        if bn not in img:
            diff("dur-action-extra", "B has durative action %r without counterpart" % bn, {"action": bn})
    # action costs of durative actions (metric "costs": per action expression or default)
    ma, mb = spec_a.get("metric"), spec_b.get("metric")
    if ma is not None and mb is not None and (ma[0] in ("costs", "len") or mb[0] in ("costs", "len")):
        def cost_of(m, name):
            if m[0] == "len":
                return ("i", 1)
            if m[0] != "costs":
                return None
            return dict(m[1]).get(name, m[2])

        for an, a in da.items():
            bb = db.get(ren.a(an))
            if bb is None:
                continue
            ea_, eb_ = cost_of(ma, an), cost_of(mb, ren.a(an))
            pa = [pn for pn, _ in a["params"]]
            pb = [pn for pn, _ in bb["params"]]
            for sa, sb in samples:
                for bind in _bindings(A, a["params"]):
                    bind_b = dict(zip(pb, [ren.val(bind[p]) for p in pa]))
                    va = ("none", None) if ea_ is None else _val(ea_, A.interp(sa, bind))
                    vb = ("none", None) if eb_ is None else _val(eb_, B.interp(sb, bind_b))
                    n_eval += 1
                    if va[0] != vb[0] or (va[0] == "v" and not same(va[1], vb[1])):
                        diff("dur-action-cost", "cost of %s%s in %s: A=%s B=%s" % (an, list(bind.values()), _sh(sa), va[1], vb[1]), {"action": an})
    # timed initial literals / effects
    ta, tb = {}, {}
    for src, dst in ((spec_a, ta), (spec_b, tb)):
        for tm, e in src.get("teffs", ()):
            dst.setdefault(_gtiming(tm), []).append(e)
    if set(ta) != set(tb):
        diff("til-times", "timed effect times A=%s B=%s" % (sorted(map(_tm, ta)), sorted(map(_tm, tb))), None)
    else:
        for tm in ta:
            for sa, sb in samples:
                n_eval += 1
                na, nb = _apply_effs(A, sa, ta[tm], {}), _apply_effs(B, sb, tb[tm], {})
                if (na is None) != (nb is None) or (na is not None and _state_diff(A, ren, na, nb)):
                    diff("til-effect", "timed effects at %s differ in %s" % (_tm(tm), _sh(sa)), None)
    # timed goals
    ga, gb = {}, {}
    for src, dst in ((spec_a, ga), (spec_b, gb)):
        for iv, g in src.get("tgoals", ()):
            for pc in _gpieces(iv):
                dst.setdefault(pc, []).append(g)
    for pc in set(ga) | set(gb):
        for sa, sb in samples:
            n_eval += 1
            xa = all(truth(g, A.interp(sa)) for g in ga.get(pc, ()))
            xb = all(truth(g, B.interp(sb)) for g in gb.get(pc, ()))
            if xa != xb:
                diff("timed-goal@%s" % _pc(pc), "timed goal on %s in %s: A=%s B=%s" % (_pc(pc), _sh(sa), xa, xb), None)
    return diffs, n_eval


def _tm(t):
    k, d = t
    if d == 0:
        return k
    return "%s%s%s" % (k, "+" if d > 0 else "-", abs(d))


def _pc(pc):
    if pc[0] == "pt":
        return "[" + _tm(pc[1]) + "]"
    return "(" + _tm(pc[1]) + "," + _tm(pc[2]) + ")"


def _sh(st):
    from mc.ref.bisim import _short

    return _short(st)
