"""Small helpers shared by the history checks C22-C25."""
from __future__ import annotations

import signal
from contextlib import contextmanager


class Hang(Exception):
    """A library call did not return within the watchdog time (reported as a violation)."""


def _on_alarm(signum, frame):
    raise Hang()


_installed = False


@contextmanager
def deadline(seconds=2.0):
    """Watchdog around library calls: a non-terminating call (e.g. a propagation loop that never
    reaches a fixpoint) must become a violation, not a hung harness.  Main thread only.
    The timer counts the CPU time of this process (ITIMER_VIRTUAL), so a loaded machine cannot
    fire it on a call that is merely waiting for a core."""
    global _installed
    if not _installed:
        signal.signal(signal.SIGVTALRM, _on_alarm)
        _installed = True
    signal.setitimer(signal.ITIMER_VIRTUAL, seconds)
    try:
        yield
    finally:
        signal.setitimer(signal.ITIMER_VIRTUAL, 0)


def arm(seconds=2.0):
    global _installed
    if not _installed:
        signal.signal(signal.SIGVTALRM, _on_alarm)
        _installed = True
    signal.setitimer(signal.ITIMER_VIRTUAL, seconds)


def disarm():
    signal.setitimer(signal.ITIMER_VIRTUAL, 0)


def tj(x):
    """nested tuples -> JSON-able lists"""
    if isinstance(x, (tuple, list)):
        return [tj(y) for y in x]
    if isinstance(x, dict):
        return {str(k): tj(v) for k, v in x.items()}
    return x


def fj(x):
    """JSON lists -> nested tuples"""
    if isinstance(x, (tuple, list)):
        return tuple(fj(y) for y in x)
    return x
