"""Root-cause oriented fingerprints for checks whose one defect fails on MANY enumerated inputs.

A violation is filed under a *sub-oracle* (which law / which call / which outcome class broke)
and carries a totally ordered *size* and a short *label* of the failing input.  Within a shard
only the smallest failing input per sub-oracle is kept (the others are counted); `finalize`
does the same across shards.  The reported fingerprint is

        <sub-oracle>|<label of the globally smallest failing input>

Because the enumeration is exhaustive and its order deterministic, the smallest failing input
(and hence the fingerprint) is a function of the code under test only - not of sharding, job
count or seed - and a thorough run (a superset of quick) reports the same fingerprint.
"""
from __future__ import annotations

import json


class MinViol:
    def __init__(self, acc):
        self.acc = acc
        self.best = {}  # sub -> [size, label, what, case, count]

    def add(self, sub, size, label, what, case):
        """size: any JSON-able totally ordered key (list of ints/strings)."""
        size = _norm(size)
        cur = self.best.get(sub)
        if cur is None:
            self.best[sub] = [size, label, what, case, 1]
            return
        cur[4] += 1
        if (size, label) < (cur[0], cur[1]):
            cur[0], cur[1], cur[2], cur[3] = size, label, what, case

    def flush(self):
        for sub, (size, label, what, case, count) in sorted(self.best.items()):
            case = dict(case)
            case["_sub"] = sub
            case["_size"] = size
            case["_label"] = label
            fp = "%s|%s" % (sub, label)
            self.acc.violation(fp, what, case)
            self.acc.viol[fp]["count"] += count - 1
        self.best = {}


def _norm(x):
    return json.loads(json.dumps(x))


def finalize(acc, tier=None):
    """Keep, per sub-oracle, only the fingerprint of the globally smallest failing input."""
    groups = {}
    for fp, e in acc.viol.items():
        sub = fp.rpartition("|")[0]
        c = e["cases"][0]["case"]
        if not isinstance(c, dict) or "_size" not in c:
            continue
        groups.setdefault(sub, []).append((_norm(c["_size"]), c.get("_label", ""), fp))
    for sub, lst in groups.items():
        lst.sort()
        keep = lst[0][2]
        for _, _, fp in lst[1:]:
            if fp == keep:
                continue
            acc.viol[keep]["count"] += acc.viol[fp]["count"]
            acc.c["violations_subsumed"] += acc.viol[fp]["count"]
            del acc.viol[fp]
        acc.viol[keep]["cases"] = acc.viol[keep]["cases"][:1]


def filter_replay(case, results):
    """a replayed case answers for the sub-oracle it was recorded under (other laws that the same
    input also breaks have their own minimal inputs and fingerprints)."""
    sub = case.get("_sub") if isinstance(case, dict) else None
    if sub is None:
        return results
    return [(fp, what) for fp, what in results if fp.rpartition("|")[0] == sub]
