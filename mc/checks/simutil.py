"""Shared glue between reference states (plain data) and real UP objects."""
from __future__ import annotations

from fractions import Fraction

import unified_planning as up
from unified_planning.exceptions import UPStateMissingFluentError

from mc.gen import problem as gp


def chunk_cases(ids, seed, per_level_chunks=None, key="cids"):
    """ids: [(level, cid)] -> shards ordered level by level; seed rotates assignment only."""
    per_level_chunks = per_level_chunks or {}
    by = {}
    for level, cid in ids:
        by.setdefault(level, []).append(cid)
    out = []
    for level in sorted(by):
        lst = by[level]
        k = max(1, min(len(lst), per_level_chunks.get(level, 32)))
        rot = seed % k
        buckets = [[] for _ in range(k)]
        for i, cid in enumerate(lst):
            buckets[(i + rot) % k].append(cid)
        for bkt in buckets:
            if bkt:
                out.append({"level": level, key: bkt})
    return out


def build(ps, acc):
    """spec -> (problem, ctx) or None when the LIBRARY rejects the model at build time."""
    from unified_planning.exceptions import (
        UPConflictingEffectsException,
        UPProblemDefinitionError,
        UPTypeError,
        UPUsageError,
        UPValueError,
    )

    try:
        return gp.build_problem(ps)
    except (UPConflictingEffectsException,) as e:
        acc.count("skipped_rejected_at_build")
        acc.outcome("build-rejected:" + type(e).__name__)
        return None


class Translator:
    """reference values <-> FNodes of one built problem."""

    def __init__(self, prob, ctx, ref):
        self.prob, self.ctx, self.ref = prob, ctx, ref
        self.em = prob.environment.expression_manager
        self._fl = {}
        for key in ref.ground_fluents:
            f = prob.fluent(key[0])
            self._fl[key] = self.em.FluentExp(f, tuple(self.val(a) for a in key[1:]))

    def val(self, v):
        em = self.em
        if isinstance(v, bool):
            return em.TRUE() if v else em.FALSE()
        if isinstance(v, int):
            return em.Int(v)
        if isinstance(v, Fraction):
            if v.denominator == 1:
                return em.Int(int(v))
            return em.Real(v)
        if isinstance(v, str):
            return em.ObjectExp(self.prob.object(v))
        raise ValueError(v)

    @staticmethod
    def unval(n):
        if n.is_object_exp():
            return n.object().name
        v = n.constant_value()
        if isinstance(v, Fraction) and v.denominator == 1:
            return int(v)
        return v

    def fexp(self, key):
        return self._fl[key]

    def flat_state(self, st):
        return up.model.UPState({self._fl[k]: self.val(v) for k, v in st.items()}, self.prob)

    def read(self, ustate):
        out = {}
        for key, fe in self._fl.items():
            try:
                out[key] = self.unval(ustate.get_value(fe))
            except UPStateMissingFluentError:
                pass
        return out

    def diff(self, ustate, st):
        """list of (key, impl value, reference value) that differ ('undef' for missing)."""
        got = self.read(ustate)
        out = []
        for key in self._fl:
            a, b = got.get(key, "undef"), st.get(key, "undef")
            if type(a) is bool or type(b) is bool:
                same = a is b
            else:
                same = a == b
            if not same:
                out.append((key, str(a), str(b)))
        return out

    def up_action(self, aname, args):
        act = self.prob.action(aname)
        return act, tuple(self.val(a) for a in args)


def prune_supersets(acc, tier=None):
    """Free minimisation: enumeration is exhaustive by deviation level, so a violation whose
    deviation set strictly contains the deviation set of another violation of the same
    sub-oracle is dropped (the smaller input already shows it)."""
    from itertools import combinations

    groups = {}
    for fp in acc.viol:
        sub, _, lab = fp.rpartition("|")
        st = frozenset(lab.split(",")) if lab != "base" else frozenset()
        groups.setdefault(sub, {})[st] = fp
    drop = set()
    for sub, sets in groups.items():
        for st, fp in sets.items():
            if len(st) > 6:
                continue
            found = False
            items = sorted(st)
            for r in range(len(items)):
                for combo in combinations(items, r):
                    if frozenset(combo) in sets:
                        found = True
                        break
                if found:
                    break
            if found:
                drop.add(fp)
    for fp in drop:
        acc.c["violations_subsumed"] += acc.viol[fp]["count"]
        del acc.viol[fp]
