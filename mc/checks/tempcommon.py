"""Shared glue for the temporal plan properties C26 / C28 / C29.

Reference plans are lists of (start: Fraction, action name, args tuple, duration | None)
(the format of mc.gen.utemp.plans and mc.ref.tempsem.TempRef.validate).
"""
from __future__ import annotations

from fractions import Fraction

from mc.ref.eval import fluents_read
from mc.ref.tempsem import abs_time


def plan_json(plan):
    return [[str(s), an, list(args), None if d is None else str(d)] for s, an, args, d in plan]


def plan_from_json(pj):
    return tuple(
        (Fraction(s), an, tuple(args), None if d is None else Fraction(d)) for s, an, args, d in pj
    )


def to_ttp(prob, plan):
    """reference plan -> real TimeTriggeredPlan; one FRESH ActionInstance per step."""
    from unified_planning.plans import TimeTriggeredPlan, ActionInstance

    em = prob.environment.expression_manager
    steps = []
    for s, an, args, d in plan:
        ai = ActionInstance(
            prob.action(an),
            tuple(em.ObjectExp(prob.object(a)) if isinstance(a, str) else em.Int(a) for a in args),
        )
        steps.append((Fraction(s), ai, None if d is None else Fraction(d)))
    return TimeTriggeredPlan(steps, prob.environment), steps


def _unval(n):
    if n.is_object_exp():
        return n.object().name
    v = n.constant_value()
    if isinstance(v, Fraction) and v.denominator == 1:
        return int(v)
    return v


def from_ttp(ttp):
    """real TimeTriggeredPlan -> reference plan (raises ValueError on malformed entries)."""
    out = []
    for s, ai, d in ttp.timed_actions:
        out.append(
            (
                Fraction(s),
                ai.action.name,
                tuple(_unval(p) for p in ai.actual_parameters),
                None if d is None else Fraction(d),
            )
        )
    return out


def plan_key(plan):
    """multiset key of a reference plan"""
    return sorted((Fraction(s), an, tuple(args), None if d is None else Fraction(d)) for s, an, args, d in plan)


def instances_key(plan):
    return sorted((an, tuple(args)) for _s, an, args, _d in plan)


# ---------------------------------------------------------------------------------------------
# simultaneous interference (C26 scope: "simultaneous NON-INTERFERING happenings")
# ---------------------------------------------------------------------------------------------
def simultaneous_interference(ref, plan):
    """None, or a short description of two happenings of DIFFERENT owners (plan steps; the
    problem's timed effects/goals count as one owner) that fall on one instant where one
    writes a ground fluent the other reads or writes.

    reads of an owner at t : effect conditions / values / target arguments of its effects
    at t, conditions whose interval has an END-POINT at t (open or closed), instantaneous
    preconditions at t, duration bounds of a step starting at t.
    writes of an owner at t: targets of its effects scheduled at t (conditional ones too).
    Fluent arguments are evaluated in the initial state (U-TEMP has no nested fluents).
    """
    I0 = ref.interp(ref.initial_state())
    reads, writes = {}, {}  # t -> owner -> set

    def rd(t, owner, expr, params):
        if expr is None:
            return
        fluents_read(expr, I0.with_params(params) if params else I0, reads.setdefault(t, {}).setdefault(owner, set()))

    def wr(t, owner, e, params):
        kind, fl, val, cond, fa = e
        I = I0.with_params(params) if params else I0
        from itertools import product

        doms = [ref.objs(tn) for _vn, tn in fa]
        for combo in product(*doms):
            J = I.with_vars(dict(zip(fa, combo))) if fa else I
            s = set()
            fluents_read(fl, J, s)
            # the target itself is the last key added for fl; its arguments' reads come first
            from mc.ref.eval import ev, Bottom

            try:
                target = (fl[1],) + tuple(ev(a, J) for a in fl[2:])
            except Bottom:
                continue
            writes.setdefault(t, {}).setdefault(owner, set()).add(target)
            r = reads.setdefault(t, {}).setdefault(owner, set())
            for a in fl[2:]:
                fluents_read(a, J, r)
            if cond is not None:
                fluents_read(cond, J, r)
            fluents_read(val, J, r)
            if kind != "assign":
                r.add(target)

    for sid, (start, an, args, dur) in enumerate(plan):
        start = Fraction(start)
        owner = "step%d:%s" % (sid, an)
        if an in ref.dactions:
            a = ref.dactions[an]
            params = dict(zip([pn for pn, _ in a["params"]], args))
            dur = Fraction(dur)
            rd(start, owner, a["dur"][0], params)
            rd(start, owner, a["dur"][1], params)
            for tm, e in a.get("effs", ()):
                wr(abs_time(tm, start, dur), owner, e, params)
            for iv, cnd in a.get("conds", ()):
                rd(abs_time(iv[0], start, dur), owner, cnd, params)
                rd(abs_time(iv[1], start, dur), owner, cnd, params)
        else:
            a = ref.actions[an]
            params = dict(zip([pn for pn, _ in a["params"]], args))
            for pre in a.get("pre", ()):
                rd(start, owner, pre, params)
            for e in a.get("eff", ()):
                wr(start, owner, e, params)
    for tm, e in ref.teffs:
        wr(abs_time(tm, Fraction(0), None), "timed", e, {})
    for iv, g in ref.tgoals:
        rd(abs_time(iv[0], Fraction(0), None), "timed", g, {})
        hi = abs_time(iv[1], Fraction(0), None)
        if hi is not None:
            rd(hi, "timed", g, {})

    for t in sorted(writes):
        ws = writes[t]
        rs = reads.get(t, {})
        owners = set(ws) | set(rs)
        for a in ws:
            for b in owners:
                if a == b:
                    continue
                common = ws[a] & (rs.get(b, set()) | ws.get(b, set()))
                if common:
                    return "t=%s %s writes %s touched by %s" % (t, a, sorted(common)[0], b)
    return None


def happening_times(ref, plan):
    """list (with repetitions across owners) of the instants at which some owner has an effect
    or a condition end-point; used only to tag plans with simultaneous happenings."""
    out = []
    for start, an, args, dur in plan:
        start = Fraction(start)
        mine = set()
        if an in ref.dactions:
            a = ref.dactions[an]
            dur = Fraction(dur)
            for tm, _e in a.get("effs", ()):
                mine.add(abs_time(tm, start, dur))
            for iv, _c in a.get("conds", ()):
                mine.add(abs_time(iv[0], start, dur))
                mine.add(abs_time(iv[1], start, dur))
        else:
            mine.add(start)
        out.extend(mine)
    timed = set()
    for tm, _e in ref.teffs:
        timed.add(abs_time(tm, Fraction(0), None))
    for iv, _g in ref.tgoals:
        timed.add(abs_time(iv[0], Fraction(0), None))
        hi = abs_time(iv[1], Fraction(0), None)
        if hi is not None:
            timed.add(hi)
    out.extend(timed)
    return out
