"""U-NAME: adversarial identifiers and renaming of problem specs (DESIGN 3.4)."""
from __future__ import annotations

from itertools import combinations, product

UNAME = [
    "a", "A", "a_0", "a_b", "b_c", "a-b", "a b", "1a", "_a", "at", "and", "object", "start", "?x",
    "é", "move", "move_a",
    # compiler-targeted: mangled forms of other names
    "a_a", "o1_o2", "a1_0", "a1_1", "not_b", "a3_o1", "b_0", "p_0",
]
SMALL = ["a", "a_a", "a_b", "A", "a1_0", "not_b"]

# renameable items of the U-PROB universe: (namespace, old name)
ITEMS = [
    ("obj", "o1"), ("obj", "o2"), ("obj", "s1"),
    ("act", "a1"), ("act", "a2"), ("act", "a3"),
    ("flu", "b"), ("flu", "p"), ("flu", "n"),
    ("par", "x"), ("par", "y"),
    ("typ", "T"), ("typ", "S"),
]


def rename_spec(ps, mp):
    """mp: {(namespace, old): new}.  Returns a renamed deep copy of the problem spec."""
    obj = {o: n for (ns, o), n in mp.items() if ns == "obj"}
    act = {o: n for (ns, o), n in mp.items() if ns == "act"}
    flu = {o: n for (ns, o), n in mp.items() if ns == "flu"}
    par = {o: n for (ns, o), n in mp.items() if ns == "par"}
    typ = {o: n for (ns, o), n in mp.items() if ns == "typ"}

    def ty(ts):
        if ts is None:
            return None
        ts = tuple(ts)
        if ts and ts[0] == "user":
            return ("user", typ.get(ts[1], ts[1]))
        return ts

    def ex(s):
        if not isinstance(s, tuple):
            return s
        if not s:
            return s
        t = s[0]
        if t == "o" and len(s) == 2:
            return ("o", obj.get(s[1], s[1]))
        if t == "p" and len(s) == 2:
            return ("p", par.get(s[1], s[1]))
        if t == "f":
            return ("f", flu.get(s[1], s[1])) + tuple(ex(a) for a in s[2:])
        if t == "v" and len(s) == 3:
            return ("v", s[1], typ.get(s[2], s[2]))
        if t in ("exists", "forall"):
            return (t, tuple((vn, typ.get(tn, tn)) for vn, tn in s[1]), ex(s[2]))
        return tuple(ex(a) if isinstance(a, tuple) else a for a in s)

    def eff(e):
        kind, fl, val, cond, fa = e
        return (kind, ex(fl), ex(val), None if cond is None else ex(cond), tuple((vn, typ.get(tn, tn)) for vn, tn in fa))

    out = dict(ps)
    out["types"] = tuple((typ.get(n, n), None if f is None else typ.get(f, f)) for n, f in ps.get("types", ()))
    out["objects"] = tuple((obj.get(n, n), typ.get(t, t)) for n, t in ps.get("objects", ()))
    out["fluents"] = tuple(
        (flu.get(n, n), ty(ts), tuple((pn, ty(pt)) for pn, pt in sig), None if d is None else ex(d))
        for n, ts, sig, d in ps.get("fluents", ())
    )
    acts = []
    for a in ps.get("actions", ()):
        acts.append(
            {
                "name": act.get(a["name"], a["name"]),
                "params": tuple((par.get(pn, pn), ty(pt)) for pn, pt in a["params"]),
                "pre": tuple(ex(x) for x in a.get("pre", ())),
                "eff": tuple(eff(e) for e in a.get("eff", ())),
            }
        )
    out["actions"] = tuple(acts)
    out["init"] = tuple((ex(f), ex(v)) for f, v in ps.get("init", ()))
    out["goals"] = tuple(ex(g) for g in ps.get("goals", ()))
    out["traj"] = tuple(ex(g) for g in ps.get("traj", ()))
    m = ps.get("metric")
    if m is not None:
        if m[0] == "costs":
            m = ("costs", tuple((act.get(an, an), ex(c)) for an, c in m[1]), None if m[2] is None else ex(m[2]))
        elif m[0] in ("minfinal", "maxfinal"):
            m = (m[0], ex(m[1]))
        elif m[0] == "over":
            m = ("over", tuple((ex(g), w) for g, w in m[1]))
    out["metric"] = m
    return out


def assignments(tier):
    """[(level, mapping)]: all single renamings over UNAME, and all pairs of items from one
    namespace group (objects / actions / fluents / object+action) over SMALL (thorough: UNAME)."""
    out = [(0, {})]
    for it in ITEMS:
        for nm in UNAME:
            out.append((1, {it: nm}))
    pool = SMALL if tier == "quick" else UNAME
    groups = [
        [i for i in ITEMS if i[0] == "obj"],
        [i for i in ITEMS if i[0] == "act"],
        [i for i in ITEMS if i[0] == "flu"],
    ]
    pairs = []
    for g in groups:
        pairs.extend(combinations(g, 2))
    pairs.extend((a, b) for a in groups[0][:2] for b in groups[1][:2] if tier != "quick" or True)
    for a, b in pairs:
        for na, nb in product(pool, pool):
            if na == nb and a[0] == b[0]:
                continue
            out.append((2, {a: na, b: nb}))
    # a clash of two joined grounding names (a3_o1(o1) / a3(o1,o1)) together with an item that already
    # carries the fresh name a compiler would pick to resolve it
    for it in [("flu", "b"), ("flu", "p"), ("obj", "s1"), ("typ", "S"), ("act", "a2")]:
        for fresh in ("a3_o1_o1_0", "a3_o1_o1_1"):
            out.append((2, {("act", "a1"): "a3_o1", it: fresh}))
    return out


def label(mp):
    return ",".join("%s.%s=%s" % (ns, o, n) for (ns, o), n in sorted(mp.items())) or "plain"
