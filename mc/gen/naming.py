"""U-NAME (DESIGN 3.4): adversarial identifiers and a spec-level renamer.

A name assignment is a tuple of ((namespace, item), new_name); namespaces:
  "type" item=type name; "object" item=object name; "fluent" item=fluent name;
  "action" item=action name; "param" item=(action name, parameter name);
  "fparam" item=(fluent name, parameter name); "var" item=variable name.
`rename_spec(ps, assign)` returns a new spec with those items renamed everywhere.
"""
from __future__ import annotations

from itertools import combinations, product

U_NAME = [
    "a", "A", "a_0", "a_b", "b_c", "a-b", "a b", "1a", "_a", "at", "and", "object",
    "start", "?x", "é", "move", "move_a",
]


def _maps(assign):
    m = {"type": {}, "object": {}, "fluent": {}, "action": {}, "param": {}, "fparam": {}, "var": {}}
    for (ns, item), new in assign:
        if isinstance(item, list):
            item = tuple(item)
        m[ns][item] = new
    return m


def rename_spec(ps, assign):
    m = _maps(assign)
    T, O, F, A = m["type"], m["object"], m["fluent"], m["action"]

    def ts(t):
        t = tuple(t)
        if t[0] == "user":
            return ("user", T.get(t[1], t[1]))
        return t

    def vs(vl):
        return tuple((m["var"].get(vn, vn), T.get(tn, tn)) for vn, tn in vl)

    def ex(s, act=None):
        if s is None:
            return None
        t = s[0]
        if t in ("b", "i", "r"):
            return s
        if t == "f":
            return ("f", F.get(s[1], s[1])) + tuple(ex(a, act) for a in s[2:])
        if t == "o":
            return ("o", O.get(s[1], s[1]))
        if t == "p":
            return ("p", m["param"].get((act, s[1]), s[1]))
        if t == "v":
            return ("v", m["var"].get(s[1], s[1]), T.get(s[2], s[2]))
        if t in ("exists", "forall"):
            return (t, vs(s[1]), ex(s[2], act))
        if t == "ifun":
            return ("ifun", s[1]) + tuple(ex(a, act) for a in s[2:])
        if t == "dot":
            return ("dot", s[1], ex(s[2], act))
        return (t,) + tuple(ex(a, act) for a in s[1:])

    def eff(e, act=None):
        kind, fl, val, cond, fa = e
        return (kind, ex(fl, act), ex(val, act), ex(cond, act), vs(fa))

    out = dict(ps)
    out["types"] = tuple((T.get(n, n), None if f is None else T.get(f, f)) for n, f in ps.get("types", ()))
    out["objects"] = tuple((O.get(n, n), T.get(t, t)) for n, t in ps.get("objects", ()))
    out["fluents"] = tuple(
        (
            F.get(n, n),
            ts(t),
            tuple((m["fparam"].get((n, pn), pn), ts(pt)) for pn, pt in sig),
            ex(d),
        )
        for n, t, sig, d in ps.get("fluents", ())
    )
    acts = []
    for a in ps.get("actions", ()):
        an = a["name"]
        acts.append(
            {
                "name": A.get(an, an),
                "params": tuple((m["param"].get((an, pn), pn), ts(pt)) for pn, pt in a["params"]),
                "pre": tuple(ex(x, an) for x in a.get("pre", ())),
                "eff": tuple(eff(e, an) for e in a.get("eff", ())),
            }
        )
    out["actions"] = tuple(acts)
    das = []
    for a in ps.get("dactions", ()):
        an = a["name"]
        lo, hi, lop, rop = a["dur"]
        das.append(
            {
                "name": A.get(an, an),
                "params": tuple((m["param"].get((an, pn), pn), ts(pt)) for pn, pt in a["params"]),
                "dur": (ex(lo, an), ex(hi, an), lop, rop),
                "conds": tuple((iv, ex(c, an)) for iv, c in a.get("conds", ())),
                "effs": tuple((tm, eff(e, an)) for tm, e in a.get("effs", ())),
            }
        )
    if das:
        out["dactions"] = tuple(das)
    if "teffs" in ps:
        out["teffs"] = tuple((tm, eff(e)) for tm, e in ps["teffs"])
    if "tgoals" in ps:
        out["tgoals"] = tuple((iv, ex(g)) for iv, g in ps["tgoals"])
    out["init"] = tuple((ex(fl), ex(v)) for fl, v in ps.get("init", ()))
    out["goals"] = tuple(ex(g) for g in ps.get("goals", ()))
    out["traj"] = tuple(ex(t) for t in ps.get("traj", ()))
    mt = ps.get("metric")
    if mt is not None:
        if mt[0] == "costs":
            mt = ("costs", tuple((A.get(an, an), ex(c, an)) for an, c in mt[1]), ex(mt[2]))
        elif mt[0] in ("minfinal", "maxfinal"):
            mt = (mt[0], ex(mt[1]))
        elif mt[0] == "over":
            mt = ("over", tuple((ex(g), w) for g, w in mt[1]))
    out["metric"] = mt
    return out


def assignments(items, names, level):
    """All assignments giving exactly `level` of `items` a name from `names`
    (an item never receives its own plain name)."""
    for combo in combinations(range(len(items)), level):
        for pick in product(range(len(names)), repeat=level):
            yield tuple((tuple(items[i]), names[j]) for i, j in zip(combo, pick))


def label(assign):
    def it(x):
        return ".".join(x) if isinstance(x, (tuple, list)) else str(x)

    return ",".join("%s:%s=%r" % (ns, it(item), new) for (ns, item), new in assign) or "plain"
