"""Projection of U-PROB (mc/gen/uprob.py) onto what PDDL / ANML can express, plus a small
temporal universe restricted to start/end timings and timed initial literals.

PDDL projection: object-valued fluent `r` and interpreted functions are dropped (instances
using them are outside the fragment), numeric fluents lose their bounds (PDDL numbers are
unbounded; a bounded type would change applicability in the reference semantics),
oversubscription metrics are out (no PDDL counterpart in the writer).
Extra effect alphabet for the IO checks (operand-order sensitive numerics, Boolean values
that only simplify to a constant) is appended to the action slots through `EXTRA_EFF`.
"""
from __future__ import annotations

from itertools import combinations, product

from . import uprob
from .uprob import b, n, m, p, c, I, NOT, eff, TRUE, FALSE, o1, o2, T

# additional effect choices (appended after the U-PROB pool of slot a1.eff2 / a2.eff2)
def extra_eff(X):
    return [
        ((eff("assign", n, ("-", n, ("+", c(X), I(1)))),), 1),       # n := n - (c(x)+1)   operand order
        ((eff("assign", m, ("/", ("-", m, I(3)), I(4))),), 1),        # m := (m-3)/4
        ((eff("inc", m, ("r", 5, 4)),), 1),                           # finite decimal 1.25
        ((eff("assign", m, ("-", I(1), ("-", I(2), n))),), 0),        # nested minus
        ((eff("assign", n, ("*", I(2), ("+", n, I(1)), c(X))),), 0),  # 3-ary times
        ((eff("assign", b, ("le", I(2), I(1))),), 1),                 # value simplifies to false
        ((eff("assign", b, ("lt", n, c(X))),), 0),                    # numeric-valued Boolean assignment
        ((eff("dec", n, ("-", c(X), n)),), 0),
        ((eff("assign", e2(o2, X), TRUE),), 1),                       # binary predicate: argument order
        ((eff("assign", e2(X, uprob.vT), TRUE, p(uprob.vT), uprob.VT),), 0),
    ]


def e2(x, y):
    return ("f", "e", x, y)


def extra_cond(X):
    return [
        (("lt", ("-", n, c(X)), I(1)), 1),
        (("le", I(1), ("-", I(3), n)), 1),
        (("eq", ("+", n, I(1)), ("*", I(2), c(X))), 0),
        (("le", ("/", m, I(2)), ("r", 1, 4)), 0),
        (("iff", b, p(X)), 0),
        (e2(X, o2), 1),                            # binary predicate: argument order
        (NOT(e2(o1, X)), 0),
        (("le", n, I(0)), 1),                      # boundary: true exactly at the initial value
        (("lt", n, ("+", c(X), I(1))), 0),         # boundary for c(x)=0
    ]


EXTRA_SLOTS = [("a1.eff2", "eff", 0), ("a2.eff2", "eff", 1), ("a1.pre1", "cond", 0), ("a3.pre1", "cond", 2)]

SLOTS = list(uprob.BASE_SLOTS) + ["metric"]


def pool(slot):
    pl = list(uprob.pool(slot))
    for sname, kind, ai in EXTRA_SLOTS:
        if sname == slot:
            X = uprob.ACTIONS[ai][2]
            pl = pl + (extra_eff(X) if kind == "eff" else extra_cond(X))
    return pl


def _mentions(x, pred):
    if isinstance(x, tuple):
        if x and pred(x):
            return True
        return any(_mentions(y, pred) for y in x)
    if isinstance(x, dict):
        return any(_mentions(y, pred) for y in x.values())
    return False


def make(choices, keep_bounds=False, keep_r=False):
    """choices: {slot: index into pool(slot)} -> spec or None (outside the fragment)."""
    base = {}
    extra = {}
    if "undef" in choices and not keep_r and uprob.UNDEF_POOL[choices["undef"]][0] != "m":
        return None  # PDDL is closed-world for predicates; `r` is not in the fragment
    for s, i in choices.items():
        if i < len(uprob.pool(s)):
            base[s] = i
        else:
            extra[s] = pool(s)[i][0]
    ps = uprob.make(base)
    if extra:
        acts = []
        for a in ps["actions"]:
            a = dict(a)
            for s, val in extra.items():
                an, what = s.split(".")
                if an != a["name"]:
                    continue
                if what.startswith("pre"):
                    a["pre"] = a["pre"] + (val,)
                else:
                    a["eff"] = a["eff"] + tuple(val)
            acts.append(a)
        ps["actions"] = tuple(acts)
    body = {k: v for k, v in ps.items() if k not in ("fluents", "ifuns", "types", "objects", "name")}
    if _mentions(body, lambda t: t[0] == "ifun"):
        return None
    if not keep_r and _mentions(body, lambda t: t[0] == "f" and len(t) > 1 and t[1] == "r"):
        return None
    if ps.get("metric") is not None and ps["metric"][0] == "over":
        return None
    mt = ps.get("metric")
    if mt is not None and mt[0] == "costs" and mt[2] is None and {a for a, _c in mt[1]} != {a["name"] for a in ps["actions"]}:
        return None  # an action without cost and no default: "cost is not set" (UPUsageError in UP itself)
    fl = []
    for name, ts, sig, d in ps["fluents"]:
        if name == "r" and not keep_r:
            continue
        if not keep_bounds and ts[0] in ("int", "real"):
            ts = (ts[0], None, None)
        fl.append((name, ts, sig, d))
    # a binary predicate (U-PROB has only unary fluents): argument order matters in IO
    fl.append(("e", ("bool",), (("x", T), ("y", T)), FALSE))
    ps["fluents"] = tuple(fl)
    ps["init"] = tuple(ps["init"]) + ((e2(o1, o2), TRUE),)
    ps["ifuns"] = ()
    return ps


def with_preconditions(ps):
    """Same problem with the ground static literal st(o1) (true, never written) as
    precondition of every action that has none - another member of the fragment, used for the
    AI-planning parser, which cannot parse an action without :precondition."""
    out = dict(ps)
    out["actions"] = tuple(
        dict(a, pre=(uprob.st(uprob.o1),)) if not a.get("pre") else a for a in ps["actions"]
    )
    return out


def instances(level, slots=None, core_only=False, **kw):
    slots = list(slots if slots is not None else SLOTS)
    for combo in combinations(slots, level):
        idxs = []
        for sname in combo:
            pl = pool(sname)
            idxs.append([i for i, (_x, core) in enumerate(pl) if core or not core_only])
        for pick in product(*idxs):
            cid = tuple(zip(combo, pick))
            ps = make(dict(cid), **kw)
            if ps is not None:
                yield cid, ps


def label(cid):
    return ",".join("%s#%d" % (s, i) for s, i in cid) or "base"


# ------------------------------------------------------------------ temporal universe
START, END = ("start", 0), ("end", 0)
AT_START = (START, START, False, False)
AT_END = (END, END, False, False)
OVER_ALL_OPEN = (START, END, True, True)
OVER_ALL_CLOSED = (START, END, False, False)
OVER_LOPEN = (START, END, True, False)
OVER_ROPEN = (START, END, False, True)
X = ("p", "x")

DUR_POOL = [
    ((I(2), I(2), False, False), 1),  # default index 0
    ((I(1), I(3), False, False), 1),
    ((I(1), I(3), True, False), 1),
    ((I(1), I(3), False, True), 1),
    ((I(1), I(3), True, True), 0),
    ((("r", 1, 2), ("r", 5, 2), False, False), 1),
    ((("+", c(X), I(1)), ("+", c(X), I(2)), False, False), 1),
    ((c(X), c(X), False, False), 0),
]
TCOND_POOL = [
    ((AT_START, p(X)), 1),
    ((AT_END, b), 1),
    ((OVER_ALL_OPEN, NOT(b)), 1),
    ((OVER_ALL_CLOSED, p(X)), 1),
    ((OVER_LOPEN, p(X)), 0),
    ((OVER_ROPEN, p(X)), 0),
    ((AT_START, ("lt", n, I(2))), 1),
    ((AT_END, ("exists", uprob.VT, p(uprob.vT))), 0),
    ((AT_START, ("or", b, NOT(p(X)))), 0),
]
TEFF_POOL = [
    ((START, eff("assign", p(X), FALSE)), 1),
    ((END, eff("assign", b, TRUE)), 1),
    ((START, eff("inc", n, I(1))), 1),
    ((END, eff("dec", n, c(X))), 1),
    ((END, eff("assign", b, TRUE, p(X))), 1),
    ((START, eff("assign", n, I(2), NOT(b))), 0),
    ((END, eff("assign", p(uprob.vT), FALSE, None, uprob.VT)), 1),
    ((END, eff("assign", n, ("-", n, ("+", c(X), I(1))))), 0),
]
TIL_POOL = [
    (((("gstart", 1), eff("assign", b, TRUE)),), 1),
    (((("gstart", (5, 2)), eff("assign", p(o2), TRUE)),), 1),
    (((("gstart", 2), eff("assign", b, FALSE)),), 0),
    (((("gstart", 1), eff("assign", n, I(2))),), 1),
    (((("gstart", 3), eff("inc", n, I(1))),), 0),
    (((("gstart", 1), eff("assign", b, TRUE)), (("gstart", 2), eff("assign", b, FALSE))), 0),
]
T_SLOTS = ["d1.dur", "d1.cond1", "d1.cond2", "d1.eff1", "d1.eff2", "til", "goal", "init"]

# intermediate timings / timed goals: expressible in ANML only (appended AFTER the PDDL pools so
# that the PDDL indices stay stable)
S1, E1 = ("start", 1), ("end", -1)
SH = ("start", (1, 2))
ANML_TCOND = [
    (((S1, S1, False, False), p(X)), 1),
    (((S1, END, False, False), NOT(b)), 1),
    (((START, E1, False, True), p(X)), 1),
    (((SH, E1, True, False), ("lt", n, I(3))), 0),
    (((E1, E1, False, False), b), 0),
]
ANML_TEFF = [
    ((S1, eff("assign", b, TRUE)), 1),
    ((E1, eff("assign", p(X), FALSE)), 1),
    ((SH, eff("inc", n, I(1))), 1),
    ((E1, eff("assign", b, TRUE, p(X))), 0),
    ((S1, eff("assign", p(uprob.vT), FALSE, None, uprob.VT)), 0),
]
G1, G2, GE = ("gstart", 1), ("gstart", 2), ("gend", 0)
TGOAL_POOL = [
    ((((G1, G2, False, False), b),), 1),
    ((((G1, G2, True, False), p(o1)),), 1),
    ((((G2, G2, False, False), NOT(b)),), 1),
    ((((G1, GE, False, False), p(o2)),), 0),
    ((((("gstart", 0), GE, False, False), ("or", NOT(b), p(o1))),), 1),
]
ANML_T_SLOTS = T_SLOTS + ["tgoal"]
PDDL_T_SLOTS = T_SLOTS + ["metric"]


def t_pool(slot, anml=False):
    if slot == "d1.dur":
        return DUR_POOL[1:]
    if slot.startswith("d1.cond"):
        return TCOND_POOL + (ANML_TCOND if anml else [])
    if slot.startswith("d1.eff"):
        return TEFF_POOL + (ANML_TEFF if anml else [])
    if slot == "til":
        return TIL_POOL
    if slot == "tgoal":
        return TGOAL_POOL
    return uprob.pool(slot)


def t_make(choices, keep_bounds=False, keep_r=False):
    """Temporal instance: U-PROB base (PDDL projection) + durative action d1(x:T) with
    default `duration 2; at end p(x):=T` + d2() `duration 1; at start b:=T`."""
    base = {s: i for s, i in choices.items() if s in uprob.SLOT_NAMES}
    ps = make(base, keep_bounds=keep_bounds, keep_r=keep_r)
    if ps is None:
        return None
    ch = {s: t_pool(s, anml=True)[i][0] for s, i in choices.items() if s not in uprob.SLOT_NAMES}
    d1 = {
        "name": "d1",
        "params": (("x", T),),
        "dur": ch.get("d1.dur", DUR_POOL[0][0]),
        "conds": tuple(ch[s] for s in ("d1.cond1", "d1.cond2") if s in ch),
        "effs": ((END, eff("assign", p(X), TRUE)),) + tuple(ch[s] for s in ("d1.eff1", "d1.eff2") if s in ch),
    }
    d2 = {
        "name": "d2",
        "params": (),
        "dur": (I(1), I(1), False, False),
        "conds": (),
        "effs": ((START, eff("assign", b, TRUE)),),
    }
    ps["dactions"] = (d1, d2)
    mt = ps.get("metric")
    if mt is not None and mt[0] == "costs" and mt[2] is None:
        return None  # d1/d2 would have no cost set
    if "til" in ch:
        ps["teffs"] = tuple(ch["til"])
    if "tgoal" in ch:
        ps["tgoals"] = tuple(ch["tgoal"])
    return ps


def t_instances(level, core_only=False, anml=False, **kw):
    for combo in combinations(ANML_T_SLOTS if anml else PDDL_T_SLOTS, level):
        idxs = []
        for sname in combo:
            pl = t_pool(sname, anml)
            idxs.append([i for i, (_x, core) in enumerate(pl) if core or not core_only])
        for pick in product(*idxs):
            cid = tuple(zip(combo, pick))
            ps = t_make(dict(cid), **kw)
            if ps is not None:
                yield cid, ps
