"""Problem specs <-> real unified_planning Problems.

Problem spec (dict of tuples; JSON-able through spec.tj / spec.fj):
  name     str
  types    ((name, father|None), ...)                 fathers first
  objects  ((name, tname), ...)
  fluents  ((name, typespec, ((pname, ptypespec), ...), default_const_spec|None), ...)
  ifuns    ((name, rettypespec, (argtypespec, ...), key), ...)   key -> IFUNS registry
  actions  ({"name", "params": ((pname, typespec), ...), "pre": (expr, ...),
             "eff": (effspec, ...)}, ...)
  effspec  (kind, fluentexp, valueexp, cond|None, ((vname, tname), ...))   kind: assign|inc|dec
  init     ((ground fluentexp, const), ...)
  goals    (expr, ...)
  traj     (trajectory-constraint expr, ...)          always(x) are the state invariants
  metric   None | ("len",) | ("costs", ((aname, expr), ...), default|None)
           | ("minfinal", expr) | ("maxfinal", expr) | ("over", ((goalexpr, gain), ...))
           gain: int | (num, den)
Temporal part (optional keys, see gen/temporal.py): dactions, teffs, tgoals.
"""
from __future__ import annotations

from collections import OrderedDict
from fractions import Fraction

import unified_planning as up
from unified_planning.model.effect import EffectKind

from .spec import Ctx, fresh_env, to_spec, frac

# interpreted functions available to specs (pure, total on their domains)
IFUNS = {
    "sqm1": lambda z: z * z - 1,  # F(int) -> int
    "isodd": lambda z: (z % 2) == 1,  # G(int) -> bool
    "inc1": lambda z: z + 1,
}


def type_to_spec(t):
    if t.is_bool_type():
        return ("bool",)
    if t.is_int_type():
        return ("int", t.lower_bound, t.upper_bound)
    if t.is_real_type():
        lo, hi = t.lower_bound, t.upper_bound
        return (
            "real",
            None if lo is None else (lo.numerator, lo.denominator),
            None if hi is None else (hi.numerator, hi.denominator),
        )
    if t.is_user_type():
        return ("user", t.name)
    return ("?", str(t))


def build_problem(ps, env=None, set_global=True):
    """spec -> (Problem, Ctx) in a fresh environment."""
    if env is None:
        env = fresh_env(set_global)
    c = Ctx(env)
    prob = up.model.Problem(ps.get("name", "P"), env)
    for name, father in ps.get("types", ()):
        c.utype(name, father)
    for name, tname in ps.get("objects", ()):
        prob.add_object(c.obj(name, tname))
    for name, rts, ats, key in ps.get("ifuns", ()):
        sig = OrderedDict(("a%d" % i, c.type(a)) for i, a in enumerate(ats))
        c.ifuns[name] = up.model.InterpretedFunction(name, c.type(rts), sig, IFUNS[key], env)
    for name, ts, sig, default in ps.get("fluents", ()):
        f = c.fluent(name, ts, sig)
        if default is None:
            prob.add_fluent(f)
        else:
            prob.add_fluent(f, default_initial_value=c.e(default))
    for a in ps.get("actions", ()):
        c.params = {}
        act = up.model.InstantaneousAction(
            a["name"], dict((pn, c.type(pt)) for pn, pt in a["params"]), env
        )
        for p in act.parameters:
            c.params[p.name] = p
        for pre in a.get("pre", ()):
            act.add_precondition(c.e(pre))
        for eff in a.get("eff", ()):
            add_effect(c, act, eff)
        prob.add_action(act)
        c.params = {}
    from . import temporal

    temporal.build_temporal(ps, prob, c)
    for fl, val in ps.get("init", ()):
        prob.set_initial_value(c.e(fl), c.e(val))
    for g in ps.get("goals", ()):
        prob.add_goal(c.e(g))
    for tc in ps.get("traj", ()):
        prob.add_trajectory_constraint(c.e(tc))
    m = ps.get("metric")
    if m is not None:
        prob.add_quality_metric(build_metric(c, prob, m))
    return prob, c


def add_effect(c, holder, eff, timing=None):
    kind, fl, val, cond, fa = eff
    kw = {}
    if cond is not None:
        kw["condition"] = c.e(cond)
    if fa:
        kw["forall"] = [c.var(n, tn) for n, tn in fa]
    fn = {"assign": "add_effect", "inc": "add_increase_effect", "dec": "add_decrease_effect"}[kind]
    if fn == "add_effect" and timing is not None and not hasattr(holder, "add_effect"):
        fn = "add_timed_effect"  # Problem-level timed effects
    if timing is None:
        getattr(holder, fn)(c.e(fl), c.e(val), **kw)
    else:
        getattr(holder, fn)(timing, c.e(fl), c.e(val), **kw)


def build_metric(c, prob, m):
    env = c.env
    k = m[0]
    if k == "len":
        return up.model.metrics.MinimizeSequentialPlanLength(env)
    if k == "costs":
        costs = {}
        for an, ce in m[1]:
            act = prob.action(an)
            c.params = {p.name: p for p in act.parameters}
            costs[act] = c.e(ce)
        c.params = {}
        default = None if m[2] is None else c.e(m[2])
        return up.model.metrics.MinimizeActionCosts(costs, default, env)
    if k == "minfinal":
        return up.model.metrics.MinimizeExpressionOnFinalState(c.e(m[1]), env)
    if k == "maxfinal":
        return up.model.metrics.MaximizeExpressionOnFinalState(c.e(m[1]), env)
    if k == "over":
        return up.model.metrics.Oversubscription(
            dict((c.e(g), frac(w)) for g, w in m[1]), env
        )
    raise ValueError(m)


# ------------------------------------------------------------------ extraction
_KIND = {
    EffectKind.ASSIGN: "assign",
    EffectKind.INCREASE: "inc",
    EffectKind.DECREASE: "dec",
}


def eff_to_spec(e):
    cond = None if not e.is_conditional() else to_spec(e.condition)
    return (
        _KIND.get(e.kind, str(e.kind)),
        to_spec(e.fluent),
        to_spec(e.value),
        cond,
        tuple((v.name, v.type.name) for v in e.forall),
    )


def metric_to_spec(m):
    if m.is_minimize_sequential_plan_length():
        return ("len",)
    if m.is_minimize_action_costs():
        costs = tuple((a.name, to_spec(cst)) for a, cst in m.costs.items())
        return ("costs", costs, None if m.default is None else to_spec(m.default))
    if m.is_minimize_expression_on_final_state():
        return ("minfinal", to_spec(m.expression))
    if m.is_maximize_expression_on_final_state():
        return ("maxfinal", to_spec(m.expression))
    if m.is_oversubscription():
        gs = []
        for g, w in m.goals.items():
            w = Fraction(w)
            gs.append((to_spec(g), (w.numerator, w.denominator) if w.denominator != 1 else int(w)))
        return ("over", tuple(gs))
    return ("?", str(m))


def problem_to_spec(prob):
    """real Problem -> spec through public accessors (instantaneous part + temporal part)."""
    types = []
    seen = set()

    def add_t(t):
        if t.name in seen:
            return
        if t.father is not None:
            add_t(t.father)
        seen.add(t.name)
        types.append((t.name, None if t.father is None else t.father.name))

    for t in prob.user_types:
        add_t(t)
    ps = {"name": prob.name, "types": tuple(types)}
    ps["objects"] = tuple((o.name, o.type.name) for o in prob.all_objects)
    defaults = prob.fluents_defaults
    fl = []
    for f in prob.fluents:
        d = defaults.get(f)
        fl.append(
            (
                f.name,
                type_to_spec(f.type),
                tuple((p.name, type_to_spec(p.type)) for p in f.signature),
                None if d is None else to_spec(d),
            )
        )
    ps["fluents"] = tuple(fl)
    acts = []
    unsupported = []
    for a in prob.actions:
        if isinstance(a, up.model.InstantaneousAction):
            if a.simulated_effect is not None:
                unsupported.append("simulated_effect:" + a.name)
            acts.append(
                {
                    "name": a.name,
                    "params": tuple((p.name, type_to_spec(p.type)) for p in a.parameters),
                    "pre": tuple(to_spec(x) for x in a.preconditions),
                    "eff": tuple(eff_to_spec(e) for e in a.effects),
                }
            )
    ps["actions"] = tuple(acts)
    ps["init"] = tuple((to_spec(k), to_spec(v)) for k, v in prob.explicit_initial_values.items())
    ps["goals"] = tuple(to_spec(g) for g in prob.goals)
    ps["traj"] = tuple(to_spec(t) for t in prob.trajectory_constraints)
    ms = prob.quality_metrics
    ps["metric"] = metric_to_spec(ms[0]) if len(ms) == 1 else None
    if len(ms) > 1:
        unsupported.append("multiple metrics")
    from . import temporal

    temporal.extract_temporal(prob, ps)
    if unsupported:
        ps["unsupported"] = tuple(unsupported)
    return ps
