"""Plain-data specs (nested tuples, JSON-able) for expressions and problems, the builder that
turns them into real unified_planning objects in a FRESH environment, and the extractor
FNode -> spec.

Expression spec  (tuples; first item is the tag):
  ("b", True) ("i", 3) ("r", num, den)
  ("f", name, arg...)           fluent expression
  ("p", name)                   action parameter
  ("v", name, typename)         variable
  ("o", name)                   object
  ("and", ...) ("or", ...) ("not", x) ("implies", a, b) ("iff", a, b)
  ("exists", ((vname, tname), ...), body) ("forall", ((vname, tname), ...), body)
  ("eq", a, b) ("le", a, b) ("lt", a, b)
  ("+", ...) ("-", a, b) ("*", ...) ("/", a, b)
  ("ifun", name, arg...)        interpreted function
  ("always", x) ("sometime", x) ("amo", x) ("sb", a, b) ("sa", a, b)
  ("dot", agent, x)
Type spec: ("bool",) ("int", lo, hi) ("real", lo, hi) ("user", name)   lo/hi: None | int | (num, den)
"""
from __future__ import annotations

from fractions import Fraction

import unified_planning as up
import unified_planning.environment
from unified_planning.model.operators import OperatorKind as OK


def fresh_env(set_global=True):
    env = up.environment.Environment()
    if set_global:
        up.environment.GLOBAL_ENVIRONMENT = env
    return env


def frac(x):
    if x is None:
        return None
    if isinstance(x, (tuple, list)):
        return Fraction(x[0], x[1])
    return x


def tj(x):
    """spec -> JSON-able (tuples become lists)."""
    if isinstance(x, (tuple, list)):
        return [tj(y) for y in x]
    if isinstance(x, dict):
        return {str(k): tj(v) for k, v in x.items()}
    if isinstance(x, Fraction):
        return ["frac", x.numerator, x.denominator]
    return x


def fj(x):
    """JSON -> spec (lists become tuples)."""
    if isinstance(x, list):
        return tuple(fj(y) for y in x)
    if isinstance(x, dict):
        return {k: fj(v) for k, v in x.items()}
    return x


class Ctx:
    """Name -> UP object tables for one environment."""

    def __init__(self, env=None):
        self.env = env if env is not None else fresh_env()
        self.em = self.env.expression_manager
        self.tm = self.env.type_manager
        self.types = {}
        self.objects = {}
        self.fluents = {}
        self.params = {}
        self.vars = {}
        self.ifuns = {}

    # -- types ---------------------------------------------------------------------
    def utype(self, name, father=None):
        if name not in self.types:
            f = self.types[father] if father is not None else None
            self.types[name] = self.tm.UserType(name, f)
        return self.types[name]

    def type(self, ts):
        ts = tuple(ts)
        k = ts[0]
        if k == "bool":
            return self.tm.BoolType()
        if k == "int":
            return self.tm.IntType(frac(ts[1]), frac(ts[2]))
        if k == "real":
            lo, hi = frac(ts[1]), frac(ts[2])
            return self.tm.RealType(
                None if lo is None else Fraction(lo), None if hi is None else Fraction(hi)
            )
        if k == "user":
            return self.types[ts[1]]
        raise ValueError(ts)

    def obj(self, name, tname):
        if name not in self.objects:
            self.objects[name] = up.model.Object(name, self.types[tname], self.env)
        return self.objects[name]

    def fluent(self, name, ts, sig=()):
        if name not in self.fluents:
            params = [up.model.Parameter(pn, self.type(pt), self.env) for pn, pt in sig]
            self.fluents[name] = up.model.Fluent(name, self.type(ts), params, self.env)
        return self.fluents[name]

    def param(self, name, ts):
        key = name
        if key not in self.params:
            self.params[key] = up.model.Parameter(name, self.type(ts), self.env)
        return self.params[key]

    def var(self, name, tname):
        key = (name, tname)
        if key not in self.vars:
            self.vars[key] = up.model.Variable(name, self.types[tname], self.env)
        return self.vars[key]

    # -- expressions ---------------------------------------------------------------
    def e(self, s):
        em = self.em
        t = s[0]
        if t == "b":
            return em.TRUE() if s[1] else em.FALSE()
        if t == "i":
            return em.Int(s[1])
        if t == "r":
            return em.Real(Fraction(s[1], s[2]))
        if t == "f":
            return em.FluentExp(self.fluents[s[1]], tuple(self.e(a) for a in s[2:]))
        if t == "p":
            return em.ParameterExp(self.params[s[1]])
        if t == "v":
            return em.VariableExp(self.var(s[1], s[2]))
        if t == "o":
            return em.ObjectExp(self.objects[s[1]])
        if t == "and":
            return em.And(*[self.e(a) for a in s[1:]])
        if t == "or":
            return em.Or(*[self.e(a) for a in s[1:]])
        if t == "not":
            return em.Not(self.e(s[1]))
        if t == "implies":
            return em.Implies(self.e(s[1]), self.e(s[2]))
        if t == "iff":
            return em.Iff(self.e(s[1]), self.e(s[2]))
        if t == "exists":
            return em.Exists(self.e(s[2]), *[self.var(n, tn) for n, tn in s[1]])
        if t == "forall":
            return em.Forall(self.e(s[2]), *[self.var(n, tn) for n, tn in s[1]])
        if t == "eq":
            return em.Equals(self.e(s[1]), self.e(s[2]))
        if t == "le":
            return em.LE(self.e(s[1]), self.e(s[2]))
        if t == "lt":
            return em.LT(self.e(s[1]), self.e(s[2]))
        if t == "+":
            return em.Plus(*[self.e(a) for a in s[1:]])
        if t == "-":
            return em.Minus(self.e(s[1]), self.e(s[2]))
        if t == "*":
            return em.Times(*[self.e(a) for a in s[1:]])
        if t == "/":
            return em.Div(self.e(s[1]), self.e(s[2]))
        if t == "ifun":
            return em.InterpretedFunctionExp(self.ifuns[s[1]], tuple(self.e(a) for a in s[2:]))
        if t == "always":
            return em.Always(self.e(s[1]))
        if t == "sometime":
            return em.Sometime(self.e(s[1]))
        if t == "amo":
            return em.AtMostOnce(self.e(s[1]))
        if t == "sb":
            return em.SometimeBefore(self.e(s[1]), self.e(s[2]))
        if t == "sa":
            return em.SometimeAfter(self.e(s[1]), self.e(s[2]))
        if t == "dot":
            return em.Dot(s[1], self.e(s[2]))
        raise ValueError("bad spec %r" % (s,))


_NARY = {OK.AND: "and", OK.OR: "or", OK.PLUS: "+", OK.TIMES: "*"}
_BIN = {
    OK.IMPLIES: "implies",
    OK.IFF: "iff",
    OK.EQUALS: "eq",
    OK.LE: "le",
    OK.LT: "lt",
    OK.MINUS: "-",
    OK.DIV: "/",
    OK.SOMETIME_BEFORE: "sb",
    OK.SOMETIME_AFTER: "sa",
}
_UN = {OK.NOT: "not", OK.ALWAYS: "always", OK.SOMETIME: "sometime", OK.AT_MOST_ONCE: "amo"}


def to_spec(n):
    """FNode -> spec, through the public accessors only."""
    nt = n.node_type
    if nt == OK.BOOL_CONSTANT:
        return ("b", bool(n.constant_value()))
    if nt == OK.INT_CONSTANT:
        return ("i", int(n.constant_value()))
    if nt == OK.REAL_CONSTANT:
        v = n.constant_value()
        return ("r", v.numerator, v.denominator)
    if nt == OK.FLUENT_EXP:
        return ("f", n.fluent().name) + tuple(to_spec(a) for a in n.args)
    if nt == OK.PARAM_EXP:
        return ("p", n.parameter().name)
    if nt == OK.VARIABLE_EXP:
        return ("v", n.variable().name, n.variable().type.name)
    if nt == OK.OBJECT_EXP:
        return ("o", n.object().name)
    if nt in _NARY:
        return (_NARY[nt],) + tuple(to_spec(a) for a in n.args)
    if nt in _BIN:
        return (_BIN[nt], to_spec(n.arg(0)), to_spec(n.arg(1)))
    if nt in _UN:
        return (_UN[nt], to_spec(n.arg(0)))
    if nt in (OK.EXISTS, OK.FORALL):
        vs = tuple((v.name, v.type.name) for v in n.variables())
        return ("exists" if nt == OK.EXISTS else "forall", vs, to_spec(n.arg(0)))
    if nt == OK.INTERPRETED_FUNCTION_EXP:
        return ("ifun", n.interpreted_function().name) + tuple(to_spec(a) for a in n.args)
    if nt == OK.DOT:
        return ("dot", n.agent(), to_spec(n.arg(0)))
    if nt == OK.TIMING_EXP:
        return ("timing", str(n.timing()))
    return ("?", str(n))
