"""U-TEMP-lite: a small slot grammar of temporal problems (durative actions with every duration
form incl. fluent-dependent bounds, intermediate/external conditions and effects, continuous
effects, timed effects, timed goals, makespan / temporal-oversubscription metrics).

Same interface as mc.gen.uprob: `pool(slot)`, `make(choices)`, `instances(level, core_only)`,
`case_ids(tier)`, plus `build(ps)` (spec -> (Problem, Ctx); wraps gen.problem.build_problem and
adds what the shared spec builder has no syntax for: continuous effects and temporal metrics).

Extra spec keys (handled here only):
  dactions[i]["ceffs"] = ((interval, "inc"|"dec", fluentexp, rhs), ...)
  "tmetric" = ("makespan",) | ("tover", ((interval, goalexpr, gain), ...))
"""
from __future__ import annotations

from itertools import combinations, product

import unified_planning as up

from . import problem as gp
from .temporal import mk_interval, mk_timing
from .spec import frac
from .uprob import T, S, B, b, n, m, p, st, c, r, q, I, NOT, eff, TRUE, FALSE, o1, o2, s1, vT, VT

X = ("p", "x")
START, END = ("start", 0), ("end", 0)


def at(t):
    return (t, t, False, False)


def iv(lo, hi, lop=False, rop=False):
    return (lo, hi, lop, rop)


HALF = ("r", 1, 2)

DUR_POOL = [
    ((I(1), I(3), False, False), 1),
    ((I(1), I(3), True, False), 1),
    ((I(1), I(3), False, True), 0),
    ((I(1), I(3), True, True), 0),
    ((("+", n, I(1)), ("+", n, I(2)), False, False), 1),
    ((c(X), c(X), False, False), 1),  # static fluent, parameter-dependent
    ((HALF, ("r", 3, 2), False, False), 1),
    ((m, ("+", m, I(1)), False, False), 0),  # real non-static fluent
    ((c(X), I(3), False, False), 0),
    ((I(1), ("+", n, I(2)), True, False), 0),
]

INTERVALS = [
    (at(START), 1),
    (at(END), 1),
    (iv(START, END), 1),
    (iv(START, END, True, True), 1),
    (iv(START, END, True, False), 0),
    (iv(START, END, False, True), 0),
    (iv(("start", 1), END), 1),
    (iv(START, ("end", -1)), 0),
    (at(("start", 1)), 1),
    (at(("end", (-1, 2))), 0),
]

CONDS = [
    (b, 1),
    (NOT(b), 1),
    (("or", p(X), b), 1),
    (("implies", b, p(X)), 0),
    (("exists", VT, p(vT)), 1),
    (("forall", VT, p(vT)), 0),
    (("eq", X, o1), 1),
    (("le", n, I(1)), 1),
    (("eq", r(X), o2), 0),
    (("lt", c(X), ("+", n, I(1))), 0),
]

TIMINGS = [(START, 1), (END, 1), (("start", 1), 1), (("end", -1), 0), (("start", (1, 2)), 0)]

EFFS = [
    (eff("assign", b, TRUE), 1),
    (eff("assign", b, FALSE), 0),
    (eff("assign", b, p(X)), 1),
    (eff("assign", b, st(X)), 0),
    (eff("assign", p(X), TRUE, b), 1),
    (eff("assign", n, I(1)), 1),
    (eff("assign", n, I(1), NOT(b)), 0),
    (eff("inc", n, I(1)), 1),
    (eff("dec", n, I(1)), 0),
    (eff("inc", n, c(X)), 0),
    (eff("assign", m, n), 0),
    (eff("inc", m, HALF), 1),
    (eff("assign", p(vT), FALSE, None, VT), 1),
    (eff("assign", r(X), o2), 1),
    (eff("assign", r(X), r(o1)), 0),
]

CEFFS = [
    ((iv(START, END), "inc", m, I(1)), 1),
    ((iv(START, END, True, True), "dec", m, I(2)), 1),
    ((iv(START, END), "inc", m, n), 0),
    ((iv(("start", 1), END), "dec", m, HALF), 0),
]


def G(k):
    return ("gstart", k)


TEFF_POOL = [
    ((G(1), eff("assign", b, TRUE)), 1),
    ((G(2), eff("assign", p(o1), FALSE)), 1),
    ((G(1), eff("assign", n, I(2))), 1),
    ((G((1, 2)), eff("inc", n, I(1))), 1),
    ((G(1), eff("dec", n, I(1))), 0),
    ((G(1), eff("assign", p(o1), TRUE, b)), 1),
    ((G(1), eff("assign", b, p(o2))), 0),
    ((G(1), eff("assign", b, st(o2))), 0),
    ((G(1), eff("assign", p(vT), FALSE, None, VT)), 0),
    ((G(3), eff("assign", r(o1), o2)), 0),
    ((G((10**20 + 1, 3)), eff("assign", m, ("r", 1, 3))), 0),
]

TGOAL_POOL = [
    ((iv(G(1), G(2)), b), 1),
    ((iv(G(1), G(2), True, False), NOT(b)), 1),
    ((at(G(2)), p(o1)), 1),
    ((iv(G(1), ("gend", 0)), ("or", b, p(o1))), 1),
    ((iv(G(1), G(2), False, True), ("exists", VT, p(vT))), 0),
    ((at(("gend", 0)), ("le", n, I(1))), 0),
    ((iv(G(1), G(2), True, True), ("eq", r(o1), o2)), 0),
    ((at(G(1)), ("forall", VT, ("implies", p(vT), st(vT)))), 0),
]

GOAL_POOL = [((b,), 1), ((p(o1), NOT(b)), 0), ((("eq", n, I(2)),), 0)]

TMETRIC_POOL = [
    (("makespan",), 1),
    (("tover", ((at(G(2)), b, 3), (iv(G(1), G(2)), NOT(p(o2)), (1, 2)))), 1),
    (("tover", ((iv(G(1), G(2), True, True), ("or", b, p(o1)), 2),)), 0),
]

INIT_POOL = [(((b, TRUE),), 1), (((n, I(2)),), 0), (((m, ("r", -7, 3)),), 0)]
UNDEF_POOL = [("b", 1), ("m", 0), ("r", 0)]

SLOTS = [
    ("d1.dur", "dur"),
    ("d1.cond1", "tcond"),
    ("d1.cond2", "tcond"),
    ("d1.eff1", "teff_a"),
    ("d1.eff2", "teff_a"),
    ("d1.ceff", "ceff"),
    ("d2.dur", "dur0"),
    ("teff", "teff"),
    ("tgoal", "tgoal"),
    ("goal", "goal"),
    ("tmetric", "tmetric"),
    ("init", "init"),
    ("undef", "undef"),
]
SLOT_NAMES = [s[0] for s in SLOTS]


def _tcond_pool():
    out = [((ivl, b), core) for ivl, core in INTERVALS]
    out += [((at(START), cnd), core) for cnd, core in CONDS[1:]]
    out += [((iv(START, END, True, False), NOT(p(X))), 0), ((at(("start", 1)), ("eq", X, o1)), 0)]
    return out


def _teff_a_pool():
    out = [((tm, EFFS[0][0]), core) for tm, core in TIMINGS]
    out += [((END, e), core) for e, core in EFFS[1:]]
    out += [((("start", 1), eff("inc", n, I(1))), 0), ((START, eff("assign", p(X), FALSE)), 1)]
    return out


def pool(slot):
    kind = dict(SLOTS)[slot]
    if kind == "dur":
        return DUR_POOL
    if kind == "dur0":
        return [x for x in DUR_POOL if "p" not in repr(x[0])]  # d2 has no parameter
    return {
        "tcond": _tcond_pool(),
        "teff_a": _teff_a_pool(),
        "ceff": CEFFS,
        "teff": TEFF_POOL,
        "tgoal": TGOAL_POOL,
        "goal": GOAL_POOL,
        "tmetric": TMETRIC_POOL,
        "init": INIT_POOL,
        "undef": UNDEF_POOL,
    }[kind]


def make(choices):
    ch = {s: pool(s)[i][0] for s, i in choices.items()}
    undef = ch.get("undef")
    fluents = [
        ("b", B, (), None if undef == "b" else FALSE),
        ("p", B, (("o", T),), FALSE),
        ("st", B, (("o", T),), FALSE),
        ("n", ("int", 0, 3), (), I(0)),
        ("c", ("int", 0, 2), (("o", T),), I(1)),
        ("m", ("real", None, None), (), None if undef == "m" else I(0)),
        ("r", T, (("o", T),), None if undef == "r" else o1),
    ]
    init = [(st(o1), TRUE), (c(o2), I(2))]
    if undef == "r":
        init.append((r(o2), o1))
    init.extend(ch.get("init", ()))
    d1 = {
        "name": "d1",
        "params": (("x", T),),
        "dur": ch.get("d1.dur", (I(2), I(2), False, False)),
        "conds": tuple(ch[s] for s in ("d1.cond1", "d1.cond2") if s in ch),
        "effs": ((END, eff("assign", p(X), TRUE)),) + tuple(ch[s] for s in ("d1.eff1", "d1.eff2") if s in ch),
        "ceffs": (ch["d1.ceff"],) if "d1.ceff" in ch else (),
    }
    d2 = {
        "name": "d2",
        "params": (),
        "dur": ch.get("d2.dur", (I(1), I(1), False, False)),
        "conds": ((at(START), p(o1)),),
        "effs": ((END, eff("assign", b, TRUE)),),
        "ceffs": (),
    }
    a1 = {"name": "a1", "params": (("x", T),), "pre": (), "eff": (eff("assign", p(X), TRUE),)}
    ps = {
        "name": "utemp",
        "types": (("T", None), ("S", "T")),
        "objects": (("o1", "T"), ("o2", "T"), ("s1", "S")),
        "fluents": tuple(fluents),
        "ifuns": (),
        "actions": (a1,),
        "dactions": (d1, d2),
        "init": tuple(init),
        "goals": ch.get("goal", (p(o1),)),
        "traj": (),
        "metric": None,
        "teffs": (ch["teff"],) if "teff" in ch else (),
        "tgoals": (ch["tgoal"],) if "tgoal" in ch else (),
        "tmetric": ch.get("tmetric"),
    }
    return ps


def build(ps):
    """spec -> (Problem, Ctx) in a fresh environment (adds continuous effects / temporal metrics)."""
    teffs = ps.get("teffs", ())
    if teffs:
        # gen.temporal.build_temporal calls Problem.add_effect, which does not exist for timed
        # ASSIGN effects (Problem.add_timed_effect) - timed effects are added here instead
        ps = dict(ps)
        ps["teffs"] = ()
    prob, ctx = gp.build_problem(ps)
    for tm_, e_ in teffs:
        kind, fl, val, cond, fa = e_
        kw = {}
        if cond is not None:
            kw["condition"] = ctx.e(cond)
        if fa:
            kw["forall"] = [ctx.var(vn, tn) for vn, tn in fa]
        fn = {"assign": prob.add_timed_effect, "inc": prob.add_increase_effect, "dec": prob.add_decrease_effect}[kind]
        fn(mk_timing(tm_), ctx.e(fl), ctx.e(val), **kw)
    for a in ps.get("dactions", ()):
        if not a.get("ceffs"):
            continue
        act = prob.action(a["name"])
        ctx.params = {pp.name: pp for pp in act.parameters}
        for ivl, kind, fl, rhs in a["ceffs"]:
            fn = act.add_increase_continuous_effect if kind == "inc" else act.add_decrease_continuous_effect
            fn(mk_interval(ivl), ctx.e(fl), ctx.e(rhs))
        ctx.params = {}
    tm = ps.get("tmetric")
    if tm is not None:
        if tm[0] == "makespan":
            prob.add_quality_metric(up.model.metrics.MinimizeMakespan(ctx.env))
        else:
            goals = {}
            for ivl, g, gain in tm[1]:
                goals[(mk_interval(ivl), ctx.e(g))] = frac(gain)
            prob.add_quality_metric(up.model.metrics.TemporalOversubscription(goals, ctx.env))
    return prob, ctx


def instances(level, core_only=False, slots=None):
    slots = list(slots if slots is not None else SLOT_NAMES)
    for combo in combinations(slots, level):
        idxs = []
        for sname in combo:
            pl = pool(sname)
            idxs.append([i for i, (_x, core) in enumerate(pl) if core or not core_only])
        for pick in product(*idxs):
            cid = tuple(zip(combo, pick))
            yield cid, make(dict(cid))


def plan(tier):
    if tier == "quick":
        return [(0, False), (1, False), (2, True)]
    return [(0, False), (1, False), (2, False)]


def case_ids(tier, slots=None):
    out = []
    for level, core_only in plan(tier):
        for cid, _ps in instances(level, core_only, slots):
            out.append((level, cid))
    return out
