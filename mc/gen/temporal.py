"""Temporal part of problem specs.

  timing    ("start"|"end"|"gstart"|"gend", delay)       delay: int | (num, den)
  interval  (timing_lo, timing_hi, left_open, right_open)
  dactions  ({"name", "params", "dur": (lo_expr, hi_expr, left_open, right_open),
              "conds": ((interval, expr), ...), "effs": ((timing, effspec), ...)}, ...)
  teffs     ((timing, effspec), ...)       problem timed effects (global timings)
  tgoals    ((interval, expr), ...)        problem timed goals
"""
from __future__ import annotations

from fractions import Fraction

import unified_planning as up
from unified_planning.model.timing import (
    Timing,
    Timepoint,
    TimepointKind,
    TimeInterval,
    DurationInterval,
)

from .spec import to_spec, frac

_TK = {
    "start": TimepointKind.START,
    "end": TimepointKind.END,
    "gstart": TimepointKind.GLOBAL_START,
    "gend": TimepointKind.GLOBAL_END,
}
_TKR = {v: k for k, v in _TK.items()}


def mk_timing(ts):
    return Timing(frac(ts[1]), Timepoint(_TK[ts[0]]))


def mk_interval(iv):
    return TimeInterval(mk_timing(iv[0]), mk_timing(iv[1]), bool(iv[2]), bool(iv[3]))


def timing_to_spec(t):
    d = t.delay
    if isinstance(d, Fraction) and d.denominator != 1:
        d = (d.numerator, d.denominator)
    else:
        d = int(d)
    return (_TKR[t.timepoint.kind], d)


def interval_to_spec(iv):
    return (
        timing_to_spec(iv.lower),
        timing_to_spec(iv.upper),
        bool(iv.is_left_open()),
        bool(iv.is_right_open()),
    )


def build_temporal(ps, prob, c):
    from .problem import add_effect

    env = c.env
    for a in ps.get("dactions", ()):
        c.params = {}
        act = up.model.DurativeAction(
            a["name"], dict((pn, c.type(pt)) for pn, pt in a["params"]), env
        )
        for p in act.parameters:
            c.params[p.name] = p
        lo, hi, lop, rop = a["dur"]
        act.set_duration_constraint(DurationInterval(c.e(lo), c.e(hi), bool(lop), bool(rop)))
        for iv, cond in a.get("conds", ()):
            act.add_condition(mk_interval(iv), c.e(cond))
        for tm, eff in a.get("effs", ()):
            add_effect(c, act, eff, mk_timing(tm))
        prob.add_action(act)
        c.params = {}
    for tm, eff in ps.get("teffs", ()):
        add_effect(c, prob, eff, mk_timing(tm))
    for iv, g in ps.get("tgoals", ()):
        prob.add_timed_goal(mk_interval(iv), c.e(g))


def extract_temporal(prob, ps):
    from .problem import eff_to_spec, type_to_spec

    das = []
    for a in prob.actions:
        if isinstance(a, up.model.DurativeAction):
            d = a.duration
            das.append(
                {
                    "name": a.name,
                    "params": tuple((p.name, type_to_spec(p.type)) for p in a.parameters),
                    "dur": (
                        to_spec(d.lower),
                        to_spec(d.upper),
                        bool(d.is_left_open()),
                        bool(d.is_right_open()),
                    ),
                    "conds": tuple(
                        (interval_to_spec(iv), to_spec(cnd))
                        for iv, cl in a.conditions.items()
                        for cnd in cl
                    ),
                    "effs": tuple(
                        (timing_to_spec(t), eff_to_spec(e))
                        for t, el in a.effects.items()
                        for e in el
                    ),
                }
            )
    if das:
        ps["dactions"] = tuple(das)
    te = tuple(
        (timing_to_spec(t), eff_to_spec(e)) for t, el in prob.timed_effects.items() for e in el
    )
    if te:
        ps["teffs"] = te
    tg = tuple(
        (interval_to_spec(iv), to_spec(g)) for iv, gl in prob.timed_goals.items() for g in gl
    )
    if tg:
        ps["tgoals"] = tg
