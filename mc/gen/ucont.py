"""U-CONF / U-CONT: slot grammars for conformant (C30) and contingent (C35) problems, the
builder spec -> ContingentProblem, and the brute-force treatment of initial constraints.

Shared universe: types T, S<T; objects o1:T, s1:S; Boolean fluents b, p(T), q(S)
(ground fluents b, p(o1), p(s1), q(s1)).

Initial constraints (spec level), literals are ground fluent specs or ("not", fluent):
  ("oneof", (lit, ...))   exactly one literal holds
  ("or", (lit, ...))      at least one literal holds
  ("unknown", fluent)     no restriction (the fluent is hidden)
A fluent is hidden iff it occurs in a constraint.

Problem spec extensions understood by `build_contingent` (on top of mc/gen/problem.py):
  "constraints"   tuple of the constraints above
  "type_defaults" ((typespec, const), ...)             ContingentProblem(initial_defaults=...)
  actions may carry "observe": (fluent expr, ...)      -> SensingAction
"""
from __future__ import annotations

from itertools import combinations, product

T, S, B = ("user", "T"), ("user", "S"), ("bool",)
b = ("f", "b")
TRUE, FALSE = ("b", True), ("b", False)
o1, s1 = ("o", "o1"), ("o", "s1")
vT, vS = ("v", "v", "T"), ("v", "w", "S")
VT, VS = (("v", "T"),), (("w", "S"),)


def p(x):
    return ("f", "p", x)


def q(x):
    return ("f", "q", x)


def NOT(x):
    return ("not", x)


def eff(fl, val, cond=None, fa=()):
    return ("assign", fl, val, cond, tuple(fa))


GROUND = (b, p(o1), p(s1), q(s1))  # ground fluent specs, fixed order
GKEYS = (("b",), ("p", "o1"), ("p", "s1"), ("q", "s1"))  # the same as reference state keys


def key_of(fl):
    return (fl[1],) + tuple(a[1] for a in fl[2:])


# ======================================================================================
# generic slot-grammar enumeration
# ======================================================================================
def ids(pools, level, core_only=False, slots=None):
    """pools: dict slot -> [(choice, is_core)]; all case ids with exactly `level` deviations."""
    names = list(slots if slots is not None else pools.keys())
    for combo in combinations(names, level):
        idxs = [[i for i, (_x, core) in enumerate(pools[s]) if core or not core_only] for s in combo]
        for pick in product(*idxs):
            yield tuple(zip(combo, pick))


def label(cid):
    return ",".join("%s#%d" % (s, i) for s, i in cid) or "base"


# ======================================================================================
# U-CONF (C30): Boolean conformant problems
# ======================================================================================
def conf_cond_pool(X):
    return [
        (b, 1),
        (NOT(b), 1),
        (p(X), 1),
        (NOT(p(X)), 0),
        (q(s1), 0),
        (("or", p(o1), b), 1),
        (NOT(("and", b, p(X))), 0),
        (("implies", b, p(X)), 0),
        (("exists", VT, p(vT)), 1),
        (("forall", VT, p(vT)), 0),
        (("exists", VS, ("and", q(vS), p(vS))), 0),
        (("eq", X, o1), 0),
        (("iff", b, p(X)), 0),
        (("or", NOT(b), NOT(p(s1))), 0),
    ]


def conf_eff_pool(X):
    return [
        ((eff(b, TRUE),), 0),
        ((eff(b, FALSE),), 1),
        ((eff(p(X), TRUE),), 0),
        ((eff(p(X), FALSE),), 1),
        ((eff(q(s1), TRUE),), 0),
        ((eff(p(X), TRUE, b),), 1),
        ((eff(p(X), TRUE, NOT(b)),), 0),
        ((eff(b, TRUE, p(X)),), 1),
        ((eff(b, FALSE, NOT(p(X))),), 0),
        ((eff(b, FALSE, q(s1)),), 0),
        ((eff(q(s1), TRUE, ("or", b, p(X))),), 1),
        ((eff(b, TRUE, ("exists", VT, p(vT))),), 0),
        ((eff(p(vT), FALSE, None, VT),), 1),
        ((eff(p(vT), TRUE, b, VT),), 0),
        ((eff(p(vT), FALSE, ("eq", vT, X), VT),), 0),
        ((eff(q(vS), TRUE, p(vS), VS),), 1),
        ((eff(p(X), FALSE, ("and", b, NOT(p(s1)))),), 0),
        ((eff(p(X), TRUE, b), eff(q(s1), TRUE, NOT(b))), 0),
        ((eff(q(s1), FALSE, NOT(p(X))),), 0),
    ]


CONF_GOALS = [
    ((p(o1),), 1),  # default
    ((b,), 1),
    ((p(o1), p(s1)), 1),
    ((NOT(b), p(s1)), 1),
    ((("forall", VT, p(vT)),), 0),
    ((("or", b, p(s1)),), 1),
    ((("exists", VT, p(vT)),), 0),
    ((q(s1),), 0),
    ((NOT(p(o1)),), 0),
]

CONF_ACTIONS = (("a1", (("x", T),), ("p", "x")), ("a2", (), o1))
CONF_SLOTS = [
    ("a1.pre", "cond", 0),
    ("a1.eff1", "eff", 0),  # default p(x):=T
    ("a1.eff2", "eff", 0),
    ("a2.pre", "cond", 1),
    ("a2.eff1", "eff", 1),  # default b:=T
    ("a2.eff2", "eff", 1),
    ("goal", "goal", None),
]


def _conf_pool(slot):
    name, kind, ai = next(s for s in CONF_SLOTS if s[0] == slot)
    if kind == "goal":
        return CONF_GOALS[1:]
    X = CONF_ACTIONS[ai][2]
    if kind == "cond":
        return conf_cond_pool(X)
    pl = conf_eff_pool(X)
    if slot == "a1.eff1":
        pl = [(None, 1)] + [x for x in pl if x[0] != (eff(p(X), TRUE),)]
    if slot == "a2.eff1":
        pl = [(None, 1)] + [x for x in pl if x[0] != (eff(b, TRUE),)]
    return pl


CONF_POOLS = {s[0]: _conf_pool(s[0]) for s in CONF_SLOTS}


def _hand_specs():
    """hand-written conformant problems with THREE nullary action schemas over the same fluents:
    a uniformly known literal is lost through a conditional effect on an unknown fluent, regained
    through another one, and then needed (all polarity variants of the unknown / the literal)."""
    out = []
    for u_name, u in (("b", b), ("not b", NOT(b))):
        for lost_val in (FALSE, TRUE):  # the literal p(s1) / not p(s1)
            keep_val = TRUE if lost_val == FALSE else FALSE
            need = p(s1) if keep_val == TRUE else NOT(p(s1))
            for forced in (True, False):
                acts = (
                    {"name": "lose", "params": (), "pre": (), "eff": (eff(q(s1), TRUE), eff(p(s1), lost_val, u))},
                    {"name": "regain", "params": (), "pre": (), "eff": (eff(p(s1), keep_val, u),)},
                    {"name": "use", "params": (), "pre": (need,) + ((q(s1),) if forced else ()), "eff": (eff(p(o1), TRUE),)},
                )
                ps = {
                    "name": "uconf-hand", "types": (("T", None), ("S", "T")), "objects": (("o1", "T"), ("s1", "S")),
                    "fluents": (("b", B, (), FALSE), ("p", B, (("o", T),), FALSE), ("q", B, (("o", S),), FALSE)),
                    "actions": acts, "init": (), "goals": (p(o1),), "traj": (), "metric": None,
                }
                out.append(("hand:lose-regain/%s/%s/%s" % (u_name, "p" if keep_val == TRUE else "not-p", "forced" if forced else "free"), ps))
    return out


def conf_make(choices):
    """choices: dict slot -> pool index -> problem spec (initial values are placeholders:
    every ground fluent false; the possible initial states are supplied separately)."""
    if "hand" in choices:
        return dict(HAND[choices["hand"]][1])
    ch = {s: CONF_POOLS[s][i][0] for s, i in choices.items()}
    acts = []
    for ai, (an, params, X) in enumerate(CONF_ACTIONS):
        pre, effs = [], []
        for sname, kind, sai in CONF_SLOTS:
            if sai != ai:
                continue
            if kind == "cond":
                if sname in ch:
                    pre.append(ch[sname])
            elif sname in ch:
                if ch[sname] is not None:
                    effs.extend(ch[sname])
            elif sname == "a1.eff1":
                effs.append(eff(p(X), TRUE))
            elif sname == "a2.eff1":
                effs.append(eff(b, TRUE))
        acts.append({"name": an, "params": params, "pre": tuple(pre), "eff": tuple(effs)})
    return {
        "name": "uconf",
        "types": (("T", None), ("S", "T")),
        "objects": (("o1", "T"), ("s1", "S")),
        "fluents": (("b", B, (), FALSE), ("p", B, (("o", T),), FALSE), ("q", B, (("o", S),), FALSE)),
        "actions": tuple(acts),
        "init": (),
        "goals": tuple(ch["goal"]) if "goal" in ch else CONF_GOALS[0][0],
        "traj": (),
        "metric": None,
    }


def conf_plan(tier):
    """[(level, core_only)]"""
    if tier == "quick":
        return [(0, False), (1, False), (2, True)]
    return [(0, False), (1, False), (2, False)]


def conf_case_ids(tier):
    out = []
    for level, core_only in conf_plan(tier):
        for cid in ids(CONF_POOLS, level, core_only):
            out.append((level, cid))
    return out


# ---- possible initial states ---------------------------------------------------------
UNCERTAIN = {  # name -> indices into GROUND of the uncertain ground fluents
    "U0": (0, 1, 2),
    "U1": (1, 2, 3),
    "U2": (0, 2, 3),
    "U3": (0, 1, 3),
}


def state_sets(unc, max_size=3):
    """ALL non-empty sets of <= max_size states over the uncertain ground fluents `unc`
    (indices into GROUND); the other ground fluents are false.  A state is a tuple of 4
    Booleans (GROUND order); a set is a sorted tuple of states."""
    sts = []
    for vals in product((False, True), repeat=len(unc)):
        st = [False] * len(GROUND)
        for i, v in zip(unc, vals):
            st[i] = v
        sts.append(tuple(st))
    out = []
    for r in range(1, max_size + 1):
        for combo in combinations(sts, r):
            out.append(tuple(combo))
    return out


def state_dict(st):
    return dict(zip(GKEYS, st))


# ======================================================================================
# initial constraints: brute-force semantics and synthesis
# ======================================================================================
def lit_atom(lit):
    return lit[1] if lit[0] == "not" else lit


def lit_holds(lit, assign):
    """assign: dict reference key -> bool"""
    if lit[0] == "not":
        return not assign[key_of(lit[1])]
    return assign[key_of(lit)]


def constraint_holds(c, assign):
    if c[0] == "unknown":
        return True
    n = sum(1 for lit in c[1] if lit_holds(lit, assign))
    return n == 1 if c[0] == "oneof" else n >= 1


def hidden_atoms(constraints):
    """ground fluent specs occurring in the constraints, in first-occurrence order."""
    out = []
    for c in constraints:
        lits = (c[1],) if c[0] == "unknown" else c[1]
        for lit in lits:
            a = lit_atom(lit)
            if a not in out:
                out.append(a)
    return out


def models(constraints):
    """Brute force: all assignments (dict key -> bool) to the hidden atoms satisfying every
    constraint."""
    atoms = hidden_atoms(constraints)
    out = []
    for vals in product((False, True), repeat=len(atoms)):
        assign = {key_of(a): v for a, v in zip(atoms, vals)}
        if all(constraint_holds(c, assign) for c in constraints):
            out.append(assign)
    return out


_SYNTH = {}


def synthesize(sigma):
    """sigma: tuple of full states (tuples over GROUND).  -> list of up to 2 alternative
    constraint tuples whose model set over the varying ground fluents is exactly sigma
    (constant fluents stay non-hidden with their explicit value), or [] if none with <= 3
    constraints exists in the candidate language.  Deterministic, memoised on the pattern."""
    varying = tuple(i for i in range(len(GROUND)) if len({st[i] for st in sigma}) > 1)
    target = frozenset(tuple(st[i] for i in varying) for st in sigma)
    key = (len(varying), target)
    if key not in _SYNTH:
        _SYNTH[key] = _synthesize_pattern(len(varying), target)
    out = []
    for cons in _SYNTH[key]:
        out.append(tuple(_rename(c, varying) for c in cons))
    return out


def _rename(c, varying):
    def lit(l):
        if isinstance(l, int):
            return GROUND[varying[l]]
        return ("not", GROUND[varying[l[1]]])

    if c[0] == "unknown":
        return ("unknown", GROUND[varying[c[1]]])
    return (c[0], tuple(lit(l) for l in c[1]))


def _synthesize_pattern(n, target):
    """abstract atoms 0..n-1; literal = int (positive) or ("not", int)."""
    if n == 0:
        return []
    cands = [("unknown", i) for i in range(n)]
    lits_sets = []
    for r in range(1, n + 1):
        for atoms in combinations(range(n), r):
            for signs in product((True, False), repeat=r):
                lits_sets.append(tuple(a if sg else ("not", a) for a, sg in zip(atoms, signs)))
    # positive-only literal sets first, then by size
    lits_sets.sort(key=lambda ls: (sum(1 for l in ls if not isinstance(l, int)), len(ls)))
    for ls in lits_sets:
        cands.append(("oneof", ls))
    for ls in lits_sets:
        cands.append(("or", ls))

    def holds(c, vals):
        if c[0] == "unknown":
            return True
        k = sum(1 for l in c[1] if (vals[l] if isinstance(l, int) else not vals[l[1]]))
        return k == 1 if c[0] == "oneof" else k >= 1

    def atoms_of(c):
        if c[0] == "unknown":
            return {c[1]}
        return {l if isinstance(l, int) else l[1] for l in c[1]}

    allvals = list(product((False, True), repeat=n))
    sat = [frozenset(v for v in allvals if holds(c, v)) for c in cands]
    found = []
    kinds_seen = set()
    for r in (1, 2, 3):
        for combo in combinations(range(len(cands)), r):
            cover = set()
            for i in combo:
                cover |= atoms_of(cands[i])
            if len(cover) != n:
                continue
            ms = sat[combo[0]]
            for i in combo[1:]:
                ms = ms & sat[i]
            if ms != target:
                continue
            # no redundant 'unknown' next to a constraint that already hides the atom
            cons = tuple(cands[i] for i in combo)
            kinds = frozenset(c[0] for c in cons)
            if kinds in kinds_seen:
                continue
            kinds_seen.add(kinds)
            found.append(cons)
            if len(found) >= 2:
                return found
        if found:
            return found
    return found


# ======================================================================================
# spec -> ContingentProblem
# ======================================================================================
def build_contingent(ps, env=None, ctx=None):
    """-> (ContingentProblem, Ctx).  Understands the plain problem-spec keys used by the
    instantaneous Boolean fragment plus "constraints", "type_defaults", action "observe".
    `ctx`: an existing Ctx (same universe) whose environment, types, objects and fluents are
    reused for another problem."""
    import unified_planning as up
    from unified_planning.model.contingent import ContingentProblem, SensingAction
    from .spec import Ctx, fresh_env
    from .problem import add_effect

    if ctx is not None:
        c, env = ctx, ctx.env
    else:
        if env is None:
            env = fresh_env(True)
        c = Ctx(env)
    for name, father in ps.get("types", ()):
        c.utype(name, father)
    tdef = {c.type(ts): c.e(v) for ts, v in ps.get("type_defaults", ())}
    prob = ContingentProblem(ps.get("name", "P"), env, initial_defaults=tdef)
    for name, tname in ps.get("objects", ()):
        prob.add_object(c.obj(name, tname))
    for name, ts, sig, default in ps.get("fluents", ()):
        f = c.fluent(name, ts, sig)
        if default is None:
            prob.add_fluent(f)
        else:
            prob.add_fluent(f, default_initial_value=c.e(default))
    for a in ps.get("actions", ()):
        c.params = {}
        params = dict((pn, c.type(pt)) for pn, pt in a["params"])
        if a.get("observe") is not None:
            act = SensingAction(a["name"], params, env)
        else:
            act = up.model.InstantaneousAction(a["name"], params, env)
        for prm in act.parameters:
            c.params[prm.name] = prm
        for pre in a.get("pre", ()):
            act.add_precondition(c.e(pre))
        for e in a.get("eff", ()):
            add_effect(c, act, e)
        for o in a.get("observe") or ():
            act.add_observed_fluent(c.e(o))
        prob.add_action(act)
        c.params = {}
    for fl, val in ps.get("init", ()):
        prob.set_initial_value(c.e(fl), c.e(val))
    for g in ps.get("goals", ()):
        prob.add_goal(c.e(g))
    for con in ps.get("constraints", ()):
        if con[0] == "unknown":
            prob.add_unknown_initial_constraint(c.e(con[1]))
        elif con[0] == "oneof":
            prob.add_oneof_initial_constraint([c.e(l) for l in con[1]])
        elif con[0] == "or":
            prob.add_or_initial_constraint([c.e(l) for l in con[1]])
        else:
            raise ValueError(con)
    return prob, c


# ======================================================================================
# U-CONT (C35): contingent problems for the simulated execution environment
# ======================================================================================
# ground actions: a1(o1), a1(s1), a2, sense(o1), sense(s1), look
X = ("p", "x")

CONT_CONS = [
    ((("oneof", (p(o1), p(s1))),), 1),  # default
    ((("unknown", p(o1)),), 1),
    ((("or", (p(o1), p(s1))),), 1),
    ((), 1),
    ((("oneof", (p(o1), p(s1))), ("unknown", b)), 1),
    ((("oneof", (p(o1), p(s1), b)),), 0),
    ((("or", (p(o1), p(s1))), ("or", (p(s1), b))), 1),
    ((("oneof", (p(o1), p(s1))), ("or", (p(o1), b))), 0),
    ((("unknown", p(o1)), ("unknown", q(s1))), 0),
    ((("unknown", p(o1)), ("or", (NOT(p(o1)), p(s1)))), 0),
    ((("or", (NOT(p(o1)), p(s1))),), 0),
    ((("oneof", (p(o1), p(s1))), ("oneof", (p(s1), q(s1)))), 0),
]

# how a lifted fluent gets its declared initial values
#   ("fdefault", v)  per-fluent default v            ("none",)  no per-fluent default (type default)
#   ("explicit", ground fluent, v)  per-fluent default False + explicit initial value v
CONT_INIT = {
    "b.init": [(("explicit", b, True), 1), (("fdefault", True), 1), (("none",), 1)],
    "q.init": [(("explicit", q(s1), True), 0), (("fdefault", True), 1), (("none",), 0)],
    # core: an explicit value on one instance while ANOTHER instance of the same fluent is hidden
    "p.init": [(("explicit", p(s1), True), 1), (("fdefault", True), 1), (("none",), 0)],
}
CONT_TDEF = [(True, 1), (False, 1)]  # ContingentProblem(initial_defaults={Bool: v})

CONT_POOLS = {
    "cons": CONT_CONS[1:],
    "b.init": CONT_INIT["b.init"],
    "q.init": CONT_INIT["q.init"],
    "p.init": CONT_INIT["p.init"],
    "tdef": CONT_TDEF,
    "a1.pre": [(b, 1), (NOT(b), 0), (p(X), 1), (q(s1), 0), (NOT(p(X)), 0)],
    "a1.eff": [
        (None, 0),
        ((eff(p(X), FALSE),), 1),
        ((eff(p(X), TRUE, b),), 1),
        ((eff(b, TRUE),), 0),
        ((eff(p(X), TRUE), eff(q(s1), TRUE)), 0),
        ((eff(p(vT), FALSE, None, VT),), 0),
        ((eff(b, TRUE, p(s1)),), 1),
        ((eff(b, NOT(p(X))),), 0),
    ],
    "a2.pre": [(p(o1), 1), (NOT(b), 1), (q(s1), 0)],
    "a2.eff": [
        (None, 0),
        ((eff(b, FALSE),), 0),
        ((eff(q(s1), TRUE, p(s1)),), 1),
        ((eff(p(o1), FALSE),), 1),
        ((eff(b, TRUE), eff(q(s1), TRUE)), 0),
    ],
    "sense.pre": [(b, 1), (NOT(q(s1)), 0), (p(X), 1)],
    "sense.eff": [
        ((eff(q(s1), TRUE),), 1),
        ((eff(b, FALSE),), 0),
        ((eff(b, TRUE, p(X)),), 1),
        ((eff(p(X), FALSE),), 0),
    ],
    "sense.obs": [((p(X), b), 1), ((q(s1),), 1), ((b, p(o1)), 0), ((), 0)],
    "goal": [((b,), 1), ((p(o1), p(s1)), 1), ((NOT(p(s1)),), 0), ((("or", q(s1), b),), 0), ((("forall", VT, p(vT)),), 0)],
}
CONT_GOAL_DEFAULT = (p(o1),)


def cont_make(choices):
    """-> problem spec (with "constraints", "type_defaults", "observe") or None when the
    combination declares no initial value for some non-hidden ground fluent or puts an explicit
    value on a hidden one (not in the statement's scope)."""
    ch = {s: CONT_POOLS[s][i][0] for s, i in choices.items()}
    cons = ch.get("cons", CONT_CONS[0][0])
    hidden = {key_of(a) for a in hidden_atoms(cons)}
    tdef = ch.get("tdef")
    fluents, init = [], []
    for name, ts, sig, slot in (("b", B, (), "b.init"), ("p", B, (("o", T),), "p.init"), ("q", B, (("o", S),), "q.init")):
        how = ch.get(slot, ("fdefault", False))
        if how[0] == "fdefault":
            fluents.append((name, ts, sig, ("b", how[1])))
        elif how[0] == "none":
            if tdef is None:
                return None
            fluents.append((name, ts, sig, None))
        else:
            if key_of(how[1]) in hidden:
                return None
            fluents.append((name, ts, sig, FALSE))
            init.append((how[1], ("b", how[2])))
    acts = [
        {
            "name": "a1",
            "params": (("x", T),),
            "pre": (ch["a1.pre"],) if "a1.pre" in ch else (),
            "eff": ((eff(p(X), TRUE),) if "a1.eff" not in ch else (ch["a1.eff"] or ())),
        },
        {
            "name": "a2",
            "params": (),
            "pre": (ch["a2.pre"],) if "a2.pre" in ch else (),
            "eff": ((eff(b, TRUE),) if "a2.eff" not in ch else (ch["a2.eff"] or ())),
        },
        {
            "name": "sense",
            "params": (("x", T),),
            "pre": (ch["sense.pre"],) if "sense.pre" in ch else (),
            "eff": ch.get("sense.eff", ()),
            "observe": ch.get("sense.obs", (p(X),)),
        },
        {"name": "look", "params": (), "pre": (), "eff": (), "observe": GROUND},
    ]
    return {
        "name": "ucont",
        "types": (("T", None), ("S", "T")),
        "objects": (("o1", "T"), ("s1", "S")),
        "fluents": tuple(fluents),
        "type_defaults": () if tdef is None else ((B, ("b", tdef)),),
        "actions": tuple(acts),
        "init": tuple(init),
        "goals": tuple(ch.get("goal", CONT_GOAL_DEFAULT)),
        "constraints": tuple(cons),
        "traj": (),
        "metric": None,
    }


def cont_declared_initial(ps):
    """reference: declared initial value of every NON-hidden ground fluent
    (explicit > per-fluent default > per-type default)."""
    hidden = {key_of(a) for a in hidden_atoms(ps["constraints"])}
    explicit = {key_of(f): v[1] for f, v in ps["init"]}
    tdef = dict((tuple(ts), v[1]) for ts, v in ps.get("type_defaults", ()))
    fdef = {name: (d, tuple(ts)) for name, ts, _sig, d in ps["fluents"]}
    out = {}
    for gk in GKEYS:
        if gk in hidden:
            continue
        if gk in explicit:
            out[gk] = explicit[gk]
        else:
            d, ts = fdef[gk[0]]
            out[gk] = d[1] if d is not None else tdef[ts]
    return out


def cont_plan(tier):
    if tier == "quick":
        return [(0, False), (1, False), (2, True)]
    return [(0, False), (1, False), (2, False)]


def cont_case_ids(tier):
    out = []
    for level, core_only in cont_plan(tier):
        for cid in ids(CONT_POOLS, level, core_only):
            if cont_make(dict(cid)) is not None:
                out.append((level, cid))
    return out


HAND = _hand_specs()
