"""U-EXPR (DESIGN 3.1): the shared typed expression universe.

Pure data + pure functions over expression *specs* (mc/gen/spec.py); nothing here touches the
library except `declare`, which creates the universe's types / objects / fluents / parameters /
variables / interpreted functions inside a Ctx.

  Grammar(leaves, ops, ...)      bounded-exhaustive enumerator: every well-typed tree with
                                 <= N operator nodes over a leaf pool, canonical (no form that a
                                 constructor normalises away, so no two specs build one node),
                                 deterministic order (by operator count, then lexicographic in
                                 operator order / child order).
  symbols(spec)                  fluents (with the ground keys they may read), parameters and
                                 FREE variables of a spec.
  interpretations(specs, vals)   complete product of the per-leaf value sets for exactly the
                                 symbols the specs mention (an interpretation assigns every
                                 ground key a fluent application can read).
  sort_of / free_vars / size     small helpers shared by the checks.

Typing is done on specs, never by asking the library: an ill-typed construction leaves a
rejected node in the expression manager's table (hash-consing happens before type checking),
so the enumerator must not rely on constructor failures.
"""
from __future__ import annotations

from collections import OrderedDict
from fractions import Fraction
from itertools import product

from mc.ref.eval import Bottom, Interp, ev

# ---------------------------------------------------------------------------------------
# universe
# ---------------------------------------------------------------------------------------
UTYPES = [("A", None), ("B", "A"), ("C", None)]
OBJECTS = [("a1", "A"), ("a2", "A"), ("b1", "B"), ("c1", "C")]
_A = ("user", "A")
_INT = ("int", None, None)
FLUENTS = OrderedDict(
    [
        ("p", (("bool",), ())),
        ("q", (("bool",), (("x", _A),))),
        ("n", (("int", 0, 2), ())),
        ("k", (_INT, ())),
        ("h", (("int", 0, None), ())),
        ("r", (("real", -1, 1), ())),
        ("u", (("real", None, None), ())),
        ("w", (("real", None, (3, 2)), ())),
        ("g", (_A, (("x", _A),))),
        ("z", (("int", -2, -1), ())),  # C17's extra fluent
    ]
)
PARAMS = OrderedDict(
    [
        ("i", ("int", 0, 2)),
        ("j", ("int", -2, -1)),
        ("t", ("int", -1, 1)),  # C17's extra parameter
        ("x", _A),
    ]
)
# v2: second A-variable (capture cases); ("v", "B"): same NAME as ("v", "A") but another type
VARS = [("v", "A"), ("vb", "B"), ("v2", "A"), ("v", "B"), ("v3", "A")]


def _F(z):
    return z * z - 1


def _G(z):
    return z % 2 == 0  # parity: tells 2**53+1 from its float rounding 2**53


IFUNS = OrderedDict(
    [
        ("F", (_INT, (("z", _INT),), _F)),
        ("G", (("bool",), (("z", _INT),), _G)),
    ]
)
IFUN_PY = {"F": _F, "G": _G}

BIG = [2**53 + 1, 2**64, 10**30]
CONSTS_BOOL = [("b", True), ("b", False)]
CONSTS_INT = [("i", c) for c in (0, 1, -1, 2, 3)] + [("i", c) for c in BIG]
CONSTS_REAL = [("r", 1, 2), ("r", -3, 2), ("r", 1, 10**20)]

_FATHER = dict(UTYPES)
_OBJTYPE = dict(OBJECTS)


def subtype(t, of):
    while t is not None:
        if t == of:
            return True
        t = _FATHER[t]
    return False


def objects_of(tname):
    """objects whose type is tname or a subtype, declaration order."""
    return [o for o, t in OBJECTS if subtype(t, tname)]


def related(t1, t2):
    """user types with a common ancestor (what Equals accepts)."""
    a = set()
    t = t1
    while t is not None:
        a.add(t)
        t = _FATHER[t]
    t = t2
    while t is not None:
        if t in a:
            return True
        t = _FATHER[t]
    return False


def declare(ctx, fluents=None):
    """Create the universe inside ctx (a mc.gen.spec.Ctx). Returns ctx."""
    import unified_planning as up

    for name, father in UTYPES:
        ctx.utype(name, father)
    for name, tn in OBJECTS:
        ctx.obj(name, tn)
    for name, (ts, sig) in FLUENTS.items():
        if fluents is None or name in fluents:
            ctx.fluent(name, ts, sig)
    for name, ts in PARAMS.items():
        ctx.param(name, ts)
    for name, tn in VARS:
        ctx.var(name, tn)
    for name, (rt, sig, fn) in IFUNS.items():
        if name not in ctx.ifuns:
            ctx.ifuns[name] = up.model.InterpretedFunction(
                name, ctx.type(rt), OrderedDict((pn, ctx.type(pt)) for pn, pt in sig), fn, ctx.env
            )
    return ctx


# ---------------------------------------------------------------------------------------
# typing on specs
# ---------------------------------------------------------------------------------------
BOOL_OPS = ("and", "or", "not", "implies", "iff", "exists", "forall", "eq", "le", "lt")
NUM_OPS = ("+", "-", "*", "/")
ALL_OPS = BOOL_OPS + NUM_OPS
NUM = ("int", "real")


def _kind(ts):
    return ts[1] if ts[0] == "user" else ts[0]


class IllTyped(Exception):
    pass


def sort_of(s):
    """'bool' | 'int' | 'real' | user type name.  Raises IllTyped on an ill-typed spec."""
    t = s[0]
    if t == "b":
        return "bool"
    if t == "i":
        return "int"
    if t == "r":
        return "real"
    if t == "o":
        return _OBJTYPE[s[1]]
    if t == "p":
        return _kind(PARAMS[s[1]])
    if t == "v":
        return s[2]
    if t in ("f", "ifun"):
        if t == "f":
            rt, sig = FLUENTS[s[1]]
        else:
            rt, sig, _ = IFUNS[s[1]]
        if len(sig) != len(s) - 2:
            raise IllTyped(s)
        for (pn, pt), a in zip(sig, s[2:]):
            sa = sort_of(a)
            want = _kind(pt)
            ok = subtype(sa, want) if pt[0] == "user" and sa in _FATHER else (
                sa == want or (want == "real" and sa == "int")
            )
            if not ok:
                raise IllTyped(s)
        return _kind(rt)
    if t in ("and", "or"):
        for a in s[1:]:
            if sort_of(a) != "bool":
                raise IllTyped(s)
        return "bool"
    if t in ("not", "implies", "iff"):
        for a in s[1:]:
            if sort_of(a) != "bool":
                raise IllTyped(s)
        return "bool"
    if t in ("exists", "forall"):
        if not s[1] or sort_of(s[2]) != "bool":
            raise IllTyped(s)
        return "bool"
    if t == "eq":
        a, b = sort_of(s[1]), sort_of(s[2])
        if a in NUM and b in NUM:
            return "bool"
        if a in _FATHER and b in _FATHER and related(a, b):
            return "bool"
        raise IllTyped(s)
    if t in ("le", "lt"):
        if sort_of(s[1]) in NUM and sort_of(s[2]) in NUM:
            return "bool"
        raise IllTyped(s)
    if t in ("+", "-", "*"):
        srt = [sort_of(a) for a in s[1:]]
        if any(x not in NUM for x in srt):
            raise IllTyped(s)
        return "real" if "real" in srt else "int"
    if t == "/":
        if sort_of(s[1]) in NUM and sort_of(s[2]) in NUM:
            return "real"
        raise IllTyped(s)
    raise IllTyped(s)


def size(s):
    """number of operator nodes (fluent / interpreted-function applications are leaf terms)."""
    t = s[0]
    if t in ("b", "i", "r", "o", "p", "v", "f", "ifun"):
        return 0
    if t in ("exists", "forall"):
        return 1 + size(s[2])
    return 1 + sum(size(a) for a in s[1:])


def nodes(s):
    """total number of spec nodes (used to pick the smallest counterexample)."""
    t = s[0]
    if t in ("b", "i", "r", "o", "p", "v"):
        return 1
    if t in ("exists", "forall"):
        return 1 + nodes(s[2])
    start = 2 if t in ("f", "ifun") else 1
    return 1 + sum(nodes(a) for a in s[start:])


def children(s):
    t = s[0]
    if t in ("b", "i", "r", "o", "p", "v"):
        return ()
    if t in ("exists", "forall"):
        return (s[2],)
    if t in ("f", "ifun"):
        return tuple(s[2:])
    return tuple(s[1:])


def subterms(s, acc=None):
    """all sub-specs, pre-order, without duplicates."""
    if acc is None:
        acc = OrderedDict()
    acc.setdefault(s, True)
    for c in children(s):
        subterms(c, acc)
    return list(acc)


def free_vars(s, bound=frozenset()):
    """set of (name, type) occurring free."""
    t = s[0]
    if t == "v":
        k = (s[1], s[2])
        return set() if k in bound else {k}
    if t in ("exists", "forall"):
        return free_vars(s[2], bound | frozenset(tuple(x) for x in s[1]))
    out = set()
    for c in children(s):
        out |= free_vars(c, bound)
    return out


def all_vars(s):
    """variables occurring anywhere (free or bound) plus variables bound by a quantifier."""
    out = set()
    if s[0] == "v":
        out.add((s[1], s[2]))
    if s[0] in ("exists", "forall"):
        out |= set(tuple(x) for x in s[1])
    for c in children(s):
        out |= all_vars(c)
    return out


def symbols(s, acc=None):
    """{'fl': {name: set of ground keys | 'ALL'}, 'params': set, 'fvars': set, 'ifuns': set}"""
    if acc is None:
        acc = {"fl": {}, "params": set(), "ifuns": set(), "fvars": free_vars(s)}
    t = s[0]
    if t == "p":
        acc["params"].add(s[1])
    elif t == "ifun":
        acc["ifuns"].add(s[1])
    elif t == "f":
        if all(a[0] == "o" for a in s[2:]):
            key = (s[1],) + tuple(a[1] for a in s[2:])
            cur = acc["fl"].get(s[1])
            if cur != "ALL":
                acc["fl"].setdefault(s[1], set()).add(key)
        else:
            acc["fl"][s[1]] = "ALL"
    for c in children(s):
        symbols(c, acc)
    return acc


def is_closed(s):
    sy = symbols(s)
    return not sy["fl"] and not sy["params"] and not sy["fvars"]


_EMPTY = Interp(objs=objects_of, ifuns=IFUN_PY)


def closed_value(s):
    """value of a closed spec, or Bottom instance when undefined, or None when not closed."""
    if not is_closed(s):
        return None
    try:
        return ev(s, _EMPTY)
    except Bottom as e:
        return e


# ---------------------------------------------------------------------------------------
# enumeration
# ---------------------------------------------------------------------------------------
def _compositions(total, parts):
    if parts == 1:
        yield (total,)
        return
    for first in range(total + 1):
        for rest in _compositions(total - first, parts - 1):
            yield (first,) + rest


class Grammar:
    """All well-typed canonical trees over `leaves` using operators `ops`.

    leaves : list of leaf specs (constants, fluent / ifun applications, params, variables,
             objects); each must be well typed on its own.
    ops    : subset of ALL_OPS.
    arities: arities of the n-ary operators And/Or/Plus/Times.  0- and 1-ary applications are
             normalised away by the constructors (And()=true, And(x)=x), i.e. they are the same
             node as a smaller tree that is already enumerated, so only >= 2 is generated.
    qvars  : variable lists for Exists/Forall.
    const_zero_div : keep Div whose divisor is a closed term with value 0 (default: drop; the
             expression has no value under any interpretation).
    keep   : optional predicate on every generated (sub)tree - pruning, NOT sampling: a tree is
             generated iff all its subtrees satisfy `keep`.
    """

    def __init__(self, leaves, ops, arities=(2, 3), qvars=((("v", "A"),), (("vb", "B"),)),
                 const_zero_div=False, keep=None, nary3_leaf_only=False):
        self.leaves = list(OrderedDict((tuple(l), True) for l in leaves))
        self.ops = [o for o in ALL_OPS if o in set(ops)]
        bad = set(ops) - set(ALL_OPS)
        if bad:
            raise ValueError("unknown operators %r" % (bad,))
        self.arities = tuple(a for a in arities if a >= 2)
        self.qvars = tuple(tuple(tuple(v) for v in vs) for vs in qvars)
        self.const_zero_div = const_zero_div
        self.keep = keep
        self.nary3_leaf_only = nary3_leaf_only
        self._memo = {}
        self.leaf_sort = OrderedDict()
        for l in self.leaves:
            self.leaf_sort[l] = sort_of(l)

    # classes: 'bool', 'num' (int and real), 'user' (all user sorts; only leaves)
    def _cls_terms(self, cls, n):
        key = (cls, n)
        if key in self._memo:
            return self._memo[key]
        out = []
        if n == 0:
            for l, srt in self.leaf_sort.items():
                c = "bool" if srt == "bool" else "num" if srt in NUM else "user"
                if c == cls and (self.keep is None or self.keep(l)):
                    out.append(l)
        elif cls == "bool":
            for op in self.ops:
                if op in BOOL_OPS:
                    out.extend(self._apply(op, n))
        elif cls == "num":
            for op in self.ops:
                if op in NUM_OPS:
                    out.extend(self._apply(op, n))
        if self.keep is not None and n > 0:
            out = [s for s in out if self.keep(s)]
        self._memo[key] = out
        return out

    def _tuples(self, classes, n):
        """all child tuples with the given classes whose operator counts sum to n."""
        for comp in _compositions(n, len(classes)):
            pools = [self._cls_terms(c, m) for c, m in zip(classes, comp)]
            if all(pools):
                for tup in product(*pools):
                    yield tup

    def _apply(self, op, n):
        m = n - 1
        out = []
        if op in ("and", "or", "+", "*"):
            cls = "bool" if op in ("and", "or") else "num"
            for ar in self.arities:
                if ar >= 3 and self.nary3_leaf_only and m > 0:
                    continue
                for tup in self._tuples((cls,) * ar, m):
                    out.append((op,) + tup)
        elif op == "not":
            for (a,) in self._tuples(("bool",), m):
                if a[0] != "not":  # Not(Not(x)) is x
                    out.append(("not", a))
        elif op in ("implies", "iff"):
            for tup in self._tuples(("bool", "bool"), m):
                out.append((op,) + tup)
        elif op in ("exists", "forall"):
            for vs in self.qvars:
                for (a,) in self._tuples(("bool",), m):
                    out.append((op, vs, a))
        elif op == "eq":
            for tup in self._tuples(("num", "num"), m):
                out.append(("eq",) + tup)
            if m == 0:
                us = self._cls_terms("user", 0)
                for a in us:
                    for b in us:
                        if related(self.leaf_sort[a], self.leaf_sort[b]):
                            out.append(("eq", a, b))
        elif op in ("le", "lt", "-"):
            for tup in self._tuples(("num", "num"), m):
                out.append((op,) + tup)
        elif op == "/":
            for a, b in self._tuples(("num", "num"), m):
                if not self.const_zero_div:
                    cv = closed_value(b)
                    if cv is not None and (isinstance(cv, Bottom) or cv == 0):
                        continue
                out.append(("/", a, b))
        return out

    def terms(self, n, sorts=None):
        """trees with exactly n operator nodes; sorts: iterable of sort names or None (all)."""
        out = []
        for cls in ("bool", "num", "user"):
            for s in self._cls_terms(cls, n):
                if sorts is None or _sort_fast(s, self.leaf_sort) in sorts:
                    out.append(s)
        return out

    def all(self, max_ops, sorts=None):
        """[(n_ops, spec)] for n_ops = 0..max_ops, deterministic order."""
        out = []
        for n in range(max_ops + 1):
            out.extend((n, s) for s in self.terms(n, sorts))
        return out

    def describe(self):
        return {
            "leaves": [label(l) for l in self.leaves],
            "ops": list(self.ops),
            "arities": list(self.arities),
            "qvars": [[v[0] + ":" + v[1] for v in vs] for vs in self.qvars],
        }


def _sort_fast(s, leaf_sort):
    t = s[0]
    if t in BOOL_OPS:
        return "bool"
    if t == "/":
        return "real"
    if t in ("+", "-", "*"):
        for a in s[1:]:
            if _sort_fast(a, leaf_sort) == "real":
                return "real"
        return "int"
    r = leaf_sort.get(s)
    return r if r is not None else sort_of(s)


# ---------------------------------------------------------------------------------------
# interpretations
# ---------------------------------------------------------------------------------------
H = 2**53 + 1
M = 10**6
# DESIGN 3.1: bounded types: every integer value / both endpoints + midpoint (+ one
# non-integral interior point for reals); unbounded sides: the endpoint (or 0, +-1 when there
# is none) plus +-10**6 and +-(2**53+1).
VALS_FULL = {
    "p": [False, True],
    "q": [False, True],
    "n": [0, 1, 2],
    "z": [-2, -1],
    "k": [0, 1, -1, M, -M, H, -H],
    "h": [0, 1, M, H],
    "r": [Fraction(-1), 0, Fraction(1, 3), 1],
    "u": [0, Fraction(1, 2), M, -M, H, -H],
    "w": [Fraction(3, 2), 0, -M, -H],
    "g": objects_of("A"),
    "i": [0, 1, 2],
    "j": [-2, -1],
    "t": [-1, 0, 1],
    "x": objects_of("A"),
}
# a narrower variant for deep tiers: still endpoints + one large magnitude per unbounded side
VALS_SMALL = dict(VALS_FULL)
VALS_SMALL.update(
    {
        "k": [0, 1, -1, H],
        "h": [0, 1, H],
        "r": [Fraction(-1), Fraction(1, 3), 1],
        "u": [0, Fraction(1, 2), -H],
        "w": [Fraction(3, 2), -M],
    }
)


def ground_keys(fname):
    _, sig = FLUENTS[fname]
    doms = [objects_of(pt[1]) for _, pt in sig]
    return [(fname,) + combo for combo in product(*doms)]


def interp_axes(specs, vals=VALS_FULL, fixed=None):
    """The axes (symbol, value list) of the product for the symbols the specs mention.
    fixed: {ground fluent key: value} held constant (static fluents of a problem)."""
    fixed = fixed or {}
    fl, params, fvars = OrderedDict(), OrderedDict(), OrderedDict()
    for s in specs:
        sy = symbols(s)
        for name in sorted(sy["fl"]):
            ks = sy["fl"][name]
            cur = fl.get(name)
            if ks == "ALL" or cur == "ALL":
                fl[name] = "ALL"
            else:
                fl[name] = (cur or set()) | ks
        for p in sorted(sy["params"]):
            params[p] = True
        for v in sorted(sy["fvars"]):
            fvars[v] = True
    axes = []
    for name in FLUENTS:  # declaration order
        if name not in fl:
            continue
        keys = ground_keys(name) if fl[name] == "ALL" else [k for k in ground_keys(name) if k in fl[name]]
        for key in keys:
            if key in fixed:
                axes.append((("fl", key), [fixed[key]]))
            else:
                axes.append((("fl", key), list(vals[name])))
    for p in PARAMS:
        if p in params:
            axes.append((("p", p), list(vals[p])))
    for v in VARS:
        if tuple(v) in fvars:
            axes.append((("v", tuple(v)), objects_of(v[1])))
    return axes


def n_interpretations(axes):
    n = 1
    for _, vs in axes:
        n *= len(vs)
    return n


def interpretations(specs, vals=VALS_FULL, fixed=None, axes=None):
    """Complete product over the axes; yields mc.ref.eval.Interp (fresh dicts each time)."""
    if axes is None:
        axes = interp_axes(specs, vals, fixed)
    names = [a for a, _ in axes]
    for combo in product(*[vs for _, vs in axes]):
        fl, params, vs_ = {}, {}, {}
        for (kind, key), val in zip(names, combo):
            if kind == "fl":
                fl[key] = val
            elif kind == "p":
                params[key] = val
            else:
                vs_[key] = val
        yield Interp(fl=fl, params=params, vars=vs_, objs=objects_of, ifuns=IFUN_PY)


def interp_label(I):
    """JSON-able rendering of an interpretation (for replay files / messages)."""
    d = {}
    for k, v in sorted(I.fl.items()):
        d["%s(%s)" % (k[0], ",".join(k[1:])) if len(k) > 1 else k[0]] = _vj(v)
    for k, v in sorted(I.params.items()):
        d[k] = _vj(v)
    for k, v in sorted(I.vars.items()):
        d["%s:%s" % k] = _vj(v)
    return d


def _vj(v):
    if isinstance(v, Fraction):
        return "%d/%d" % (v.numerator, v.denominator) if v.denominator != 1 else int(v)
    return v


# ---------------------------------------------------------------------------------------
# pretty labels (fingerprints)
# ---------------------------------------------------------------------------------------
def label(s):
    t = s[0]
    if t == "b":
        return "true" if s[1] else "false"
    if t == "i":
        v = s[1]
        for name, c in (("2^53+1", H), ("2^64", 2**64), ("10^30", 10**30)):
            if v == c:
                return name
            if v == -c:
                return "-" + name
        return str(v)
    if t == "r":
        return "%s/%s" % (label(("i", s[1])), label(("i", s[2])))
    if t in ("o", "p"):
        return s[1]
    if t == "v":
        return s[1]
    if t in ("f", "ifun"):
        return s[1] + ("(%s)" % ",".join(label(a) for a in s[2:]) if len(s) > 2 else "")
    if t == "not":
        return "!" + label(s[1])
    if t in ("exists", "forall"):
        return "%s %s.%s" % (t, ",".join("%s:%s" % tuple(v) for v in s[1]), label(s[2]))
    sym = {"and": "&", "or": "|", "implies": "->", "iff": "<->", "eq": "==", "le": "<=", "lt": "<"}.get(t, t)
    return "(" + (" %s " % sym).join(label(a) for a in s[1:]) + ")"


def shape(s, depth=2):
    """operator skeleton to `depth` levels with leaf *classes* instead of leaves - the coarse
    root-cause key of a minimal counterexample ("which rewriting step, on what kind of
    operands"): c small constant / BIG constant beyond 2**53 / B Boolean constant / fl fluent /
    par parameter / var variable / o object; below `depth` only the operator name."""
    t = s[0]
    if t == "b":
        return "B"
    if t == "i":
        return "BIG" if abs(s[1]) > 2**53 else "c"
    if t == "r":
        return "BIG" if max(abs(s[1]), abs(s[2])) > 2**53 else "c"
    if t == "o":
        return "o"
    if t == "p":
        return "par"
    if t == "v":
        return "var"
    if t == "f":
        return "fl"
    if t == "ifun":
        return s[1]
    if depth <= 0:
        return t
    if t in ("exists", "forall"):
        return "%s(%s)" % (t, shape(s[2], depth - 1))
    parts = [shape(a, depth - 1) for a in s[1:]]
    if t in ("and", "or", "+", "*", "eq", "iff"):
        parts.sort()  # commutative: one key for mirrored counterexamples
    return "%s(%s)" % (t, ",".join(parts))


# ---------------------------------------------------------------------------------------
# a live universe (one Environment); discarded by the checks after any library exception
# ---------------------------------------------------------------------------------------
class World:
    """Ctx with the universe declared.  `statics`: {ground key: value} -> also builds a Problem
    in which exactly the fluents of those keys are static (no action writes them) with the
    given initial values; every other fluent is written by the action `touch`."""

    def __init__(self, statics=None, fluents=None):
        from mc.gen.spec import Ctx

        self.ctx = declare(Ctx(), fluents)
        self.env = self.ctx.env
        self.em = self.ctx.em
        self.statics = dict(statics or {})
        self.problem = None
        if statics is not None:
            self.problem = self._problem()

    def val(self, v):
        em = self.em
        if isinstance(v, bool):
            return em.TRUE() if v else em.FALSE()
        if isinstance(v, int):
            return em.Int(v)
        if isinstance(v, Fraction):
            return em.Int(int(v)) if v.denominator == 1 else em.Real(v)
        if isinstance(v, str):
            return em.ObjectExp(self.ctx.objects[v])
        raise ValueError(v)

    def _problem(self):
        import unified_planning as up

        ctx, em = self.ctx, self.em
        prob = up.model.Problem("uexpr", self.env)
        for o in ctx.objects.values():
            prob.add_object(o)
        for f in ctx.fluents.values():
            prob.add_fluent(f)
        static_names = {k[0] for k in self.statics}
        for key, v in self.statics.items():
            fe = em.FluentExp(ctx.fluents[key[0]], tuple(self.val(a) for a in key[1:]))
            prob.set_initial_value(fe, self.val(v))
        act = up.model.InstantaneousAction("touch", _env=self.env)
        for name, f in ctx.fluents.items():
            if name in static_names:
                continue
            ts, sig = FLUENTS[name]
            args = tuple(self.val(objects_of(pt[1])[0]) for _, pt in sig)
            v = VALS_FULL[name][0]  # any value of the declared type
            act.add_effect(em.FluentExp(f, args), self.val(v))
        prob.add_action(act)
        got = {f.name for f in prob.get_static_fluents()}
        if got != static_names:
            raise RuntimeError("harness: static fluents %r, wanted %r" % (got, static_names))
        return prob
