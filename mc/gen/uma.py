"""U-MA: slot grammar for multi-agent problems (C37), builder spec -> MultiAgentProblem and
extractor MultiAgentProblem -> spec (the spec format is documented in mc/ref/ma.py).

Universe: type T, objects o1, o2; public environment fluent e(T);
agent A: fluents la (public), pa(T) (private); actions act(x:T), go()
agent B: fluents la (public, the SAME fluent name as A's), lb (private); actions act(x:T), stop()
=> 7 Boolean ground fluents, 6 ground actions.  Agent-local fluents of the other agent are
reached through Dot(agent, fluent) in conditions and goals (a Dot as effect target is accepted
by add_effect but rejected with KeyError by Effect.__init__, so it is not generated).
"""
from __future__ import annotations

from itertools import combinations, product

T, B = ("user", "T"), ("bool",)
TRUE, FALSE = ("b", True), ("b", False)
o1, o2 = ("o", "o1"), ("o", "o2")
X = ("p", "x")
vT = ("v", "v", "T")
VT = (("v", "T"),)
la, lb = ("f", "la"), ("f", "lb")


def e(x):
    return ("f", "e", x)


def pa(x):
    return ("f", "pa", x)


def dot(ag, f):
    return ("dot", ag, f)


def NOT(x):
    return ("not", x)


def eff(fl, val, cond=None, fa=()):
    return ("assign", fl, val, cond, tuple(fa))


def cond_pool(me, other, Xt):
    ola = dot(other, la)
    return [
        (la, 1),
        (NOT(la), 0),
        (e(Xt), 1),
        (NOT(e(Xt)), 0),
        (ola, 1),
        (NOT(ola), 0),
        (("or", la, e(Xt)), 1),
        (("implies", la, ola), 0),
        (dot("A", pa(Xt)), 0),
        (("or", e(o1), e(o2)), 0),
        (NOT(("and", la, e(Xt))), 0),
        (("and", ("or", la, e(Xt)), ("or", ola, e(o1))), 1),
        (("iff", la, e(Xt)), 0),
        (("exists", VT, e(vT)), 0),
        (("or", ola, NOT(e(o2))), 0),
        (("and", ("le", ("i", 1), ("i", 2)), ("or", la, ola)), 0),
        # disjunctive normal forms with a REPEATED disjunct (Dnf does not merge them)
        (("or", NOT(la), ("implies", la, ola)), 0),
        (("or", ("and", la, e(Xt)), ("and", e(Xt), la)), 0),
    ]


def eff_pool(me, other, Xt):
    ola = dot(other, la)
    return [
        ((eff(la, FALSE),), 0),
        ((eff(e(Xt), TRUE),), 0),
        ((eff(e(Xt), FALSE),), 1),
        ((eff(e(Xt), TRUE, la),), 1),
        ((eff(la, TRUE, NOT(e(Xt))),), 1),
        ((eff(e(Xt), TRUE, ola),), 1),
        ((eff(e(Xt), TRUE, ("or", la, e(o1))),), 1),
        ((eff(e(Xt), TRUE, la), eff(la, FALSE, e(Xt))), 1),
        ((eff(e(o1), TRUE, la), eff(e(o2), TRUE, ola)), 0),
        ((eff(la, TRUE, ola),), 0),
        ((eff(e(Xt), FALSE, ("and", la, ola)),), 0),
        ((eff(e(vT), FALSE, None, VT),), 0),
        ((eff(e(vT), TRUE, ("or", la, NOT(e(vT))), VT),), 0),
        ((eff(la, TRUE, ("and", ("or", e(o1), e(o2)), NOT(ola))),), 0),
        ((eff(e(Xt), TRUE, dot("A", pa(Xt))),), 0),
    ]


GOALS = [
    ((dot("A", la),), 1),  # default
    ((dot("A", la), e(o1)), 1),
    ((("or", e(o1), dot("B", lb)),), 1),
    ((dot("A", pa(o1)), NOT(e(o2))), 0),
    ((("and", ("or", e(o1), e(o2)), dot("B", la)),), 1),
    ((("exists", VT, e(vT)),), 0),
    ((NOT(dot("B", lb)),), 0),
    ((("implies", dot("A", la), e(o1)),), 0),
    ((("or", e(o1), dot("B", lb)), ("or", dot("A", la), e(o2))), 0),
    ((("or", dot("A", la), dot("B", la)), e(o1)), 0),
]

# (agent, action name, params, default effects)
ACTIONS = (
    ("A", "act", (("x", T),), (eff(pa(X), TRUE),)),
    ("A", "go", (), (eff(la, TRUE),)),
    ("B", "act", (("x", T),), (eff(e(X), TRUE),)),
    ("B", "stop", (), (eff(lb, TRUE),)),
)
OTHER = {"A": "B", "B": "A"}

SLOTS = [
    ("A.act.pre", "cond", 0),
    ("A.act.eff1", "eff1", 0),  # replaces the default effect
    ("A.act.eff2", "eff", 0),
    ("A.go.pre", "cond", 1),
    ("A.go.eff", "eff", 1),
    ("B.act.pre", "cond", 2),
    ("B.act.eff1", "eff1", 2),
    ("B.act.eff2", "eff", 2),
    ("B.stop.pre", "cond", 3),
    ("B.stop.eff", "eff", 3),
    ("goal", "goal", None),
]


def _pool(slot):
    name, kind, ai = next(s for s in SLOTS if s[0] == slot)
    if kind == "goal":
        return GOALS[1:]
    ag, _an, params, _d = ACTIONS[ai]
    Xt = X if params else o1
    if kind == "cond":
        return cond_pool(ag, OTHER[ag], Xt)
    pl = eff_pool(ag, OTHER[ag], Xt)
    if kind == "eff1":
        pl = [(None, 1)] + pl
    return pl


POOLS = {s[0]: _pool(s[0]) for s in SLOTS}


def ids(level, core_only=False):
    names = [s[0] for s in SLOTS]
    for combo in combinations(names, level):
        idxs = [[i for i, (_x, core) in enumerate(POOLS[s]) if core or not core_only] for s in combo]
        for pick in product(*idxs):
            yield tuple(zip(combo, pick))


def label(cid):
    return ",".join("%s#%d" % (s, i) for s, i in cid) or "base"


def plan(tier):
    if tier == "quick":
        return [(0, False), (1, False), (2, True)]
    return [(0, False), (1, False), (2, False)]


def case_ids(tier):
    out = []
    for level, core_only in plan(tier):
        for cid in ids(level, core_only):
            out.append((level, cid))
    return out


def make(choices):
    ch = {s: POOLS[s][i][0] for s, i in choices.items()}
    acts = {"A": [], "B": []}
    for ai, (ag, an, params, default) in enumerate(ACTIONS):
        pre, effs = [], []
        replaced = False
        for sname, kind, sai in SLOTS:
            if sai != ai or sname not in ch:
                continue
            if kind == "cond":
                pre.append(ch[sname])
            elif kind == "eff1":
                replaced = True
                if ch[sname] is not None:
                    effs.extend(ch[sname])
            else:
                effs.extend(ch[sname])
        if not replaced:
            effs = list(default) + effs
        acts[ag].append({"name": an, "params": params, "pre": tuple(pre), "eff": tuple(effs)})
    return {
        "name": "uma",
        "types": (("T", None),),
        "objects": (("o1", "T"), ("o2", "T")),
        "env_fluents": (("e", B, (("o", T),), FALSE),),
        "agents": (
            {"name": "A", "fluents": (("la", B, (), FALSE), ("pa", B, (("o", T),), FALSE)), "public": ("la",), "actions": tuple(acts["A"])},
            {"name": "B", "fluents": (("la", B, (), FALSE), ("lb", B, (), FALSE)), "public": ("la",), "actions": tuple(acts["B"])},
        ),
        "init": ((dot("B", la), TRUE),),
        "goals": tuple(ch["goal"]) if "goal" in ch else GOALS[0][0],
    }


def same_target_twice(ms):
    """True when some action has two effects that can write one ground fluent (out of the
    grammar's scope: add/delete interplay is not what C37 is about)."""
    from mc.ref.ma import flatten
    from mc.ref.seqsem import RefProblem
    from mc.ref.eval import ev

    ref = RefProblem(flatten(ms), {})
    for an, args in ref.ground_actions():
        a = ref.actions[an]
        params = dict(zip([pn for pn, _ in a["params"]], args))
        I = ref.interp({}, params)
        seen = set()
        for _k, fl, _v, _c, fa in a["eff"]:
            doms = [ref.objs(tn) for _vn, tn in fa]
            for combo in product(*doms):
                J = I.with_vars(dict(zip(fa, combo))) if fa else I
                t = (fl[1],) + tuple(ev(x, J) for x in fl[2:])
                if t in seen:
                    return True
                seen.add(t)
    return False


# ======================================================================================
# spec <-> MultiAgentProblem
# ======================================================================================
def build_ma(ms, env=None):
    """-> (MultiAgentProblem, Ctx)"""
    import unified_planning as up
    from unified_planning.model.multi_agent import MultiAgentProblem, Agent
    from .spec import Ctx, fresh_env
    from .problem import add_effect

    if env is None:
        env = fresh_env(True)
    c = Ctx(env)
    prob = MultiAgentProblem(ms.get("name", "ma"), env)
    for name, father in ms.get("types", ()):
        c.utype(name, father)
    for name, tname in ms.get("objects", ()):
        prob.add_object(c.obj(name, tname))

    def fluent(name, ts, sig):
        # one Fluent object per (name, type, signature): agents may share a fluent name
        return c.fluent(name, ts, sig)

    for name, ts, sig, default in ms.get("env_fluents", ()):
        f = fluent(name, ts, sig)
        if default is None:
            prob.ma_environment.add_fluent(f)
        else:
            prob.ma_environment.add_fluent(f, default_initial_value=c.e(default))
    agents = []
    for a in ms["agents"]:
        ag = Agent(a["name"], prob)
        for name, ts, sig, default in a["fluents"]:
            f = fluent(name, ts, sig)
            kw = {} if default is None else {"default_initial_value": c.e(default)}
            if name in a.get("public", ()):
                ag.add_public_fluent(f, **kw)
            else:
                ag.add_private_fluent(f, **kw)
        agents.append(ag)
    for a, ag in zip(ms["agents"], agents):
        for act in a["actions"]:
            c.params = {}
            action = up.model.InstantaneousAction(act["name"], dict((pn, c.type(pt)) for pn, pt in act["params"]), env)
            for prm in action.parameters:
                c.params[prm.name] = prm
            for pre in act["pre"]:
                action.add_precondition(c.e(pre))
            for ef in act["eff"]:
                add_effect(c, action, ef)
            ag.add_action(action)
            c.params = {}
        prob.add_agent(ag)
    for fl, val in ms.get("init", ()):
        prob.set_initial_value(c.e(fl), c.e(val))
    for g in ms.get("goals", ()):
        prob.add_goal(c.e(g))
    return prob, c


def ma_to_spec(prob):
    """MultiAgentProblem -> spec through public accessors."""
    import unified_planning as up
    from .spec import to_spec
    from .problem import type_to_spec, eff_to_spec

    def fl_spec(f, defaults):
        d = defaults.get(f)
        return (
            f.name,
            type_to_spec(f.type),
            tuple((p.name, type_to_spec(p.type)) for p in f.signature),
            None if d is None else to_spec(d),
        )

    types, seen = [], set()

    def add_t(t):
        if t.name in seen:
            return
        if t.father is not None:
            add_t(t.father)
        seen.add(t.name)
        types.append((t.name, None if t.father is None else t.father.name))

    for t in prob.user_types:
        add_t(t)
    unsupported = []
    agents = []
    for ag in prob.agents:
        acts = []
        for a in ag.actions:
            if not isinstance(a, up.model.InstantaneousAction):
                unsupported.append("action kind:" + a.name)
                continue
            acts.append(
                {
                    "name": a.name,
                    "params": tuple((p.name, type_to_spec(p.type)) for p in a.parameters),
                    "pre": tuple(to_spec(x) for x in a.preconditions),
                    "eff": tuple(eff_to_spec(x) for x in a.effects),
                }
            )
        agents.append(
            {
                "name": ag.name,
                "fluents": tuple(fl_spec(f, ag.fluents_defaults) for f in ag.fluents),
                "public": tuple(f.name for f in ag.public_fluents),
                "actions": tuple(acts),
            }
        )
    ms = {
        "name": prob.name,
        "types": tuple(types),
        "objects": tuple((o.name, o.type.name) for o in prob.all_objects),
        "env_fluents": tuple(fl_spec(f, prob.ma_environment.fluents_defaults) for f in prob.ma_environment.fluents),
        "agents": tuple(agents),
        "init": tuple((to_spec(k), to_spec(v)) for k, v in prob.explicit_initial_values.items()),
        "goals": tuple(to_spec(g) for g in prob.goals),
    }
    if unsupported:
        ms["unsupported"] = tuple(unsupported)
    return ms
