"""U-PROB: slot grammar for instantaneous problems (DESIGN 3.2).

A problem instance = base problem + a choice for each slot.  `instances(level, ...)`
enumerates ALL instances with exactly `level` non-default slots (core pools for the
higher levels, see `plan`).  Case id = tuple of (slot, choice_index), the replay key.
"""
from __future__ import annotations

from itertools import combinations, product

T, S = ("user", "T"), ("user", "S")
B = ("bool",)

# ---- leaves -------------------------------------------------------------------------
b = ("f", "b")
n = ("f", "n")
m = ("f", "m")
TRUE, FALSE = ("b", True), ("b", False)
o1, o2, s1 = ("o", "o1"), ("o", "o2"), ("o", "s1")
vT, vS = ("v", "v", "T"), ("v", "w", "S")
VT, VS = (("v", "T"),), (("w", "S"),)


def p(x):
    return ("f", "p", x)


def q(x):
    return ("f", "q", x)


def st(x):
    return ("f", "st", x)


def c(x):
    return ("f", "c", x)


def r(x):
    return ("f", "r", x)


def I(k):
    return ("i", k)


def NOT(x):
    return ("not", x)


def eff(kind, fl, val, cond=None, fa=()):
    return (kind, fl, val, cond, tuple(fa))


# ---- pools (templates over the parameter terms X, Y) ----------------------------------
def cond_pool(X, Y):
    """[(expr, is_core)]"""
    return [
        (b, 1),
        (NOT(b), 0),
        (p(X), 1),
        (NOT(p(X)), 0),
        (st(X), 0),
        (("or", p(o1), b), 0),
        (("implies", b, p(X)), 0),
        (("iff", b, p(X)), 0),
        (("exists", VT, p(vT)), 1),
        (("forall", VT, p(vT)), 0),
        (("exists", VS, ("and", q(vS), p(vS))), 0),
        (("forall", VT, ("or", p(vT), NOT(st(vT)))), 0),
        (("eq", X, o1), 1),
        (NOT(("eq", X, Y)), 0),
        (("eq", r(X), o2), 1),
        (("eq", r(X), X), 0),
        (("le", n, I(1)), 1),
        (("lt", c(X), ("+", n, I(1))), 0),
        (("and", ("le", I(1), I(2)), ("le", I(2), I(3))), 0),
        (("ifun", "G", n), 0),
        (p(r(X)), 0),  # fluent nested in a fluent argument
    ]


def eff_pool(X, Y):
    """[(tuple of effect specs, is_core)] - a slot may hold a compound of effects."""
    bp = ("or", b, p(X))
    return [
        ((eff("assign", b, TRUE),), 0),
        ((eff("assign", b, FALSE),), 1),
        ((eff("assign", p(X), TRUE),), 0),
        ((eff("assign", p(X), FALSE),), 0),
        ((eff("assign", p(Y), FALSE),), 1),
        ((eff("assign", b, p(X)),), 1),
        ((eff("assign", b, NOT(p(X))),), 0),
        ((eff("assign", p(X), TRUE, b),), 0),
        ((eff("assign", n, I(1), NOT(b)),), 1),
        ((eff("assign", b, TRUE, p(X)),), 0),
        ((eff("assign", b, FALSE), eff("assign", b, TRUE, p(X))), 1),
        ((eff("assign", n, I(1)),), 1),
        ((eff("assign", n, I(2)),), 0),
        ((eff("assign", n, I(2), b),), 0),
        ((eff("inc", n, I(1)),), 1),
        ((eff("dec", n, I(1)),), 0),
        ((eff("inc", n, c(X)),), 0),
        ((eff("dec", n, n),), 0),
        ((eff("inc", n, I(1), bp),), 0),
        ((eff("assign", m, n),), 0),
        ((eff("assign", m, ("/", m, I(2))),), 0),
        ((eff("assign", p(vT), FALSE, None, VT),), 1),
        ((eff("inc", c(vT), I(1), p(vT), VT),), 0),
        ((eff("assign", p(vT), TRUE, ("eq", vT, X), VT),), 0),
        ((eff("assign", r(X), o2),), 1),
        ((eff("assign", r(X), r(o1)),), 0),
        ((eff("assign", n, ("ifun", "F", n)),), 0),
        ((eff("assign", c(X), I(2)),), 0),
        ((eff("inc", m, ("r", 1, 2)),), 0),
        # two increases of ONE parameterised ground fluent in one action
        ((eff("inc", c(X), I(1)), eff("inc", c(X), I(1), b)), 1),
        # a finite decimal with more than 10 decimal places (1/2048 = 0.00048828125)
        ((eff("inc", m, ("r", 1, 2048)),), 0),
        # conditional effects whose condition is (headed by) a quantifier
        ((eff("assign", b, TRUE, ("exists", VT, p(vT))),), 0),
        ((eff("assign", b, FALSE, ("and", ("forall", VT, p(vT)), b)), eff("assign", n, I(1), NOT(("exists", VT, st(vT))))), 0),
        # a finite decimal that no binary floating point number represents (1/10)
        ((eff("inc", m, ("r", 1, 10)),), 0),
    ]


GOAL_POOL = [
    ((p(o1),), 1),  # default
    ((b,), 1),
    ((p(o1), p(o2)), 1),
    ((("eq", n, I(2)),), 1),
    ((NOT(b), p(o2)), 0),
    ((("forall", VT, p(vT)),), 0),
    ((("eq", r(o1), o2),), 0),
    ((("or", b, p(s1)),), 0),
    ((("le", ("r", 1, 2), m),), 0),
    ((("and", p(o1), b),), 0),
]

INV_POOL = [
    (("or", NOT(b), p(o1)), 1),
    (b, 0),
    (NOT(p(o2)), 1),
    (("le", n, I(2)), 1),
    (("forall", VT, ("implies", p(vT), st(vT))), 0),
    (NOT(("and", b, p(o1))), 0),
    (("exists", VT, NOT(p(vT))), 0),
    (("lt", c(o1), I(2)), 0),
    (NOT(p(r(o2))), 1),  # invariant over a fluent nested in a fluent argument
    (("forall", VT, ("or", NOT(p(r(vT))), st(vT))), 0),
]

INIT_POOL = [
    (((b, TRUE),), 1),
    (((p(o1), TRUE),), 1),
    (((n, I(2)),), 1),
    (((n, I(3)),), 0),
    (((r(o1), o2),), 1),
    (((m, ("r", 1, 2)),), 0),
    (((p(s1), TRUE), (q(s1), TRUE)), 0),
    (((c(o1), I(2)),), 0),
    (((st(o2), TRUE),), 0),
]

UNDEF_POOL = [("b", 1), ("m", 1), ("r", 1)]  # fluent left without default / explicit value

TRAJ_POOL = [
    (("sometime", b), 1),
    (("amo", b), 1),
    (("sb", p(o1), b), 1),
    (("sa", b, p(o2)), 1),
    (("always", ("or", NOT(b), p(o1))), 0),
    (("forall", VT, ("amo", p(vT))), 0),
    (("sometime", ("and", p(o2), NOT(b))), 0),
    # ONE conjunction-shaped constraint (as a PDDL3 (:constraints (and ...)) section gives)
    (("and", ("always", ("or", NOT(b), p(o1))), ("sometime", b)), 1),
    (("and", ("always", NOT(p(o2))), ("always", ("or", NOT(b), p(o1)))), 0),
]

METRIC_POOL = [
    (("len",), 1),
    (("costs", (("a1", I(2)), ("a2", I(1)), ("a3", I(1))), None), 1),
    (("costs", (("a1", ("+", c(("p", "x")), I(1))),), I(1)), 1),
    (("costs", (("a2", n),), I(3)), 1),
    (("costs", (("a1", I(2)),), None), 0),  # a2/a3 have no cost and no default
    (("costs", (("a1", ("r", 1, 2)),), ("r", 3, 2)), 0),
    (("minfinal", n), 1),
    (("maxfinal", ("+", n, I(1))), 0),
    (("minfinal", m), 0),
    (("over", ((b, 3), (p(o2), (1, 2)), (NOT(b), 2))), 1),
    (("over", ((p(o1), 1),)), 0),
    # cost of a1 depends on a fluent that a1 itself can change (same ground action twice)
    (("costs", (("a1", ("+", n, I(1))),), I(1)), 1),
]

ACTIONS = (
    ("a1", (("x", T),), ("p", "x"), o2),
    ("a2", (), o1, s1),
    ("a3", (("x", T), ("y", T)), ("p", "x"), ("p", "y")),
)

# slot name -> (kind, action index | None)
SLOTS = [
    ("a1.pre1", "cond", 0),
    ("a1.eff1", "eff", 0),  # default p(x):=T
    ("a1.eff2", "eff", 0),
    ("a1.eff3", "eff", 0),
    ("a2.pre1", "cond", 1),
    ("a2.eff1", "eff", 1),  # default b:=T
    ("a2.eff2", "eff", 1),
    ("a3.pre1", "cond", 2),
    ("a3.eff1", "eff", 2),  # a3 always has p(x):=T ; slot default none
    ("goal", "goal", None),
    ("inv", "inv", None),
    ("init", "init", None),
    ("undef", "undef", None),
    ("traj", "traj", None),
    ("metric", "metric", None),
]
SLOT_NAMES = [s[0] for s in SLOTS]
BASE_SLOTS = [s for s in SLOT_NAMES if s not in ("traj", "metric")]


def pool(slot):
    if slot == "static2":
        return [(lab, 1) for lab, _ps in STATIC2]
    if slot == "zerob":
        return [(lab, 1) for lab, _ps in ZEROB]
    if slot == "intarg":  # pseudo-slot: the hand-enumerated integer-indexed problems INTARG
        return [(lab, 1) for lab, _ps in INTARG]
    name, kind, ai = next(s for s in SLOTS if s[0] == slot)
    if kind in ("cond", "eff"):
        _an, _params, X, Y = ACTIONS[ai]
        pl = cond_pool(X, Y) if kind == "cond" else eff_pool(X, Y)
        if slot == "a1.eff1":
            pl = [x for x in pl if x[0] != (eff("assign", p(X), TRUE),)]
        if slot == "a2.eff1":
            pl = [x for x in pl if x[0] != (eff("assign", b, TRUE),)]
        if slot in ("a1.eff1", "a2.eff1"):
            pl = [(None, 1)] + pl  # removing the default effect is a deviation too
        return pl
    return {
        "goal": GOAL_POOL[1:],
        "inv": INV_POOL,
        "init": INIT_POOL,
        "undef": UNDEF_POOL,
        "traj": TRAJ_POOL,
        "metric": METRIC_POOL,
    }[kind]


NUMERIC = ("n", "c", "m")


def mentions(x, names):
    if isinstance(x, tuple):
        if len(x) >= 2 and x[0] == "f" and x[1] in names:
            return True
        return any(mentions(y, names) for y in x)
    return False


def make(choices, variant=None):
    """choices: dict slot -> pool index (non-default slots only) -> problem spec.
    variant "bool": the same universe without the numeric fluents n, c, m."""
    if "static2" in choices:  # pseudo-slot: one of the hand-enumerated STATIC2 problems
        return dict(STATIC2[choices["static2"]][1])
    if "zerob" in choices:
        return dict(ZEROB[choices["zerob"]][1])
    if "intarg" in choices:  # pseudo-slot: one of the hand-enumerated INTARG problems
        lab, ps = INTARG[choices["intarg"]]
        if variant == "bool" and lab.split(":")[1].startswith("cnt"):
            return None
        return dict(ps)
    ch = {s: pool(s)[i][0] for s, i in choices.items()}
    undef = ch.get("undef")
    fluents = [
        ("b", B, (), None if undef == "b" else FALSE),
        ("p", B, (("o", T),), FALSE),
        ("q", B, (("o", S),), FALSE),
        ("st", B, (("o", T),), FALSE),
        ("n", ("int", 0, 3), (), I(0)),
        ("c", ("int", 0, 2), (("o", T),), I(0)),
        ("m", ("real", None, None), (), None if undef == "m" else I(0)),
        ("r", T, (("o", T),), None if undef == "r" else o1),
    ]
    init = [(st(o1), TRUE), (c(o2), I(1))]
    if undef == "r":
        init.append((r(o2), o1))
    if "init" in ch:
        init.extend(ch["init"])
    acts = []
    for ai, (an, params, X, Y) in enumerate(ACTIONS):
        pre, effs = [], []
        if an == "a3":
            effs.append(eff("assign", p(X), TRUE))
        for sname, kind, sai in SLOTS:
            if sai != ai:
                continue
            if kind == "cond":
                if sname in ch:
                    pre.append(ch[sname])
            else:
                if sname in ch:
                    if ch[sname] is not None:
                        effs.extend(ch[sname])
                elif sname == "a1.eff1":
                    effs.append(eff("assign", p(X), TRUE))
                elif sname == "a2.eff1":
                    effs.append(eff("assign", b, TRUE))
        acts.append({"name": an, "params": params, "pre": tuple(pre), "eff": tuple(effs)})
    traj = []
    if "inv" in ch:
        traj.append(("always", ch["inv"]))
    if "traj" in ch:
        traj.append(ch["traj"])
    ps = {
        "name": "uprob",
        "types": (("T", None), ("S", "T")),
        "objects": (("o1", "T"), ("o2", "T"), ("s1", "S")),
        "fluents": tuple(fluents),
        "ifuns": (
            ("F", ("int", None, None), (("int", None, None),), "sqm1"),
            ("G", B, (("int", None, None),), "isodd"),
        ),
        "actions": tuple(acts),
        "init": tuple(init),
        "goals": tuple(ch["goal"]) if "goal" in ch else GOAL_POOL[0][0],
        "traj": tuple(traj),
        "metric": ch.get("metric"),
    }
    if not _uses_ifun(ps):
        ps["ifuns"] = ()
    if variant == "bool":
        ps["fluents"] = tuple(f for f in ps["fluents"] if f[0] not in NUMERIC)
        ps["init"] = tuple(i for i in ps["init"] if i[0][1] not in NUMERIC)
    return ps


def _uses_ifun(x):
    if isinstance(x, tuple):
        if x and x[0] == "ifun":
            return True
        return any(_uses_ifun(y) for y in x)
    if isinstance(x, dict):
        return any(_uses_ifun(y) for y in x.values())
    return False


_POOL_CACHE = {}


def _pool_idx(sname, core_only, variant):
    k = (sname, core_only, variant)
    if k not in _POOL_CACHE:
        _POOL_CACHE[k] = [
            i
            for i, (x, core) in enumerate(pool(sname))
            if (core or not core_only) and not (variant == "bool" and mentions(x, NUMERIC))
        ]
    return _POOL_CACHE[k]


def ids(level, slots=None, core_only=False, variant=None):
    """case ids only (no spec construction)."""
    slots = list(slots if slots is not None else BASE_SLOTS)
    for combo in combinations(slots, level):
        idxs = [_pool_idx(sname, core_only, variant) for sname in combo]
        for pick in product(*idxs):
            yield tuple(zip(combo, pick))


def instances(level, slots=None, core_only=False, variant=None):
    """All instances with exactly `level` deviating slots among `slots`."""
    for cid in ids(level, slots, core_only, variant):
        yield cid, make(dict(cid), variant)


def raw_eff_choice(slot, raw):
    """index in pool(slot) of the entry that is eff_pool(...)[raw] (the *.eff1 pools are shifted)."""
    ai = [a[0] for a in ACTIONS].index(slot.split(".")[0])
    _an, _params, X, Y = ACTIONS[ai]
    want = eff_pool(X, Y)[raw][0]
    for i, (x, _c) in enumerate(pool(slot)):
        if x == want:
            return i
    raise KeyError((slot, raw))


def plan(tier, slots=None, extra_full=()):
    """[(level, core_only)] enumeration plan of a tier."""
    if tier == "quick":
        return [(0, False), (1, False), (2, True)]
    return [(0, False), (1, False), (2, False), (3, True)]


def case_ids(tier, slots=None):
    out = []
    for level, core_only in plan(tier):
        for cid in ids(level, slots, core_only):
            out.append((level, cid))
    return out


# ======================================================================================
# family intarg: fluents indexed by a bounded integer, written / read through ARITHMETIC argument
# expressions of integer action parameters (the ground fluent only appears after simplification)
def _intarg_specs():
    P = lambda n: ("p", n)
    wargs = [("i+1", ("+", P("i"), I(1))), ("2-i", ("-", I(2), P("i"))), ("i*2", ("*", P("i"), I(2)))]
    rargs = [("j", P("j")), ("2-j", ("-", I(2), P("j")))]
    out = []
    for wn, wa in wargs:
        for tgt in ("cell", "cnt"):
            for rn, ra in rargs:
                for second in ("read-pre", "write", "read-value"):
                    wf, rf = ("f", tgt, wa), ("f", tgt, ra)
                    if tgt == "cell":
                        weff = ("assign", wf, ("b", True), None, ())
                        rpre = rf
                        weff2 = ("assign", rf, ("b", False), None, ())
                        veff = ("assign", ("f", "b"), rf, None, ())
                    else:
                        weff = ("inc", wf, I(1), None, ())
                        rpre = ("le", I(1), rf)
                        weff2 = ("assign", rf, I(2), None, ())
                        veff = ("assign", ("f", "n"), rf, None, ())
                    if second == "read-pre":
                        a2 = {"name": "snd", "params": (("j", ("int", 0, 2)),), "pre": (rpre,), "eff": (("assign", ("f", "b"), ("b", True), None, ()),)}
                    elif second == "write":
                        a2 = {"name": "snd", "params": (("j", ("int", 0, 2)),), "pre": (), "eff": (weff2,)}
                    else:
                        a2 = {"name": "snd", "params": (("j", ("int", 0, 2)),), "pre": (), "eff": (veff,)}
                    ps = {
                        "name": "intarg", "types": (("T", None),), "objects": (("o1", "T"),),
                        "fluents": (
                            ("b", ("bool",), (), ("b", False)),
                            ("n", ("int", 0, 3), (), ("i", 0)),
                            ("cell", ("bool",), (("k", ("int", 0, 2)),), ("b", False)),
                            ("cnt", ("int", 0, 3), (("k", ("int", 0, 2)),), ("i", 0)),
                        ),
                        "actions": ({"name": "fst", "params": (("i", ("int", 0, 1)),), "pre": (), "eff": (weff,)}, a2),
                        "goals": (), "ifuns": (), "init": (), "metric": None, "traj": (),
                    }
                    out.append(("intarg:%s(%s)/%s(%s)" % (tgt, wn, second, rn), ps))
    return out


INTARG = _intarg_specs()


# ======================================================================================
# family static2: a STATIC binary fluent e(T,T) with an asymmetric extension, read by a3(x, y) at
# both argument positions (the grounder prunes the candidates of each parameter by position)
def _static2_specs():
    X, Y = ("p", "x"), ("p", "y")
    e = lambda a, b_: ("f", "e", a, b_)
    pres = [
        ("e(x,y)", (e(X, Y),)),
        ("e(y,x)", (e(Y, X),)),
        ("e(x,y),e(y,x)", (e(X, Y), e(Y, X))),
        ("st(x),e(x,y)", (st(X), e(X, Y))),
        ("e(x,y),st(y)", (e(X, Y), st(Y))),
        ("e(x,x)", (e(X, X),)),
        ("e(x,o2),e(o1,y)", (e(X, o2), e(o1, Y))),
    ]
    out = []
    for lab, pre in pres:
        for init in (((e(o1, o2), TRUE),), ((e(o1, o2), TRUE), (e(s1, o1), TRUE)), ((e(o2, o2), TRUE), (e(o2, s1), TRUE))):
            ps = dict(make({}))
            ps["fluents"] = tuple(ps["fluents"]) + (("e", B, (("a", T), ("b", T)), FALSE),)
            ps["init"] = tuple(ps["init"]) + tuple(init)
            acts = []
            for a in ps["actions"]:
                if a["name"] == "a3":
                    a = dict(a, pre=tuple(pre), eff=(eff("assign", p(Y), TRUE),))
                acts.append(a)
            ps["actions"] = tuple(acts)
            ps["goals"] = (p(o2),)
            out.append(("static2:%s/%s" % (lab, "+".join("e(%s,%s)" % (k[2][1], k[3][1]) for k, _v in init)), ps))
    return out


STATIC2 = _static2_specs()


# ======================================================================================
# family zerob: numeric fluents whose type has a bound that is exactly 0 (or only one bound),
# pushed across it by increase / decrease / assign whose amount is read from an unbounded fluent
# (a constant amount outside the type is rejected at modelling time).  Seed C03-3: `if upper:`.
def _zerob_specs():
    out = []
    z, u = ("f", "z"), ("f", "u")
    for kind in ("int", "real"):
        for lo, hi in ((None, 0), (-2, 0), (0, None), (0, 2), (-1, None), (None, -1)):
            z0 = hi if hi is not None and hi < 0 else 0
            for u0 in (1, -1):
                ps = {
                    "name": "zerob", "types": (("T", None),), "objects": (("o1", "T"),),
                    "fluents": (
                        ("z", (kind, lo, hi), (), ("i", z0)),
                        ("u", (kind, None, None), (), ("i", u0)),
                    ),
                    "actions": (
                        {"name": "up", "params": (), "pre": (), "eff": (("inc", z, u, None, ()),)},
                        {"name": "down", "params": (), "pre": (), "eff": (("dec", z, u, None, ()),)},
                        {"name": "set", "params": (), "pre": (), "eff": (("assign", z, u, None, ()),)},
                    ),
                    "goals": (), "ifuns": (), "init": (), "metric": None, "traj": (),
                }
                out.append(("zerob:%s[%s,%s]/u=%d" % (kind, lo, hi, u0), ps))
    return out


ZEROB = _zerob_specs()


def zerob_ids():
    return [(1, (("zerob", i),)) for i in range(len(ZEROB))]


def intarg_ids():
    """[(level, cid)] of the INTARG problems, for the universes of the checks that include them"""
    return [(1, (("intarg", i),)) for i in range(len(INTARG))] + [(1, (("static2", i),)) for i in range(len(STATIC2))]
