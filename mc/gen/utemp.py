"""U-TEMP: slot grammar for temporal problems and time-triggered plans (DESIGN 3.3)."""
from __future__ import annotations

from fractions import Fraction
from itertools import combinations, combinations_with_replacement, product

T = ("user", "T")
B = ("bool",)
b = ("f", "b")
n = ("f", "n")
TRUE, FALSE = ("b", True), ("b", False)
o1, o2 = ("o", "o1"), ("o", "o2")
X = ("p", "x")


def p(x):
    return ("f", "p", x)


def c(x):
    return ("f", "c", x)


def I(k):
    return ("i", k)


def NOT(x):
    return ("not", x)


def eff(kind, fl, val, cond=None, fa=()):
    return (kind, fl, val, cond, tuple(fa))


START, END = ("start", 0), ("end", 0)
S1, E1 = ("start", 1), ("end", -1)

# (lo_expr, hi_expr, left_open, right_open), core
DUR_POOL = [
    ((I(1), I(3), False, False), 1),
    ((I(1), I(3), True, False), 1),
    ((I(1), I(3), False, True), 1),
    ((I(1), I(3), True, True), 0),
    ((("+", n, I(1)), ("+", n, I(2)), False, False), 1),
    ((c(X), c(X), False, False), 0),
    ((("r", 3, 2), ("r", 5, 2), True, True), 0),
]

INTERVALS = [
    ((START, START, False, False), 1),
    ((END, END, False, False), 0),
    ((START, END, False, False), 1),
    ((START, END, True, True), 0),
    ((START, END, True, False), 1),
    ((START, END, False, True), 0),
    ((S1, END, False, False), 0),
    ((START, E1, False, False), 0),
    ((S1, S1, False, False), 0),
    ((S1, END, True, False), 1),
]


def conds(x):
    return [(b, 1), (NOT(b), 0), (p(x), 1), (("le", n, I(0)), 0), (("eq", n, I(1)), 0)]


def effs(x):
    return [
        (eff("assign", b, TRUE), 1),
        (eff("assign", b, FALSE), 1),
        (eff("assign", p(x), FALSE), 0),
        (eff("assign", n, I(1)), 0),
        (eff("inc", n, I(1)), 1),
        (eff("assign", n, I(2)), 0),
        (eff("inc", n, I(1), b), 0),
        (eff("assign", b, NOT(b)), 0),
        (eff("assign", p(x), TRUE, NOT(b)), 0),
    ]


TIMINGS = [(START, 1), (END, 1), (S1, 1), (E1, 0)]


def timed_cond_pool(x):
    return [((iv, cd), ci and cc) for (iv, ci) in INTERVALS for (cd, cc) in conds(x)]


def timed_eff_pool(x):
    return [((tm, e), ct and ce) for (tm, ct) in TIMINGS for (e, ce) in effs(x)]


TEFF_POOL = [
    (((("gstart", t), e), 1 if (t == 1 and i < 2) else 0))
    for t in (1, 2)
    for i, e in enumerate(
        [
            eff("assign", b, TRUE),
            eff("assign", b, FALSE),
            eff("assign", n, I(1)),
            eff("assign", p(o1), FALSE),
            eff("inc", n, I(1)),
        ]
    )
]

G1, G2, GE = ("gstart", 1), ("gstart", 2), ("gend", 0)
TGOAL_POOL = [
    (((iv), g), core)
    for iv, ci in [
        ((G1, G2, False, False), 1),
        ((G1, G2, True, False), 1),
        ((G1, G2, False, True), 0),
        ((G2, G2, False, False), 1),
        ((G1, GE, False, False), 0),
    ]
    for g, cg in [(b, 1), (NOT(b), 0), (("le", I(1), n), 0)]
    for core in [ci and cg]
]

GOAL_POOL = [((b,), 1), ((("eq", n, I(1)),), 0), ((p(o1), NOT(b)), 1), ((), 1)]

SLOTS = [
    "d1.dur",
    "d1.cond1",
    "d1.cond2",
    "d1.eff2",
    "d2.dur",
    "d2.cond1",
    "d2.eff3",
    "i1.pre",
    "i1.eff2",
    "teff",
    "tgoal",
    "goal",
]


def pool(slot):
    if slot == "d1.dur":
        return DUR_POOL
    if slot == "d2.dur":
        return [((I(2), I(2), False, False), 1)] + [
            x for x in DUR_POOL if x[0][0] != c(X) and x[0] != (I(1), I(3), False, False)
        ]
    x = X if slot.startswith("d1") else o1
    if ".cond" in slot:
        return timed_cond_pool(x)
    if slot in ("d1.eff2", "d2.eff3"):
        return timed_eff_pool(x)
    if slot == "i1.pre":
        return conds(o2)
    if slot == "i1.eff2":
        return effs(o2)
    return {"teff": TEFF_POOL, "tgoal": TGOAL_POOL, "goal": GOAL_POOL}[slot]


def make(choices):
    ch = {s: pool(s)[i][0] for s, i in choices.items()}
    d1 = {
        "name": "d1",
        "params": (("x", T),),
        "dur": ch.get("d1.dur", (I(2), I(2), False, False)),
        "conds": tuple(ch[k] for k in ("d1.cond1", "d1.cond2") if k in ch),
        "effs": ((END, eff("assign", p(X), TRUE)),) + ((ch["d1.eff2"],) if "d1.eff2" in ch else ()),
    }
    d2 = {
        "name": "d2",
        "params": (),
        "dur": ch.get("d2.dur", (I(1), I(3), False, False)),
        "conds": tuple(ch[k] for k in ("d2.cond1",) if k in ch),
        "effs": ((START, eff("assign", b, TRUE)), (END, eff("assign", b, FALSE)))
        + ((ch["d2.eff3"],) if "d2.eff3" in ch else ()),
    }
    i1 = {
        "name": "i1",
        "params": (),
        "pre": ((ch["i1.pre"],) if "i1.pre" in ch else ()),
        "eff": (eff("inc", n, I(1)),) + ((ch["i1.eff2"],) if "i1.eff2" in ch else ()),
    }
    ps = {
        "name": "utemp",
        "types": (("T", None),),
        "objects": (("o1", "T"), ("o2", "T")),
        "fluents": (
            ("b", B, (), FALSE),
            ("p", B, (("o", T),), FALSE),
            ("n", ("int", None, None), (), I(0)),
            ("c", ("int", None, None), (("o", T),), I(1)),
        ),
        "actions": (i1,),
        "dactions": (d1, d2),
        "init": ((c(o2), I(2)),),
        "goals": ch["goal"] if "goal" in ch else (p(o1),),
        "traj": (),
        "metric": None,
    }
    if "teff" in ch:
        ps["teffs"] = (ch["teff"],)
    if "tgoal" in ch:
        ps["tgoals"] = (ch["tgoal"],)
    return ps


def instances(level, slots=None, core_only=False):
    slots = list(slots if slots is not None else SLOTS)
    for combo in combinations(slots, level):
        idxs = []
        for sname in combo:
            pl = pool(sname)
            idxs.append([i for i, (_x, core) in enumerate(pl) if core or not core_only])
        for pick in product(*idxs):
            cid = tuple(zip(combo, pick))
            yield cid, make(dict(cid))


def plan_levels(tier):
    if tier == "quick":
        return [(0, False), (1, False), (2, True)]
    return [(0, False), (1, False), (2, False)]


def case_ids(tier, slots=None):
    out = []
    for level, core_only in plan_levels(tier):
        for cid, _ps in instances(level, slots, core_only):
            out.append((level, cid))
    return out


# ---- plans ------------------------------------------------------------------------------
STEPS = [("d1", ("o1",)), ("d1", ("o2",)), ("d2", ()), ("i1", ())]
GRID = {
    "quick": ([Fraction(0), Fraction(1)], [Fraction(1), Fraction(2), Fraction(3)]),
    "thorough": (
        [Fraction(0), Fraction(1, 2), Fraction(1), Fraction(3, 2), Fraction(2), Fraction(3)],
        [Fraction(1), Fraction(3, 2), Fraction(2), Fraction(5, 2), Fraction(3)],
    ),
}


def timed_steps(tier):
    starts, durs = GRID[tier]
    out = []
    for an, args in STEPS:
        for s in starts:
            if an == "i1":
                out.append((s, an, args, None))
            else:
                for d in durs:
                    out.append((s, an, args, d))
    return out


def plans(tier, max_steps):
    ts = timed_steps(tier)
    yield ()
    for k in range(1, max_steps + 1):
        for combo in combinations_with_replacement(range(len(ts)), k):
            yield tuple(ts[i] for i in combo)


def label(cid):
    return ",".join("%s#%d" % (s, i) for s, i in cid) or "base"
