"""Writes /verif/evidence/<id>.json from measured counters only."""
import json
import os

ROOT = os.path.dirname(os.path.dirname(os.path.dirname(os.path.abspath(__file__))))
SCHEMA = "/root/.vp/EVIDENCE.schema.json"


def write(mod, prop_id, tier, seed, acc, wall, violations, known, cap_hit, shards_total,
          shards_done, levels_completed):
    c = acc.c
    level = mod.LEVEL
    cov = {
        "rule": mod.RULE,
        "samples": acc.samples[:6] if acc.samples else ["(no sample recorded)"],
        "exhaustive": (not cap_hit),
        "cap_hit": bool(cap_hit),
        "shards_total": shards_total,
        "shards_done": shards_done,
        "levels_completed": levels_completed,
        "bounds": mod.bounds(tier) if hasattr(mod, "bounds") else {},
        "distinct_outcomes": len(acc.outcomes),
        "outcome_histogram": dict(acc.outcomes.most_common(40)),
        "known_finding_hits": known,
        "counters": {k: v for k, v in sorted(c.items()) if not k.startswith("_")},
        "cpu_ms_in_shards": c.get("_shard_wall_ms", 0),
    }
    cov["evaluations"] = int(c.get("evaluations", 0) or c.get("transitions", 0))
    cov["distinct_nontrivial"] = int(c.get("nontrivial", 0))
    if level == "model_checking":
        cov["states"] = int(c.get("states", 0))
        cov["transitions"] = int(c.get("transitions", 0))
        cov["traces_validated_against_impl"] = int(c.get("traces", 0))
    d = {
        "property_id": prop_id,
        "tier": tier,
        "seed": int(seed),
        "level": level,
        "coverage": cov,
        "assumptions": list(getattr(mod, "ASSUMPTIONS", [])),
        "wall_s": round(wall, 3),
        "violations": int(violations),
    }
    # runs against a scratch tree (VERIF_REPO, used for the seeded changes) must not overwrite the
    # evidence of the real tree
    sub = "evidence_scratch" if os.environ.get("VERIF_REPO") else "evidence"
    os.makedirs(os.path.join(ROOT, sub), exist_ok=True)
    path = os.path.join(ROOT, sub, prop_id + ".json")
    with open(path, "w") as f:
        json.dump(d, f, indent=1, default=str, sort_keys=True)
        f.write("\n")
    try:
        import jsonschema

        with open(SCHEMA) as f:
            jsonschema.validate(d, json.load(f))
    except ImportError:
        pass
    except FileNotFoundError:
        pass
    return path
