"""Known findings: /verif/known_findings.json (committed, never written at run time).

{"findings": [{"property": "C05", "fingerprint": "...", "what_fails": "...", "replay": "..."}],
 "fixed":    ["fixed: property=C03 <commit> <what failed>", ...]}

A finding suppresses exactly the violations whose fingerprint equals its fingerprint
(fingerprints are produced by the checks from the minimised failing input / call site /
history, see DESIGN 6.1).  "fixed" entries suppress nothing.
"""
import json
import os

ROOT = os.path.dirname(os.path.dirname(os.path.dirname(os.path.abspath(__file__))))
PATH = os.path.join(ROOT, "known_findings.json")


def load(prop_id):
    if not os.path.exists(PATH):
        return []
    with open(PATH) as f:
        d = json.load(f)
    return [e for e in d.get("findings", []) if e.get("property") == prop_id]


def match(known, fingerprint):
    """An entry lists ONE root cause with the specific failing inputs that show it:
    "fingerprint": str and/or "fingerprints": [str, ...] (exact matches only)."""
    for k in known:
        if k.get("fingerprint") == fingerprint or fingerprint in k.get("fingerprints", ()):
            return k
    return None
