"""Check runner: shards a check's finite case space over worker processes, merges the
counters, matches violations against /verif/known_findings.json, writes evidence and
replay files, prints the interface lines.

Contract of a check module  mc.checks.cNN :
  PROPERTY   = "CNN"
  LEVEL      = "model_checking" | "exploration"
  RULE       = str      how cases are enumerated / what is non-trivial
  ASSUMPTIONS= [str]
  bounds(tier)            -> dict   (written into evidence)
  shards(tier, seed)      -> list of picklable dicts, ordered by deviation/depth level;
                             each may carry "level": int
  run_shard(shard, tier, seed) -> Acc
  replay(case)            -> list of (fingerprint, what)   re-runs ONE recorded case
  finalize(acc, tier)     -> None   (optional; cross-shard oracle on merged data)
"""
from __future__ import annotations

import hashlib
import importlib
import json
import multiprocessing as mp
import os
import sys
import time
import traceback
from collections import Counter

from . import evidence as ev
from . import findings as kf

ROOT = os.path.dirname(os.path.dirname(os.path.dirname(os.path.abspath(__file__))))
NPROC = int(os.environ.get("VERIF_JOBS", "16"))
MAX_KEEP_PER_FP = 3


class HarnessError(Exception):
    """The harness itself misbehaved (e.g. replay divergence). Never a verdict."""


class Acc:
    """Accumulator returned by a shard (picklable, mergeable)."""

    def __init__(self):
        self.c = Counter()  # summed counters
        self.outcomes = Counter()  # outcome class -> count (vacuity indicator)
        self.viol = {}  # fingerprint -> {"count": n, "cases": [ {what, case}, ... ]}
        self.samples = []  # a few actual cases
        self.extra = {}  # check-specific mergeable data (sets/lists)

    # -- recording ---------------------------------------------------------------
    def count(self, key, n=1):
        self.c[key] += n

    def outcome(self, key, n=1):
        self.outcomes[str(key)] += n

    def sample(self, s, limit=3):
        if len(self.samples) < limit:
            self.samples.append(s)

    def violation(self, fingerprint, what, case):
        e = self.viol.setdefault(fingerprint, {"count": 0, "cases": []})
        e["count"] += 1
        item = {"what": what, "case": case}
        cases = e["cases"]
        cases.append(item)
        if len(cases) > MAX_KEEP_PER_FP:
            cases.sort(key=lambda x: len(json.dumps(x["case"], default=str)))
            del cases[MAX_KEEP_PER_FP:]

    # -- merging -----------------------------------------------------------------
    def merge(self, o: "Acc"):
        self.c.update(o.c)
        self.outcomes.update(o.outcomes)
        for fp, e in o.viol.items():
            m = self.viol.setdefault(fp, {"count": 0, "cases": []})
            m["count"] += e["count"]
            m["cases"].extend(e["cases"])
            m["cases"].sort(key=lambda x: len(json.dumps(x["case"], default=str)))
            del m["cases"][MAX_KEEP_PER_FP:]
        for s in o.samples:
            if len(self.samples) < 6:
                self.samples.append(s)
        for k, v in o.extra.items():
            if k not in self.extra:
                self.extra[k] = v
            elif isinstance(v, set):
                self.extra[k] |= v
            elif isinstance(v, list):
                self.extra[k].extend(v)
            elif isinstance(v, dict):
                self.extra[k].update(v)
            elif isinstance(v, (int, float)):
                self.extra[k] += v


def _load(prop_id):
    return importlib.import_module("mc.checks." + prop_id.lower())


def _work(args):
    idx, prop_id, shard, tier, seed = args
    mod = _load(prop_id)
    t0 = time.time()
    try:
        acc = mod.run_shard(shard, tier, seed)
    except HarnessError:
        raise
    except Exception:
        raise HarnessError(
            "shard %r of %s crashed in the harness:\n%s" % (shard, prop_id, traceback.format_exc())
        )
    acc.c["_shard_wall_ms"] += int((time.time() - t0) * 1000)
    return idx, acc


def _budget(tier):
    env = os.environ.get("VERIF_BUDGET_S")
    if env:
        return float(env)
    return 170.0 if tier == "quick" else 3000.0


def run_check(prop_id, tier="quick", seed=0, replay=None):
    t0 = time.time()
    mod = _load(prop_id)
    if replay is not None:
        return _replay(mod, prop_id, replay)

    shards = list(mod.shards(tier, seed))
    if not shards:
        raise HarnessError("no shards for %s" % prop_id)
    budget = getattr(mod, "budget", _budget)(tier)
    total = Acc()
    done = []
    cap_hit = False
    jobs = [(i, prop_id, s, tier, seed) for i, s in enumerate(shards)]
    nproc = min(NPROC, len(jobs))
    if nproc <= 1 or os.environ.get("VERIF_INPROC"):
        for j in jobs:
            s, acc = _work(j)
            total.merge(acc)
            done.append(s)
            if time.time() - t0 > budget:
                cap_hit = len(done) < len(jobs)
                break
    else:
        ctx = mp.get_context("spawn")
        pool = ctx.Pool(nproc)
        try:
            it = pool.imap(_work, jobs, chunksize=1)  # ordered: level by level
            for _ in range(len(jobs)):
                remaining = budget - (time.time() - t0)
                try:
                    s, acc = it.next(timeout=max(1.0, remaining))
                except mp.TimeoutError:
                    cap_hit = True
                    break
                total.merge(acc)
                done.append(s)
        finally:
            pool.terminate()
            pool.join()

    if hasattr(mod, "finalize") and not cap_hit:
        mod.finalize(total, tier)

    # levels completed
    doneset = set(done)
    levels_all = sorted({s.get("level", 0) for s in shards if isinstance(s, dict)})
    completed = []
    for lv in levels_all:
        need = [i for i, s in enumerate(shards) if isinstance(s, dict) and s.get("level", 0) == lv]
        if all(i in doneset for i in need):
            completed.append(lv)
        else:
            break

    # ---- verdict -------------------------------------------------------------------
    known = kf.load(prop_id)
    new_fps, known_hits = [], []
    for fp, e in sorted(total.viol.items()):
        k = kf.match(known, fp)
        if k is not None:
            known_hits.append((k, e))
        else:
            new_fps.append((fp, e))

    lines = []
    seen_known = set()
    for k, e in known_hits:
        kid = k.get("id") or k.get("fingerprint") or k["fingerprints"][0]
        if kid in seen_known:
            continue
        seen_known.add(kid)
        lines.append("KNOWN-FINDING: property=%s %s" % (prop_id, k["what_fails"]))
    rc = 0
    for fp, e in new_fps:
        path = _write_replay(prop_id, fp, e, tier, seed)
        lines.append("VIOLATION property=%s replay=%s" % (prop_id, path))
        lines.append("  fingerprint=%s count=%d what=%s" % (fp, e["count"], e["cases"][0]["what"]))
        rc = 1

    wall = time.time() - t0
    ev.write(
        mod,
        prop_id,
        tier,
        seed,
        total,
        wall,
        violations=sum(e["count"] for _, e in new_fps),
        known=sum(e["count"] for _, e in known_hits),
        cap_hit=cap_hit,
        shards_total=len(shards),
        shards_done=len(done),
        levels_completed=completed,
    )
    for ln in lines:
        print(ln)
    cov = {k: v for k, v in total.c.items() if not k.startswith("_")}
    print(
        "%s tier=%s seed=%d shards=%d/%d %s distinct_outcomes=%d cap_hit=%s wall=%.1fs -> %s"
        % (
            prop_id,
            tier,
            seed,
            len(done),
            len(shards),
            " ".join("%s=%d" % kv for kv in sorted(cov.items())),
            len(total.outcomes),
            cap_hit,
            wall,
            "VIOLATION" if rc else "OK",
        )
    )
    return rc


def _write_replay(prop_id, fp, e, tier, seed):
    d = os.path.join(ROOT, "replays")
    os.makedirs(d, exist_ok=True)
    h = hashlib.sha1(fp.encode()).hexdigest()[:10]
    path = os.path.join(d, "%s-%s.json" % (prop_id, h))
    with open(path, "w") as f:
        json.dump(
            {
                "property": prop_id,
                "fingerprint": fp,
                "count": e["count"],
                "what": e["cases"][0]["what"],
                "case": e["cases"][0]["case"],
                "more_cases": e["cases"][1:],
                "tier": tier,
                "seed": seed,
            },
            f,
            indent=1,
            default=str,
        )
    return path


def _replay(mod, prop_id, path):
    with open(path) as f:
        r = json.load(f)
    res = mod.replay(r["case"])
    known = kf.load(prop_id)
    rc = 0
    for fp, what in res:
        k = kf.match(known, fp)
        if k is not None:
            print("KNOWN-FINDING: property=%s %s" % (prop_id, k["what_fails"]))
        else:
            print("VIOLATION property=%s replay=%s" % (prop_id, path))
            print("  fingerprint=%s what=%s" % (fp, what))
            rc = 1
    if not res:
        print("REPLAY-OK property=%s case no longer violates" % prop_id)
    return rc


def main(argv=None):
    import argparse

    ap = argparse.ArgumentParser()
    ap.add_argument("prop")
    ap.add_argument("--tier", default=os.environ.get("VERIF_TIER", "quick"), choices=["quick", "thorough"])
    ap.add_argument("--replay", default=None)
    a = ap.parse_args(argv)
    seed = int(os.environ.get("VERIF_SEED", "0") or 0)
    try:
        return run_check(a.prop.upper(), a.tier, seed, a.replay)
    except HarnessError as e:
        print("HARNESS-ERROR %s: %s" % (a.prop, e), file=sys.stderr)
        return 2
    except Exception:
        traceback.print_exc()
        print("HARNESS-ERROR %s" % a.prop, file=sys.stderr)
        return 2
