"""Regenerates /verif/MANIFEST.json from the checks that exist under mc/checks.

  /venv/bin/python -m mc.manifest
"""
import json
import os

ROOT = os.path.dirname(os.path.dirname(os.path.abspath(__file__)))

MC = "model_checking"
EX = "exploration"

# id -> (category, technique, level text, level note)
META = {
    "C01": (MC, "explicit-state BFS of each generated problem's state graph through the real simulator vs reference semantics",
            "Every reference-reachable state (depth bound) x every ground action of every slot-grammar problem (deviation bound) is pushed through UPSequentialSimulator.apply/is_goal on chain and flat states and compared fluent by fluent with a reference interpreter.",
            "trusts mc/ref/seqsem.py (DESIGN A.1) and the spec->UP builder (cross-checked by spec->build->extract identity)"),
    "C02": (MC, "explicit-state BFS + bounded query-sequence exploration on one simulator instance, differential vs fresh simulator",
            "All (state, ground action) pairs: is_applicable/apply/get_applicable_actions/is_goal/get_unsatisfied_goals agreement; all query sequences up to a length bound on ONE simulator compared with a fresh simulator per query.",
            "no reference needed: the oracle is agreement between the library's own entry points"),
    "C03": (MC, "exhaustive plan-tree enumeration (all action sequences <= k) validated by SequentialPlanValidator vs reference execution",
            "Every plan up to length k (incl. empty, invalid, inapplicable-step) of every generated problem x every metric form; status, reason and metric value compared with the reference.",
            "trusts mc/ref/seqsem.py for executability, goal and metric values"),
    "C04": (MC, "exhaustive plan-tree x start-time grid, differential between the two validators",
            "All sequences <= k with all strictly increasing start-time vectors from a grid; time-triggered vs sequential validator status must agree.",
            "oracle is agreement of the two validators (reference only used to say which side is wrong)"),
    "C05": (MC, "exhaustive enumeration of temporal slot-grammar problems x time-grid plans, happening-by-happening reference",
            "All temporal problems (deviation bound) x all plans on a rational time grid that realises every weak order of happenings; validator verdict vs reference temporal semantics.",
            "trusts mc/ref/tempsem.py (DESIGN A.2); ambiguous cases excluded as documented"),
    "C06": (MC, "exhaustive plan search on each compiled problem (reference semantics), map-back validated on the original",
            "For each compiler x in-kind problem: every valid compiled plan <= k' is mapped back and executed on the original by the reference, incl. PDDL3 trajectory constraints.",
            "both sides judged by the reference semantics; compile exceptions are C08's"),
    "C07": (MC, "exhaustive plan search on each original problem + product search on the compiled problem",
            "Every valid original plan <= k must have a compiled counterpart mapping back to it within the bound.",
            "state-preserving original steps may be dropped (documented compiler behaviour)"),
    "C08": (EX, "exhaustive enumeration of compilers x in-kind problems x adversarial names",
            "compile must return; result well-formedness (unique names, declared references, usable plan_back_conversion) on every instance.",
            "whitelist of documented rejections transcribed from docstrings / raise sites"),
    "C09": (EX, "exhaustive enumeration of compilers x problems and of kinds / factory pipelines",
            "compiled.kind <= resulting_problem_kind(input kind); resulting_problem_kind total on supported kinds; factory pipelines accept their intermediates.",
            "uses the library's ProblemKind <= (checked separately by C33)"),
    "C10": (EX, "exhaustive enumeration of problems and position sweeps vs an independent syntactic feature extractor",
            "kind.features must contain every clear-cut syntactic feature found by mc/ref/kind.py.",
            "only clear-cut features are demanded"),
    "C11": (EX, "exhaustive enumeration of typed expression trees x all interpretations over finite domain samples",
            "simplify(e) evaluates like e under every interpretation; no new free variables; idempotent.",
            "infinite numeric domains covered at listed sample points only"),
    "C12": (EX, "exhaustive enumeration of Boolean trees, truth-table equivalence and shape check",
            "NNF/DNF equivalent under all atom valuations and in normal form.",
            "atoms evaluated by the reference evaluator"),
    "C13": (EX, "exhaustive enumeration of expressions x substitution maps vs reference top-down substitution",
            "result identical to reference substitution; semantic clause under updated interpretation; incompatible maps rejected without side effects.",
            "capture-avoidance not demanded"),
    "C14": (MC, "explicit-state BFS over walker call sequences on one environment (failing calls are deviations), differential vs fresh environment",
            "Every call sequence up to the depth bound; each outcome equals the same call alone on a fresh environment.",
            "canonical state = walker memo/stack/pending fields"),
    "C15": (EX, "exhaustive enumeration of numeric trees x leaf valuations; all operand-kind pairs for Equals",
            "value always inside inferred bounds (exact rationals); Equals accepted iff mirrored accepted.",
            "sample points for unbounded domains"),
    "C16": (MC, "explicit-state BFS over construction histories in one environment with invariants on every state",
            "hash-consing identity, id uniqueness, immutability and documented normalisations after every construction sequence.",
            "state = set of specs created"),
    "C17": (EX, "exhaustive enumeration of numeric trees x full finite valuations, monotonicity by exhaustive evaluation",
            "reported linear + sign set implies monotone on the whole finite domain; non-linear shapes never reported linear.",
            "small integer/real sample domains"),
    "C18": (MC, "lock-step BFS bisimulation (reference semantics) between each problem and its PDDL re-read, both readers, plus writer histories",
            "objects/init equal; same applicable actions, successors and goal verdict on all reachable states to depth D; plan round trip.",
            "problems the writer documents as unsupported are skipped and counted"),
    "C19": (MC, "lock-step BFS bisimulation between each problem and its ANML re-read; structural comparison of temporal parts",
            "as C18 for ANML.", "renaming read through guarded hook H1"),
    "C20": (EX, "exhaustive enumeration of problems, types, timings, plans and results through ProtobufWriter/Reader",
            "read(write(x)) == x and same kind.", "uses the library's __eq__ plus spec-level comparison"),
    "C21": (MC, "lock-step BFS bisimulation between the two readers' outputs on generated PDDL texts",
            "same objects/init/applicable actions/successors/goals/metric.", "texts accepted by only one reader are outside the common fragment"),
    "C22": (MC, "explicit-state BFS over edit sequences applied to original and clone",
            "clone equal; every edit succeeds on clone iff on original; stay equal; one-sided edits do not leak.",
            "canonical form = structural dump incl. conflict bookkeeping"),
    "C23": (EX, "exhaustive enumeration of (target type, value) pairs through every storing call",
            "accepted => type-compatible constant; rejected => error and model unchanged.", "compatibility judged by spec-level types"),
    "C24": (MC, "explicit-state exploration of all permutations / prefixes of effect multisets on actions, timings, problems",
            "conflict verdict permutation-invariant; rejected insertions leave bookkeeping unchanged.", "states = container dumps"),
    "C25": (MC, "explicit-state BFS over insertion/copy histories of DeltaSimpleTemporalNetwork vs Floyd-Warshall",
            "check_stn iff no negative cycle; model = least non-negative solution; copies independent.", "canonical form = stored neighbour lists + distances"),
    "C26": (MC, "exhaustive enumeration of valid time-triggered plans, STN conversion checked by reference STN arithmetic and reference temporal semantics",
            "STN consistent, original times satisfy it, back-conversion valid.", "trusts mc/ref/tempsem.py and mc/ref/stn.py"),
    "C27": (MC, "exhaustive enumeration of valid plans and of ALL linearisations of their deordering",
            "every linearisation valid with same final state; conflicting pairs keep their order.", "reference read/write sets"),
    "C28": (MC, "exhaustive plan search on compiled problems, back-converted plans judged by reference temporal semantics",
            "every valid compiled sequential plan converts back to a valid time-triggered plan.", "trusts mc/ref/tempsem.py"),
    "C29": (EX, "exhaustive enumeration of fixed-duration problems x grid plans through forward/back conversion",
            "back(forward(plan)) = plan; end events inside durations.", ""),
    "C30": (MC, "belief-space BFS of the original vs exhaustive plan search of the compiled problem over all small initial-state sets",
            "sound, complete, invariant under dominated states.", "trusts mc/ref/belief.py"),
    "C31": (MC, "full reachable-graph exploration with an exact BFS planner plugged under the meta-engines",
            "returned plans valid; solvable => solved; optimal status => maximal gain over all reachable states.", "relative to the harness planner"),
    "C32": (EX, "exhaustive enumeration of kinds x operation modes x requirements x preference lists vs brute-force registry scan",
            "returned engine qualifies; none qualifies => error.", ""),
    "C33": (EX, "exhaustive enumeration of kind pairs/triples over a feature universe and versions, plus operation sequences",
            "lattice laws, hash consistency, version upgrade monotone, observers pure.", ""),
    "C34": (EX, "exhaustive enumeration of all precedence relations over n subtasks vs brute-force linear extensions",
            "partial_order exact; total_order iff unique linear extension.", ""),
    "C35": (MC, "enumeration of every answer of the intercepted random.choice x all action sequences vs reference semantics",
            "hidden state satisfies constraints; declared initial values; apply = reference; observations = sensed values.", ""),
    "C36": (MC, "explicit-state BFS over branching make_child histories vs dict reference, all ancestor limits",
            "every state of every history reads like the reference map; == / hash consistent across the explored forest; ancestors never change.",
            "reference is a plain dict"),
    "C37": (MC, "full Boolean state-space enumeration of small multi-agent problems through original and compiled actions",
            "applicability, successor, exactly-one-variant, goal equivalence.", "trusts mc/ref/ma.py"),
    "C38": (EX, "exhaustive enumeration of adversarial name assignments through the writers' renaming tables",
            "valid identifiers, no keywords, injective, invertible.", "ANML mapping via guarded hook H1"),
}

BASELINE_OFF = (
    "cd /repo && env -u UP_VERIF /venv/bin/python -m pytest -ra -q -p no:cacheprovider "
    "--timeout=900 --continue-on-collection-errors"
)


def main():
    checks, na = [], []
    hooks_commits = []
    hp = os.path.join(ROOT, "hooks_commits.txt")
    if os.path.exists(hp):
        hooks_commits = [l.strip() for l in open(hp) if l.strip()]
    na_reasons = {}
    nap = os.path.join(ROOT, "not_applicable.json")
    if os.path.exists(nap):
        na_reasons = json.load(open(nap))
    ready = set(l.strip() for l in open(os.path.join(ROOT, "mc", "ready.txt")) if l.strip())
    for pid in sorted(META):
        cat, tech, text, note = META[pid]
        if pid in ready and os.path.exists(os.path.join(ROOT, "mc", "checks", pid.lower() + ".py")) and pid not in na_reasons:
            checks.append(
                {
                    "property_id": pid,
                    "quick_cmd": "./check %s --tier quick" % pid,
                    "thorough_cmd": "./check %s --tier thorough" % pid,
                    "evidence_file": "/verif/evidence/%s.json" % pid,
                    "replay_cmd_template": "./check %s --replay {path}" % pid,
                    "engine": "mc-kernel",
                    "level_claimed": {"category": cat, "text": text, "design_ref": "DESIGN.md section 4 / " + pid},
                    "level_note": note or "see DESIGN.md",
                    "technique": tech,
                }
            )
        else:
            na.append(
                {
                    "property_id": pid,
                    "reason": na_reasons.get(pid, "not claimed yet: check under construction (no technique switch; see DESIGN.md section 4 / %s)" % pid),
                }
            )
    m = {
        "version": 1,
        "setup_cmd": "cd /verif && /venv/bin/python -m compileall -q mc >/dev/null && /venv/bin/python -m mc.selftest",
        "hooks": {
            "guard": "UP_VERIF",
            "enable": "export UP_VERIF=1 (done by ./check); unified_planning is imported from /repo's working tree (editable install in /venv), nothing to rebuild",
            "baseline_off_cmd": BASELINE_OFF,
            "source_commits": hooks_commits,
            "add_only": True,
        },
        "engines": [
            {
                "name": "mc-kernel",
                "path": "/verif/mc",
                "serves_properties": [c["property_id"] for c in checks],
                "kind_free_text": "hand-written explicit-state / bounded-exhaustive explorer for Python (history replay on fresh objects, canonical-state de-duplication, deviation-bounded slot grammars), 16 worker processes",
            }
        ],
        "checks": checks,
        "not_applicable": na,
        "notes": "All checks: ./check <ID> [--tier quick|thorough] [--replay FILE]. Known findings: /verif/known_findings.json.",
    }
    with open(os.path.join(ROOT, "MANIFEST.json"), "w") as f:
        json.dump(m, f, indent=1)
        f.write("\n")
    try:
        import jsonschema

        jsonschema.validate(m, json.load(open("/root/.vp/MANIFEST.schema.json")))
        print("MANIFEST.json valid: %d checks, %d not claimed" % (len(checks), len(na)))
    except FileNotFoundError:
        print("MANIFEST.json written (schema not found)")


if __name__ == "__main__":
    main()
