"""Reference belief-space (set-of-states) semantics for conformant planning on problem specs.

A belief is a frozenset of canonical states (mc.ref.seqsem.canon).  An action is applicable
in a belief iff the sequential reference applies it in EVERY member state; the successor
belief is the set of member successors.  A plan is conformant for a set of possible initial
states iff it is executable from the initial belief and every member of the final belief
satisfies the goals.  No UP imports.
"""
from __future__ import annotations

from .seqsem import canon

DEAD = "DEAD"


class Belief:
    """Progression with memoised member transitions for one RefProblem."""

    def __init__(self, ref, gas=None):
        self.ref = ref
        self.gas = gas if gas is not None else ref.ground_actions()
        self._succ = {}  # (canon state, j) -> canon successor | None
        self._goal = {}
        self.member_transitions = 0

    def initial(self, states):
        return frozenset(canon(s) for s in states)

    def member_step(self, cs, j):
        k = (cs, j)
        if k not in self._succ:
            an, args = self.gas[j]
            nxt, _why = self.ref.apply(dict(cs), an, args)
            self.member_transitions += 1
            self._succ[k] = None if nxt is None else canon(nxt)
        return self._succ[k]

    def step(self, belief, j):
        """-> successor belief or DEAD when the action is inapplicable in some member."""
        if belief == DEAD:
            return DEAD
        out = set()
        for cs in belief:
            n = self.member_step(cs, j)
            if n is None:
                return DEAD
            out.add(n)
        return frozenset(out)

    def member_goal(self, cs):
        if cs not in self._goal:
            self._goal[cs] = self.ref.is_goal(dict(cs))
        return self._goal[cs]

    def is_goal(self, belief):
        return belief != DEAD and all(self.member_goal(cs) for cs in belief)

    def run(self, states, plan):
        """plan: ground action indices. -> (final belief | DEAD)"""
        bel = self.initial(states)
        for j in plan:
            bel = self.step(bel, j)
            if bel == DEAD:
                return DEAD
        return bel

    def is_conformant(self, states, plan):
        return self.is_goal(self.run(states, plan))

    def search(self, states, k):
        """Breadth-first search in belief space to depth k.
        -> (shortest conformant plan as tuple of ground-action indices | None, beliefs expanded,
        transitions tried)"""
        b0 = self.initial(states)
        if self.is_goal(b0):
            return (), 1, 0
        seen = {b0}
        frontier = [(b0, ())]
        expanded = 0
        tried = 0
        for _depth in range(k):
            nxt = []
            for bel, plan in frontier:
                expanded += 1
                for j in range(len(self.gas)):
                    tried += 1
                    nb = self.step(bel, j)
                    if nb == DEAD or nb in seen:
                        continue
                    if self.is_goal(nb):
                        return plan + (j,), expanded, tried
                    seen.add(nb)
                    nxt.append((nb, plan + (j,)))
            frontier = nxt
        return None, expanded, tried

    def all_conformant_plans(self, states, k):
        """set of ALL conformant plans (index tuples) of length <= k."""
        out = set()

        def rec(bel, plan):
            if self.is_goal(bel):
                out.add(plan)
            if len(plan) >= k:
                return
            for j in range(len(self.gas)):
                nb = self.step(bel, j)
                if nb != DEAD:
                    rec(nb, plan + (j,))

        rec(self.initial(states), ())
        return out
