"""Lock-step bisimulation of two problem SPECS under a renaming, with the REFERENCE
sequential semantics (mc/ref/seqsem.py) on both sides.  No unified_planning imports: a
re-read problem is compared through `mc.gen.problem.problem_to_spec(reread)`.

    ren = Renaming(types={a: b}, objects={a: b}, fluents={a: b}, actions={a: b})
    res = compare(spec_a, spec_b, ren, depth=2, plan_k=2)
    res.diffs   -> [(sub_oracle, what, witness)]   empty = equivalent within the bounds
    res.c       -> {"states", "transitions", "nontrivial", "traces", "plans"}

Sub-oracles (root-cause oriented, reported in this order, first hit of each kind only):
  objects        objects per type differ (types of A only; B may declare more, e.g. `object`)
  fluents        a ground fluent of A has no counterpart in B
  init           initial value of a ground fluent differs (A's fluents only)
  applicability  a ground action is applicable on exactly one side in a reachable state
  successor      both applicable, successors differ on a ground fluent of A
  extra-action   B has a ground action without counterpart in A that is applicable
  goal           goal verdict differs in a reachable state
  metric         metric value differs on an executable plan of length <= k

What is NOT compared: parameter/variable names, declaration order, fluent types (an int
fluent may come back real-typed: values are compared numerically), fluents that exist
only in B (e.g. a reader's `total-cost`), default values as such (only the resulting
initial state).  Parameters are positional.
"""
from __future__ import annotations

from fractions import Fraction

from .eval import Bottom
from .seqsem import RefProblem, canon


class Renaming:
    """A -> B name maps; names missing from a map are mapped to themselves."""

    def __init__(self, types=None, objects=None, fluents=None, actions=None):
        self.types = dict(types or {})
        self.objects = dict(objects or {})
        self.fluents = dict(fluents or {})
        self.actions = dict(actions or {})

    def t(self, x):
        return self.types.get(x, x)

    def o(self, x):
        return self.objects.get(x, x)

    def f(self, x):
        return self.fluents.get(x, x)

    def a(self, x):
        return self.actions.get(x, x)

    def val(self, v):
        if isinstance(v, str):
            return self.o(v)
        return v

    def key(self, k):
        return (self.f(k[0]),) + tuple(self.val(x) for x in k[1:])

    def ga(self, ga):
        return (self.a(ga[0]), tuple(self.val(x) for x in ga[1]))

    def injective(self):
        bad = []
        for nm, d in (("types", self.types), ("objects", self.objects), ("fluents", self.fluents), ("actions", self.actions)):
            inv = {}
            for k, v in d.items():
                if v in inv:
                    bad.append((nm, inv[v], k, v))
                inv[v] = k
        return bad


def same(a, b):
    """value equality that keeps bool apart from numbers ("undef" marks a missing key)."""
    if isinstance(a, bool) or isinstance(b, bool):
        return isinstance(a, bool) and isinstance(b, bool) and a is b
    if isinstance(a, str) or isinstance(b, str):
        return a == b
    return Fraction(a) == Fraction(b)


class Result:
    def __init__(self):
        self.diffs = []
        self._seen = set()
        self.c = {"states": 0, "transitions": 0, "nontrivial": 0, "traces": 0, "plans": 0}
        self.outcomes = {}
        self.pairs = []  # related (state_a, state_b) pairs visited by the BFS

    def diff(self, sub, what, witness=None):
        if sub in self._seen:
            return
        self._seen.add(sub)
        self.diffs.append((sub, what, witness))

    def out(self, k):
        self.outcomes[k] = self.outcomes.get(k, 0) + 1

    @property
    def ok(self):
        return not self.diffs


def _state_diff(A, ren, sa, sb):
    out = []
    for k in getattr(A, "compared_fluents", A.ground_fluents):
        kb = ren.key(k)
        va = sa.get(k, "undef")
        vb = sb.get(kb, "undef")
        va_m = ren.val(va) if va != "undef" else va
        if not same(va_m, vb):
            out.append((k, va, vb))
    return out


def _metric(P, states, steps):
    try:
        return ("v", P.metric_value(states, steps))
    except Bottom as e:
        return ("undefined", None)


def compare(spec_a, spec_b, ren=None, depth=2, plan_k=0, max_states=400, check_goal=True,
            check_metric=True, ignore_fluents=()):
    """ignore_fluents: fluent names of A that are bookkeeping only (e.g. a reader's `total-cost`
    when the other side turned it into action costs): not compared state by state; the metric
    comparison on all plans <= plan_k covers their meaning."""
    ren = ren or Renaming()
    res = Result()
    A, B = RefProblem(spec_a), RefProblem(spec_b)
    if ignore_fluents:
        A.compared_fluents = [k for k in A.ground_fluents if k[0] not in ignore_fluents]

    # ---- static part --------------------------------------------------------------
    for t in A.types:
        oa = sorted(ren.o(o) for o in A.objs(t))
        tb = ren.t(t)
        if tb not in B.types:
            if oa:
                res.diff("objects", "type %r (-> %r) missing in B" % (t, tb), {"type": t})
            continue
        ob = sorted(B.objs(tb))
        if oa != ob:
            res.diff("objects", "objects of type %r: A->%s B=%s" % (t, oa, ob), {"type": t})
    gfb = set(B.ground_fluents)
    for k in getattr(A, "compared_fluents", A.ground_fluents):
        if ren.key(k) not in gfb:
            res.diff("fluents", "ground fluent %r (-> %r) missing in B" % (k, ren.key(k)), {"fluent": list(k)})
            break
    if res.diffs:
        return res
    ia, ib = A.initial_state(), B.initial_state()
    d = _state_diff(A, ren, ia, ib)
    if d:
        res.diff("init", "initial values differ (fluent, A, B): %s" % (d[:3],), {"fluent": list(d[0][0])})
        return res
    if not A.state_ok(ia):
        res.out("initial-state-malformed")
        if B.state_ok(ib):
            res.diff("init", "A's initial state violates bounds/invariants, B's does not", None)
        return res

    # ---- ground actions -----------------------------------------------------------
    gas_a = A.ground_actions()
    gas_b = set(B.ground_actions())
    image = set()
    pairs = []
    for ga in gas_a:
        gb = ren.ga(ga)
        image.add(gb)
        pairs.append((ga, gb if gb in gas_b else None))
    extras = [gb for gb in B.ground_actions() if gb not in image]

    # ---- lock-step BFS ------------------------------------------------------------
    idx = {canon(ia): 0}
    states = [(ia, ib, 0)]
    has_child = set()
    agreed = {0: True}
    i = 0
    while i < len(states):
        sa, sb, dpt = states[i]
        res.c["states"] += 1
        if check_goal:
            ga_, gb_ = A.is_goal(sa), B.is_goal(sb)
            if ga_ != gb_:
                res.diff("goal", "goal verdict A=%s B=%s in state %s" % (ga_, gb_, _short(sa)), {"state": _jstate(sa)})
        if dpt < depth:
            for ga, gb in pairs:
                res.c["transitions"] += 1
                na, why_a = A.apply(sa, ga[0], ga[1])
                if gb is None:
                    nb, why_b = None, "no such ground action in B"
                else:
                    nb, why_b = B.apply(sb, gb[0], gb[1])
                if (na is not None and na != sa) or (na is None and why_a != "precondition"):
                    res.c["nontrivial"] += 1
                res.out("applicable" if na is not None else str(why_a).split(":")[0].split(" ")[0])
                if (na is None) != (nb is None):
                    res.diff(
                        "applicability",
                        "%s%s in state %s: A %s, B %s"
                        % (ga[0], list(ga[1]), _short(sa),
                           "applicable" if na is not None else "inapplicable (%s)" % why_a,
                           "applicable" if nb is not None else "inapplicable (%s)" % why_b),
                        {"state": _jstate(sa), "action": [ga[0], list(ga[1])]},
                    )
                    agreed[i] = False
                    continue
                if na is None:
                    continue
                dd = _state_diff(A, ren, na, nb)
                if dd:
                    res.diff(
                        "successor",
                        "%s%s in state %s: successors differ (fluent, A, B): %s" % (ga[0], list(ga[1]), _short(sa), dd[:3]),
                        {"state": _jstate(sa), "action": [ga[0], list(ga[1])], "fluent": list(dd[0][0])},
                    )
                    agreed[i] = False
                    continue
                k = canon(na)
                if k not in idx and len(states) < max_states:
                    idx[k] = len(states)
                    states.append((na, nb, dpt + 1))
                    agreed[idx[k]] = agreed.get(i, True)
                    has_child.add(i)
            for gb in extras:
                nb, _why = B.apply(sb, gb[0], gb[1])
                if nb is not None:
                    res.diff("extra-action", "B-only ground action %s%s applicable in state %s" % (gb[0], list(gb[1]), _short(sa)),
                             {"state": _jstate(sa), "action": [gb[0], list(gb[1])]})
        i += 1
    res.c["traces"] = sum(1 for j in range(len(states)) if j not in has_child and agreed.get(j, True))
    res.pairs = [(sa, sb) for sa, sb, _d in states]

    # ---- metric on all executable plans <= k -------------------------------------
    ma, mb = spec_a.get("metric"), spec_b.get("metric")
    if check_metric and plan_k and (ma is not None or mb is not None):
        if (ma is None) != (mb is None):
            res.diff("metric", "metric present on one side only: A=%r B=%r" % (ma, mb), None)
        else:
            _plans(A, B, ren, pairs, [ia], [ib], [], [], plan_k, res)
    return res


def _plans(A, B, ren, pairs, sas, sbs, stepa, stepb, k, res):
    res.c["plans"] += 1
    va, vb = _metric(A, sas, stepa), _metric(B, sbs, stepb)
    if va[0] != vb[0] or (va[0] == "v" and not same(va[1], vb[1])):
        res.diff("metric", "plan %s: metric A=%s B=%s" % ([[a, list(x)] for a, x in stepa], va, vb),
                 {"plan": [[a, list(x)] for a, x in stepa]})
        return
    if k == 0:
        return
    for ga, gb in pairs:
        if gb is None:
            continue
        na, _ = A.apply(sas[-1], ga[0], ga[1])
        if na is None:
            continue
        nb, _ = B.apply(sbs[-1], gb[0], gb[1])
        if nb is None:
            continue  # reported by the BFS part
        _plans(A, B, ren, pairs, sas + [na], sbs + [nb], stepa + [ga], stepb + [gb], k - 1, res)


def _short(st):
    out = []
    for k, v in sorted(st.items(), key=lambda kv: repr(kv[0])):
        if v is False or v == 0:
            continue
        out.append("%s(%s)=%s" % (k[0], ",".join(map(str, k[1:])), v) if len(k) > 1 else "%s=%s" % (k[0], v))
    return "{" + " ".join(out) + "}"


def _jstate(st):
    return [[list(k), str(v)] for k, v in sorted(st.items(), key=lambda kv: repr(kv[0]))]
