"""Reference evaluator of expression specs. Exact (int / Fraction), strict, boring.

Values: bool | int | Fraction | object name (str).
An interpretation `I`:
  I.fl      dict  ground fluent key (name, argvalue, ...) -> value      (missing = undefined)
  I.params  dict  parameter name -> value
  I.vars    dict  (vname, tname) -> object name
  I.objs    callable  tname -> list of object names of that type incl. subtypes
  I.ifuns   dict  name -> python callable
Undefined (missing fluent, division by zero) raises Bottom.
"""
from __future__ import annotations

from fractions import Fraction
from itertools import product


class Bottom(Exception):
    pass


class Interp:
    def __init__(self, fl=None, params=None, vars=None, objs=None, ifuns=None):
        self.fl = fl if fl is not None else {}
        self.params = params if params is not None else {}
        self.vars = vars if vars is not None else {}
        self.objs = objs if objs is not None else (lambda t: [])
        self.ifuns = ifuns if ifuns is not None else {}

    def with_params(self, params):
        return Interp(self.fl, params, self.vars, self.objs, self.ifuns)

    def with_vars(self, extra):
        v = dict(self.vars)
        v.update(extra)
        return Interp(self.fl, self.params, v, self.objs, self.ifuns)

    def with_fl(self, fl):
        return Interp(fl, self.params, self.vars, self.objs, self.ifuns)


def norm(v):
    """Canonical value: integral Fractions become int; bool stays bool."""
    if isinstance(v, bool):
        return v
    if isinstance(v, Fraction) and v.denominator == 1:
        return int(v)
    return v


def ev(s, I):
    t = s[0]
    if t == "b":
        return bool(s[1])
    if t == "i":
        return int(s[1])
    if t == "r":
        return norm(Fraction(s[1], s[2]))
    if t == "o":
        return s[1]
    if t == "p":
        return I.params[s[1]]
    if t == "v":
        return I.vars[(s[1], s[2])]
    if t == "f":
        key = (s[1],) + tuple(ev(a, I) for a in s[2:])
        if key not in I.fl:
            raise Bottom(key)
        return I.fl[key]
    if t == "and":
        vals = [ev(a, I) for a in s[1:]]
        return all(vals)
    if t == "or":
        vals = [ev(a, I) for a in s[1:]]
        return any(vals)
    if t == "not":
        return not ev(s[1], I)
    if t == "implies":
        a, b = ev(s[1], I), ev(s[2], I)
        return (not a) or b
    if t == "iff":
        a, b = ev(s[1], I), ev(s[2], I)
        return a == b
    if t in ("exists", "forall"):
        doms = [I.objs(tn) for _, tn in s[1]]
        vals = []
        for combo in product(*doms):
            vals.append(ev(s[2], I.with_vars(dict(zip(s[1], combo)))))
        return any(vals) if t == "exists" else all(vals)
    if t == "eq":
        return ev(s[1], I) == ev(s[2], I)
    if t == "le":
        return ev(s[1], I) <= ev(s[2], I)
    if t == "lt":
        return ev(s[1], I) < ev(s[2], I)
    if t == "+":
        r = 0
        for a in s[1:]:
            r = r + ev(a, I)
        return norm(r)
    if t == "-":
        return norm(ev(s[1], I) - ev(s[2], I))
    if t == "*":
        r = 1
        for a in s[1:]:
            r = r * ev(a, I)
        return norm(r)
    if t == "/":
        a, b = ev(s[1], I), ev(s[2], I)
        if b == 0:
            raise Bottom("div0")
        return norm(Fraction(a) / Fraction(b))
    if t == "ifun":
        return norm(I.ifuns[s[1]](*[ev(a, I) for a in s[2:]]))
    if t == "dot":
        return ev(s[2], I)
    raise ValueError("ref.eval: unsupported %r" % (s,))


def truth(s, I):
    """A condition that reads an undefined fluent is never satisfied."""
    try:
        return ev(s, I) is True
    except Bottom:
        return False


def fluents_read(s, I, acc):
    """Ground fluent keys read while evaluating s under I (strict, all instances)."""
    t = s[0]
    if t == "f":
        for a in s[2:]:
            fluents_read(a, I, acc)
        try:
            acc.add((s[1],) + tuple(ev(a, I) for a in s[2:]))
        except Bottom:
            pass
        return
    if t in ("exists", "forall"):
        doms = [I.objs(tn) for _, tn in s[1]]
        for combo in product(*doms):
            fluents_read(s[2], I.with_vars(dict(zip(s[1], combo))), acc)
        return
    if t in ("b", "i", "r", "o", "p", "v"):
        return
    start = 2 if t in ("ifun", "dot") else 1
    for a in s[start:]:
        if isinstance(a, tuple):
            fluents_read(a, I, acc)
