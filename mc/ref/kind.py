"""Independent syntactic feature extractor (DESIGN 4/C10).

`extract(problem)` returns {feature: set(position labels)} of the CLEAR-CUT features a problem
syntactically uses, reading the model only through its public accessors (never through
`_KindFactory`, `OperatorsExtractor`, `FreeVarsExtractor`, `_get_static_and_unused_fluents`).

Demanded features (exactly the list of property C10's statement):
  typing                 FLAT_TYPING, HIERARCHICAL_TYPING
  fluent/parameter types INT_FLUENTS, REAL_FLUENTS, OBJECT_FLUENTS, BOOL/BOUNDED_INT_FLUENT_PARAMETERS,
                         BOOL/BOUNDED_INT/UNBOUNDED_INT/REAL_ACTION_PARAMETERS
  numeric bounds         BOUNDED_TYPES
  conditions             NEGATIVE_CONDITIONS, DISJUNCTIVE_CONDITIONS (Or, Implies - not Iff), EQUALITIES,
                         EXISTENTIAL_CONDITIONS, UNIVERSAL_CONDITIONS   in every condition position
  effects                CONDITIONAL_EFFECTS, FORALL_EFFECTS, INCREASE_EFFECTS, DECREASE_EFFECTS,
                         INCREASE/DECREASE_CONTINUOUS_EFFECTS
  fluent dependence      (STATIC_)FLUENTS_IN_{BOOLEAN,NUMERIC,OBJECT}_ASSIGNMENTS, (STATIC_)FLUENTS_IN_DURATIONS,
                         (STATIC_)FLUENTS_IN_ACTIONS_COST
  time                   TIMED_EFFECTS, TIMED_GOALS, and "some time model" (CONTINUOUS_TIME or DISCRETE_TIME)
                         whenever the problem has durative actions / timed effects / timed goals
  constraints            STATE_INVARIANTS, TRAJECTORY_CONSTRAINTS
  metrics                ACTIONS_COST, FINAL_VALUE, MAKESPAN, PLAN_LENGTH, OVERSUBSCRIPTION,
                         TEMPORAL_OVERSUBSCRIPTION, INT/REAL_NUMBERS_IN_ACTIONS_COST, INT/REAL_NUMBERS_IN_OVERSUBSCRIPTION
  initial state          UNDEFINED_INITIAL_NUMERIC, UNDEFINED_INITIAL_SYMBOLIC
  class                  HIERARCHICAL, ACTION_BASED_MULTI_AGENT, SCHEDULING, CONTINGENT

A feature key "A|B" means "A or B must be present" (used for STATIC_x|x: a fluent the extractor
finds static may be reported by the library as the more general non-static feature, and for
CONTINUOUS_TIME|DISCRETE_TIME).

NOT demanded (scope): SIMPLE/GENERAL_NUMERIC_PLANNING, Iff as a disjunction, boolean operators
inside effect VALUES or metric expressions, DURATION_INEQUALITIES, INTERMEDIATE/EXTERNAL conditions,
interpreted functions, simulated effects, HTN ordering features, INT/REAL_FLUENTS for a numeric
fluent that is only declared or only read by durations / action costs (the library documents
that those are covered by the duration / cost features).
"""
from __future__ import annotations

from fractions import Fraction
from itertools import product

import unified_planning as up
from unified_planning.model.operators import OperatorKind as OK

_COND_OPS = {
    OK.NOT: "NEGATIVE_CONDITIONS",
    OK.OR: "DISJUNCTIVE_CONDITIONS",
    OK.IMPLIES: "DISJUNCTIVE_CONDITIONS",
    OK.EQUALS: "EQUALITIES",
    OK.EXISTS: "EXISTENTIAL_CONDITIONS",
    OK.FORALL: "UNIVERSAL_CONDITIONS",
}


def _walk(e):
    """All sub-nodes of an expression (iterative, public accessors only)."""
    stack = [e]
    seen = set()
    while stack:
        n = stack.pop()
        if id(n) in seen:
            continue
        seen.add(id(n))
        yield n
        stack.extend(n.args)


def ops_of(e):
    return {n.node_type for n in _walk(e)}


def fluents_of(e):
    """Fluent objects read anywhere inside e (including nested in fluent arguments)."""
    return [n.fluent() for n in _walk(e) if n.node_type == OK.FLUENT_EXP]


class Extract:
    def __init__(self):
        self.f = {}

    def add(self, feature, pos):
        self.f.setdefault(feature, set()).add(pos)

    # -- pieces --------------------------------------------------------------------
    def type_(self, t, pos):
        if t.is_user_type():
            self.add("FLAT_TYPING", pos)
            if t.father is not None:
                self.add("HIERARCHICAL_TYPING", pos)

    def cond(self, e, pos):
        for o in ops_of(e):
            ft = _COND_OPS.get(o)
            if ft is not None:
                self.add(ft, pos)

    def action_param(self, p, pos):
        t = p.type
        self.type_(t, pos + ".param")
        if t.is_bool_type():
            self.add("BOOL_ACTION_PARAMETERS", pos + ".param")
        elif t.is_real_type():
            self.add("REAL_ACTION_PARAMETERS", pos + ".param")
        elif t.is_int_type():
            if t.lower_bound is None or t.upper_bound is None:
                self.add("UNBOUNDED_INT_ACTION_PARAMETERS", pos + ".param")
            else:
                self.add("BOUNDED_INT_ACTION_PARAMETERS", pos + ".param")

    def fluent_decl(self, fl, pos="fluent"):
        t = fl.type
        if not (t.is_int_type() or t.is_real_type()):
            self.type_(t, pos + ".type")
        if t.is_int_type() or t.is_real_type():
            if t.lower_bound is not None or t.upper_bound is not None:
                self.add("BOUNDED_TYPES", pos + ".type")
        elif t.is_user_type():
            self.add("OBJECT_FLUENTS", pos + ".type")
        for p in fl.signature:
            pt = p.type
            self.type_(pt, pos + ".signature")
            if pt.is_bool_type():
                self.add("BOOL_FLUENT_PARAMETERS", pos + ".signature")
            elif pt.is_int_type() and pt.lower_bound is not None and pt.upper_bound is not None:
                self.add("BOUNDED_INT_FLUENT_PARAMETERS", pos + ".signature")

    def read(self, e, pos):
        """numeric fluents READ (or written) in a position other than durations / action costs"""
        for fl in fluents_of(e):
            if fl.type.is_int_type():
                self.add("INT_FLUENTS", pos)
            elif fl.type.is_real_type():
                self.add("REAL_FLUENTS", pos)

    def effect(self, e, pos, static):
        self.read(e.fluent, pos + ".target")
        self.read(e.value, pos + ".value")
        if e.is_conditional():
            self.add("CONDITIONAL_EFFECTS", pos)
            self.cond(e.condition, pos + ".condition")
            self.read(e.condition, pos + ".condition")
        if e.is_forall():
            self.add("FORALL_EFFECTS", pos)
        k = e.kind.name
        if k == "INCREASE":
            self.add("INCREASE_EFFECTS", pos)
        elif k == "DECREASE":
            self.add("DECREASE_EFFECTS", pos)
        elif k == "CONTINUOUS_INCREASE":
            self.add("INCREASE_CONTINUOUS_EFFECTS", pos)
            return
        elif k == "CONTINUOUS_DECREASE":
            self.add("DECREASE_CONTINUOUS_EFFECTS", pos)
            return
        vt = e.value.type
        if k in ("INCREASE", "DECREASE") or vt.is_int_type() or vt.is_real_type():
            grp = "NUMERIC"
        elif vt.is_bool_type():
            grp = "BOOLEAN"
        elif vt.is_user_type():
            grp = "OBJECT"
        else:
            return
        for fl in fluents_of(e.value):
            if fl in static:
                self.add("STATIC_FLUENTS_IN_%s_ASSIGNMENTS|FLUENTS_IN_%s_ASSIGNMENTS" % (grp, grp), pos + ".value")
            else:
                self.add("FLUENTS_IN_%s_ASSIGNMENTS" % grp, pos + ".value")

    def duration(self, d, pos, static):
        for b, nm in ((d.lower, "lower"), (d.upper, "upper")):
            for fl in fluents_of(b):
                if fl in static:
                    self.add("STATIC_FLUENTS_IN_DURATIONS|FLUENTS_IN_DURATIONS", pos + ".duration." + nm)
                else:
                    self.add("FLUENTS_IN_DURATIONS", pos + ".duration." + nm)

    def time(self, pos):
        self.add("CONTINUOUS_TIME|DISCRETE_TIME", pos)

    def action(self, a, pos, static):
        for p in a.parameters:
            self.action_param(p, pos)
        if isinstance(a, up.model.InstantaneousAction):
            for c in a.preconditions:
                self.cond(c, pos + ".precondition")
                self.read(c, pos + ".precondition")
            for e in a.effects:
                self.effect(e, pos + ".effect", static)
        elif isinstance(a, up.model.DurativeAction):
            self.time(pos)
            self.duration(a.duration, pos, static)
            for _iv, cl in a.conditions.items():
                for c in cl:
                    self.cond(c, pos + ".condition")
                    self.read(c, pos + ".condition")
            for _t, el in a.effects.items():
                for e in el:
                    self.effect(e, pos + ".effect", static)
            for _iv, el in a.continuous_effects.items():
                for e in el:
                    self.effect(e, pos + ".continuous_effect", static)

    def metric(self, m, static):
        if m.is_minimize_action_costs():
            self.add("ACTIONS_COST", "metric")
            costs = [(("cost", c)) for c in m.costs.values() if c is not None]
            if m.default is not None:
                costs.append(("default_cost", m.default))
            for nm, c in costs:
                if c.type.is_int_type():
                    self.add("INT_NUMBERS_IN_ACTIONS_COST", "metric." + nm)
                elif c.type.is_real_type():
                    self.add("REAL_NUMBERS_IN_ACTIONS_COST", "metric." + nm)
                for fl in fluents_of(c):
                    if fl in static:
                        self.add("STATIC_FLUENTS_IN_ACTIONS_COST|FLUENTS_IN_ACTIONS_COST", "metric." + nm)
                    else:
                        self.add("FLUENTS_IN_ACTIONS_COST", "metric." + nm)
        elif m.is_minimize_expression_on_final_state() or m.is_maximize_expression_on_final_state():
            self.add("FINAL_VALUE", "metric")
            self.read(m.expression, "metric.final_value")
        elif m.is_minimize_makespan():
            self.add("MAKESPAN", "metric")
        elif m.is_minimize_sequential_plan_length():
            self.add("PLAN_LENGTH", "metric")
        elif m.is_oversubscription() or m.is_temporal_oversubscription():
            temporal = m.is_temporal_oversubscription()
            pos = "metric.temporal_oversubscription" if temporal else "metric.oversubscription"
            self.add("TEMPORAL_OVERSUBSCRIPTION" if temporal else "OVERSUBSCRIPTION", "metric")
            for key, gain in m.goals.items():
                g = key[1] if temporal else key
                self.cond(g, pos + ".goal")
                self.read(g, pos + ".goal")
                if isinstance(gain, bool):
                    continue
                if isinstance(gain, int):
                    self.add("INT_NUMBERS_IN_OVERSUBSCRIPTION", pos + ".gain")
                elif isinstance(gain, Fraction):
                    self.add("REAL_NUMBERS_IN_OVERSUBSCRIPTION", pos + ".gain")

    def undefined(self, pb):
        """a ground fluent without default and without explicit initial value"""
        try:
            defaults = pb.fluents_defaults
            explicit = pb.explicit_initial_values
            fluents = pb.fluents
        except AttributeError:
            return
        have = {}
        for fe in explicit:
            if fe.node_type == OK.FLUENT_EXP:
                have.setdefault(fe.fluent(), set()).add(tuple(str(a) for a in fe.args))
        for fl in fluents:
            if fl in defaults and defaults[fl] is not None:
                continue
            doms = []
            ok = True
            for p in fl.signature:
                t = p.type
                if t.is_user_type():
                    doms.append([o.name for o in pb.objects(t)])
                elif t.is_bool_type():
                    doms.append(["true", "false"])
                elif t.is_int_type() and t.lower_bound is not None and t.upper_bound is not None:
                    doms.append([str(i) for i in range(t.lower_bound, t.upper_bound + 1)])
                else:
                    ok = False
            if not ok:
                continue
            got = have.get(fl, set())
            if any(g not in got for g in product(*doms)):
                if fl.type.is_int_type() or fl.type.is_real_type():
                    self.add("UNDEFINED_INITIAL_NUMERIC", "init")
                else:
                    self.add("UNDEFINED_INITIAL_SYMBOLIC", "init")


def _effects_of_action(a):
    if isinstance(a, up.model.InstantaneousAction):
        for e in a.effects:
            yield e
        se = a.simulated_effect
        if se is not None:
            for f in se.fluents:
                yield f
    elif isinstance(a, up.model.DurativeAction):
        for el in a.effects.values():
            for e in el:
                yield e
        for el in a.continuous_effects.values():
            for e in el:
                yield e
        for se in a.simulated_effects.values():
            for f in se.fluents:
                yield f


def static_fluents(pb):
    """fluents no effect of any action / event / process / timed effect targets"""
    written = set()

    def tgt(x):
        fe = x.fluent if isinstance(x, up.model.Effect) else x
        if fe.node_type == OK.DOT:
            fe = fe.arg(0)
        written.add(fe.fluent())

    for a in getattr(pb, "actions", []):
        for e in _effects_of_action(a):
            tgt(e)
    for ev in getattr(pb, "events", []):
        for e in ev.effects:
            tgt(e)
        if ev.simulated_effect is not None:
            for f in ev.simulated_effect.fluents:
                tgt(f)
    for pr in getattr(pb, "processes", []):
        for e in pr.effects:
            tgt(e)
    for el in getattr(pb, "timed_effects", {}).values():
        for e in el:
            tgt(e)
    if isinstance(pb, up.model.scheduling.SchedulingProblem):
        for _t, e in pb.base_effects:
            tgt(e)
        for act in pb.activities:
            for el in act.effects.values():
                for e in el:
                    tgt(e)
    return {f for f in pb.fluents if f not in written}


def extract(pb):
    """{feature (or 'A|B'): set(positions)} for any AbstractProblem subclass of the library."""
    x = Extract()
    MA = up.model.multi_agent.MultiAgentProblem
    SCH = up.model.scheduling.SchedulingProblem
    HTN = up.model.htn.HierarchicalProblem
    CONT = up.model.contingent.ContingentProblem
    if isinstance(pb, MA):
        _extract_ma(pb, x)
        return x.f
    static = static_fluents(pb)
    for fl in pb.fluents:
        x.fluent_decl(fl)
    for o in pb.all_objects:
        x.type_(o.type, "object")
    if isinstance(pb, SCH):
        x.add("SCHEDULING", "class")
        _extract_sched(pb, x, static)
    else:
        if isinstance(pb, HTN):
            x.add("HIERARCHICAL", "class")
            for m in pb.methods:
                for c in m.preconditions:
                    x.cond(c, "method.precondition")
                    x.read(c, "method.precondition")
                for c in m.non_temporal_constraints():
                    x.cond(c, "method.constraint")
                    x.read(c, "method.constraint")
            for c in pb.task_network.non_temporal_constraints():
                x.cond(c, "task_network.constraint")
                x.read(c, "task_network.constraint")
        if isinstance(pb, CONT):
            x.add("CONTINGENT", "class")
        for a in pb.actions:
            if isinstance(a, up.model.contingent.SensingAction):
                x.add("CONTINGENT", "sensing_action")
            x.action(a, "action" if isinstance(a, up.model.InstantaneousAction) else "durative_action", static)
        for ev in pb.events:
            for p in ev.parameters:
                x.action_param(p, "event")
            for c in ev.preconditions:
                x.cond(c, "event.precondition")
                x.read(c, "event.precondition")
            for e in ev.effects:
                x.effect(e, "event.effect", static)
        for pr in pb.processes:
            for p in pr.parameters:
                x.action_param(p, "process")
            for c in pr.preconditions:
                x.cond(c, "process.precondition")
                x.read(c, "process.precondition")
            for e in pr.effects:
                x.effect(e, "process.effect", static)
        if pb.timed_effects:
            x.add("TIMED_EFFECTS", "timed_effect")
            x.time("timed_effect")
            for el in pb.timed_effects.values():
                for e in el:
                    x.effect(e, "timed_effect", static)
        if pb.timed_goals:
            x.add("TIMED_GOALS", "timed_goal")
            x.time("timed_goal")
            for gl in pb.timed_goals.values():
                for g in gl:
                    x.cond(g, "timed_goal")
                    x.read(g, "timed_goal")
        for g in pb.goals:
            x.cond(g, "goal")
            x.read(g, "goal")
        for tc in pb.trajectory_constraints:
            if tc.node_type == OK.ALWAYS:
                x.add("STATE_INVARIANTS", "trajectory")
                x.cond(tc, "invariant")
                x.read(tc, "invariant")
            else:
                x.add("TRAJECTORY_CONSTRAINTS", "trajectory")
                x.cond(tc, "trajectory")
                x.read(tc, "trajectory")
    for m in pb.quality_metrics:
        x.metric(m, static)
    x.undefined(pb)
    return x.f


def _extract_sched(pb, x, static):
    x.time("scheduling")
    if pb.base_conditions:
        x.add("TIMED_GOALS", "scheduling.base_condition")
    if pb.base_effects:
        x.add("TIMED_EFFECTS", "scheduling.base_effect")
    for _iv, c in pb.base_conditions:
        x.cond(c, "scheduling.base_condition")
        x.read(c, "scheduling.base_condition")
    for c, _scope in pb.base_scoped_constraints:
        x.cond(c, "scheduling.base_constraint")
        x.read(c, "scheduling.base_constraint")
    for _t, e in pb.base_effects:
        x.effect(e, "scheduling.base_effect", static)
    for act in pb.activities:
        x.duration(act.duration, "activity", static)
        for p in act.parameters:
            x.action_param(p, "activity")
        for _t, el in act.effects.items():
            for e in el:
                x.effect(e, "activity.effect", static)
        for _iv, cl in act.conditions.items():
            for c in cl:
                x.cond(c, "activity.condition")
                x.read(c, "activity.condition")
        for c, _scope in act.scoped_constraints:
            x.cond(c, "activity.constraint")
            x.read(c, "activity.constraint")


def _extract_ma(pb, x):
    x.add("ACTION_BASED_MULTI_AGENT", "class")
    written = set()
    fls = list(pb.ma_environment.fluents)
    for ag in pb.agents:
        fls.extend(ag.fluents)
        for a in ag.actions:
            for e in _effects_of_action(a):
                fe = e.fluent if isinstance(e, up.model.Effect) else e
                if fe.node_type == OK.DOT:
                    fe = fe.arg(0)
                written.add(fe.fluent())
    static = {f for f in fls if f not in written}
    for fl in fls:
        x.fluent_decl(fl)
        # the MA kind has no notion of "unused" fluents: a declared numeric fluent counts
    for o in pb.all_objects:
        x.type_(o.type, "object")
    for ag in pb.agents:
        for a in ag.actions:
            x.action(a, "ma.action" if isinstance(a, up.model.InstantaneousAction) else "ma.durative_action", static)
        for g in ag.public_goals:
            x.cond(g, "ma.public_goal")
            x.read(g, "ma.public_goal")
        for g in ag.private_goals:
            x.cond(g, "ma.private_goal")
            x.read(g, "ma.private_goal")
    for g in pb.goals:
        x.cond(g, "ma.goal")
        x.read(g, "ma.goal")


def missing(extracted, kind_features):
    """[(feature key, sorted positions)] demanded but absent from the kind."""
    out = []
    for key, pos in sorted(extracted.items()):
        if not any(alt in kind_features for alt in key.split("|")):
            out.append((key, sorted(pos)))
    return out
