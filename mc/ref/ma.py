"""Reference semantics of multi-agent problem specs (C37).  No UP imports.

MA problem spec (plain data, produced by mc/gen/uma.py):
  types, objects                                     as in mc/gen/problem.py
  env_fluents  ((name, typespec, sig, default|None), ...)        public environment fluents
  agents       ({"name", "fluents": ((name, typespec, sig, default|None), ...),
                 "public": (fluent name, ...), "actions": (action spec, ...)}, ...)
  init         ((fluent expr | ("dot", agent, fluent expr), const), ...)
  goals        (expr, ...)

Fluent resolution (the evaluation of agent-local / public / Dot fluents):
  ("dot", ag, f(args))  is the fluent f of agent `ag`;
  an undotted f(args) inside an action of agent `ag` is ag's own fluent f if ag declares one,
  otherwise the environment fluent f, otherwise the fluent f of the only agent declaring it;
  an undotted f(args) in a goal is the environment fluent f, otherwise the fluent f of the only
  agent declaring it.  Anything else is AmbiguousFluent (the check skips, never judges).

The resolved problem is a plain single-agent spec whose ground fluents are named
"<agent>.<fluent>" / "<fluent>" and whose actions are named "<agent>.<action>"; action
application, goal test and ground actions are those of mc/ref/seqsem.RefProblem, i.e. the same
sequential semantics as everywhere else.
"""
from __future__ import annotations

from .seqsem import RefProblem

SEP = "."


class AmbiguousFluent(Exception):
    pass


def _owners(ms):
    env = {f[0] for f in ms.get("env_fluents", ())}
    ag = {a["name"]: {f[0] for f in a["fluents"]} for a in ms["agents"]}
    return env, ag


def resolve(e, ctx_agent, env_fl, ag_fl):
    """rewrite an expression so that every fluent carries its owner in its name."""
    if not isinstance(e, tuple) or not e:
        return e
    t = e[0]
    if t == "dot":
        ag, inner = e[1], e[2]
        if inner[0] != "f":
            # Dot over a compound: every undotted fluent inside is the agent's
            return resolve(inner, ag, env_fl, ag_fl)
        if ag not in ag_fl or inner[1] not in ag_fl[ag]:
            raise AmbiguousFluent("agent %s has no fluent %s" % (ag, inner[1]))
        return ("f", ag + SEP + inner[1]) + tuple(resolve(a, ctx_agent, env_fl, ag_fl) for a in inner[2:])
    if t == "f":
        name = e[1]
        args = tuple(resolve(a, ctx_agent, env_fl, ag_fl) for a in e[2:])
        if ctx_agent is not None and name in ag_fl.get(ctx_agent, ()):
            return ("f", ctx_agent + SEP + name) + args
        if name in env_fl:
            return ("f", name) + args
        owners = [ag for ag, fl in ag_fl.items() if name in fl]
        if len(owners) == 1:
            return ("f", owners[0] + SEP + name) + args
        raise AmbiguousFluent("undotted fluent %s in the context of %s" % (name, ctx_agent))
    if t in ("exists", "forall"):
        return (t, e[1], resolve(e[2], ctx_agent, env_fl, ag_fl))
    if t in ("b", "i", "r", "o", "p", "v"):
        return e
    return (t,) + tuple(resolve(a, ctx_agent, env_fl, ag_fl) if isinstance(a, tuple) else a for a in e[1:])


def flatten(ms):
    """MA spec -> plain problem spec (see module doc). Raises AmbiguousFluent."""
    env_fl, ag_fl = _owners(ms)
    fluents = [tuple(f) for f in ms.get("env_fluents", ())]
    actions = []
    for a in ms["agents"]:
        an = a["name"]
        for f in a["fluents"]:
            fluents.append((an + SEP + f[0],) + tuple(f[1:]))
        for act in a["actions"]:
            effs = []
            for kind, fl, val, cond, fa in act["eff"]:
                effs.append(
                    (
                        kind,
                        resolve(fl, an, env_fl, ag_fl),
                        resolve(val, an, env_fl, ag_fl),
                        None if cond is None else resolve(cond, an, env_fl, ag_fl),
                        tuple(fa),
                    )
                )
            actions.append(
                {
                    "name": an + SEP + act["name"],
                    "params": tuple(act["params"]),
                    "pre": tuple(resolve(p, an, env_fl, ag_fl) for p in act["pre"]),
                    "eff": tuple(effs),
                }
            )
    init = tuple((resolve(f, None, env_fl, ag_fl), v) for f, v in ms.get("init", ()))
    return {
        "name": ms.get("name", "ma"),
        "types": tuple(ms.get("types", ())),
        "objects": tuple(ms.get("objects", ())),
        "fluents": tuple(fluents),
        "actions": tuple(actions),
        "init": init,
        "goals": tuple(resolve(g, None, env_fl, ag_fl) for g in ms.get("goals", ())),
        "traj": (),
        "metric": None,
    }


class MARef(RefProblem):
    """RefProblem over the resolved spec; ground actions are ("<agent>.<action>", args)."""

    def __init__(self, ms):
        self.ms = ms
        RefProblem.__init__(self, flatten(ms), {})

    @staticmethod
    def split(flat_action_name):
        ag, _, an = flat_action_name.partition(SEP)
        return ag, an

    def all_boolean_states(self):
        """ALL assignments of the (Boolean) ground fluents."""
        from itertools import product

        keys = self.ground_fluents
        for vals in product((False, True), repeat=len(keys)):
            yield dict(zip(keys, vals))
