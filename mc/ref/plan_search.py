"""Exact breadth-first planner over the reference semantics, wrapped as a unified_planning
Engine so that the meta-engines (C31) can be driven offline.

* returns only reference-valid plans,
* complete on finite reachable graphs: explores the FULL reachable graph and proves
  unsolvability by exhausting it (status UNSOLVABLE_PROVEN); if the state cap is hit the status
  is UNSOLVABLE_INCOMPLETELY (never reached by the C31 universe, asserted there).
"""
from __future__ import annotations

from typing import Callable, IO, Optional

import unified_planning as up
import unified_planning.engines as engines
from unified_planning.engines.mixins import OneshotPlannerMixin
from unified_planning.engines.results import PlanGenerationResult, PlanGenerationResultStatus
from unified_planning.model import ProblemKind

from mc.gen import problem as gp
from mc.ref.seqsem import RefProblem, canon

STATE_CAP = 20000
CALLS = []  # (problem name, status) log, for the harness


def collect_ifuns(problem):
    out = {}

    def walk(n):
        if n.is_interpreted_function_exp():
            f = n.interpreted_function()
            out[f.name] = f.function
        for a in n.args:
            walk(a)

    for a in problem.actions:
        if isinstance(a, up.model.InstantaneousAction):
            for p in a.preconditions:
                walk(p)
            for e in a.effects:
                walk(e.value)
                walk(e.condition)
                walk(e.fluent)
    for g in problem.goals:
        walk(g)
    return out


def full_graph(ref, cap=STATE_CAP):
    """BFS of the whole reachable graph. -> (states, parent, complete)"""
    init = ref.initial_state()
    idx = {canon(init): 0}
    states = [init]
    parent = {0: None}
    gas = ref.ground_actions()
    i = 0
    complete = True
    while i < len(states):
        st = states[i]
        for j, (an, args) in enumerate(gas):
            nxt, _ = ref.apply(st, an, args)
            if nxt is None:
                continue
            k = canon(nxt)
            if k not in idx:
                if len(states) >= cap:
                    complete = False
                    continue
                idx[k] = len(states)
                states.append(nxt)
                parent[idx[k]] = (i, j)
        i += 1
    return states, parent, gas, complete


def path_to(parent, gas, i):
    steps = []
    while parent[i] is not None:
        p, j = parent[i]
        steps.append(gas[j])
        i = p
    steps.reverse()
    return steps


class McBfsPlanner(engines.Engine, OneshotPlannerMixin):
    def __init__(self, **options):
        engines.Engine.__init__(self)
        OneshotPlannerMixin.__init__(self)

    @property
    def name(self) -> str:
        return "mc_bfs"

    @staticmethod
    def supported_kind() -> ProblemKind:
        from unified_planning.engines.sequential_simulator import UPSequentialSimulator

        k = UPSequentialSimulator.supported_kind()
        k.set_parameters("UNBOUNDED_INT_ACTION_PARAMETERS")
        k.set_parameters("REAL_ACTION_PARAMETERS")
        return k

    @staticmethod
    def supports(problem_kind) -> bool:
        return problem_kind <= McBfsPlanner.supported_kind()

    @staticmethod
    def satisfies(optimality_guarantee) -> bool:
        return optimality_guarantee == up.engines.OptimalityGuarantee.SATISFICING

    def _solve(
        self,
        problem: "up.model.AbstractProblem",
        heuristic: Optional[Callable] = None,
        timeout: Optional[float] = None,
        output_stream: Optional[IO[str]] = None,
    ) -> PlanGenerationResult:
        from unified_planning.plans import SequentialPlan, ActionInstance
        from mc.checks.compcommon import _val

        ps = gp.problem_to_spec(problem)
        if "unsupported" in ps:
            CALLS.append((problem.name, "UNSUPPORTED"))
            return PlanGenerationResult(PlanGenerationResultStatus.UNSUPPORTED_PROBLEM, None, self.name)
        try:
            ref = RefProblem(ps, collect_ifuns(problem))
            states, parent, gas, complete = full_graph(ref)
        except Exception as e:
            CALLS.append((problem.name, "INTERNAL_ERROR:%s" % type(e).__name__))
            return PlanGenerationResult(PlanGenerationResultStatus.INTERNAL_ERROR, None, self.name)
        from mc.checks.compcommon import Compiled

        for i, st in enumerate(states):
            if ref.is_goal(st):
                steps = path_to(parent, gas, i)
                if ref.other_traj:
                    sts = Compiled.run(ref, steps)
                    if not Compiled.traj_ok(ref, sts):
                        continue
                em = problem.environment.expression_manager
                ais = [
                    ActionInstance(problem.action(an), tuple(_val(em, problem, a) for a in args))
                    for an, args in steps
                ]
                CALLS.append((problem.name, "SOLVED"))
                return PlanGenerationResult(
                    PlanGenerationResultStatus.SOLVED_SATISFICING,
                    SequentialPlan(ais, problem.environment),
                    self.name,
                )
        status = PlanGenerationResultStatus.UNSOLVABLE_PROVEN if complete else PlanGenerationResultStatus.UNSOLVABLE_INCOMPLETELY
        CALLS.append((problem.name, status.name))
        return PlanGenerationResult(status, None, self.name)
