"""Reference sequential semantics on problem specs (DESIGN Appendix A.1). No UP imports.

A state is a dict  ground-fluent key (name, arg, ...) -> value ; missing key = undefined.
"""
from __future__ import annotations

from fractions import Fraction
from itertools import product

from .eval import Interp, Bottom, ev, truth, norm, fluents_read


def const_val(s):
    return ev(s, Interp())


def canon(state):
    return tuple(sorted(state.items(), key=lambda kv: repr(kv[0])))


class RefProblem:
    def __init__(self, ps, ifun_impl=None):
        self.ps = ps
        self.types = dict(ps.get("types", ()))  # name -> father
        self.objects = list(ps.get("objects", ()))
        self._objs_cache = {}
        self.fluents = {}  # name -> (typespec, sig, default)
        for name, ts, sig, default in ps.get("fluents", ()):
            self.fluents[name] = (tuple(ts), tuple(sig), default)
        if ifun_impl is None:
            from mc.gen.problem import IFUNS

            ifun_impl = {name: IFUNS[key] for name, _r, _a, key in ps.get("ifuns", ())}
        self.ifuns = ifun_impl
        self.actions = {a["name"]: a for a in ps.get("actions", ())}
        self.action_order = [a["name"] for a in ps.get("actions", ())]
        self.goals = tuple(ps.get("goals", ()))
        self.invariants = []
        self.other_traj = []
        for tc in ps.get("traj", ()):
            self._split_traj(tc)
        self.ground_fluents = self._ground_fluents()

    # ------------------------------------------------------------------ structure
    def is_subtype(self, t, anc):
        while t is not None:
            if t == anc:
                return True
            t = self.types.get(t)
        return False

    def objs(self, tname):
        if tname not in self._objs_cache:
            self._objs_cache[tname] = [o for o, t in self.objects if self.is_subtype(t, tname)]
        return self._objs_cache[tname]

    def domain(self, ts):
        ts = tuple(ts)
        if ts[0] == "user":
            return self.objs(ts[1])
        if ts[0] == "bool":
            return [False, True]
        if ts[0] == "int" and ts[1] is not None and ts[2] is not None:
            return list(range(ts[1], ts[2] + 1))
        raise ValueError("no finite domain for %r" % (ts,))

    def _split_traj(self, tc):
        t = tc[0]
        if t == "always":
            self.invariants.append(tc[1])
        elif t == "and":
            for a in tc[1:]:
                self._split_traj(a)
        elif t == "forall" and tc[2][0] == "always":
            self.invariants.append(("forall", tc[1], tc[2][1]))
        elif t == "forall" and tc[2][0] in ("sometime", "amo", "sb", "sa"):
            self.other_traj.append(tc)
        elif t == "b" and tc[1] is True:
            pass
        else:
            self.other_traj.append(tc)

    def _ground_fluents(self):
        out = []
        for name, (ts, sig, default) in self.fluents.items():
            doms = [self.domain(pt) for _pn, pt in sig]
            for combo in product(*doms):
                out.append((name,) + tuple(combo))
        return out

    def interp(self, state, params=None):
        return Interp(state, params or {}, {}, self.objs, self.ifuns)

    # ------------------------------------------------------------------ states
    def initial_state(self):
        st = {}
        explicit = {}
        for fl, val in self.ps.get("init", ()):
            key = (fl[1],) + tuple(const_val(a) for a in fl[2:])
            explicit[key] = const_val(val)
        for key in self.ground_fluents:
            if key in explicit:
                st[key] = explicit[key]
            else:
                d = self.fluents[key[0]][2]
                if d is not None:
                    st[key] = const_val(d)
        return st

    def state_ok(self, state):
        """bounded types and invariants hold (undefined reads count as not holding)."""
        for key in self.ground_fluents:
            ts = self.fluents[key[0]][0]
            if ts[0] in ("int", "real") and (ts[1] is not None or ts[2] is not None):
                if key not in state:
                    return False
                v = state[key]
                lo, hi = _fr(ts[1]), _fr(ts[2])
                if lo is not None and v < lo:
                    return False
                if hi is not None and v > hi:
                    return False
        I = self.interp(state)
        for inv in self.invariants:
            if not truth(inv, I):
                return False
        return True

    def is_goal(self, state):
        I = self.interp(state)
        return all(truth(g, I) for g in self.goals)

    # ------------------------------------------------------------------ actions
    def ground_actions(self):
        out = []
        for an in self.action_order:
            a = self.actions[an]
            doms = [self.domain(pt) for _pn, pt in a["params"]]
            for combo in product(*doms):
                out.append((an, tuple(combo)))
        return out

    def fired_effects(self, state, effs, params):
        """[(target key, kind, value)] of the effects firing in `state`; raises Bottom if a
        needed read is undefined."""
        I = self.interp(state, params)
        fired = []
        for kind, fl, val, cond, fa in effs:
            doms = [self.objs(tn) for _vn, tn in fa]
            for combo in product(*doms):
                J = I.with_vars(dict(zip(fa, combo))) if fa else I
                target = (fl[1],) + tuple(ev(a, J) for a in fl[2:])
                if cond is not None and ev(cond, J) is not True:
                    continue
                fired.append((target, kind, ev(val, J)))
        return fired

    def combine(self, state, fired):
        """Apply a set of simultaneously firing effects; returns (new_state, None) or
        (None, reason)."""
        per = {}
        for target, kind, v in fired:
            per.setdefault(target, ([], []))
            if kind == "assign":
                per[target][0].append(v)
            elif kind == "inc":
                per[target][1].append(v)
            elif kind == "dec":
                per[target][1].append(-v)
            else:
                raise ValueError(kind)
        new = dict(state)
        for target, (A, D) in per.items():
            if A and D:
                return None, "conflict: assign + inc/dec on %r" % (target,)
            ts = self.fluents[target[0]][0]
            if A:
                if ts[0] == "bool":
                    new[target] = True if any(x is True for x in A) else False
                else:
                    if any(x != A[0] for x in A):
                        return None, "conflict: different values on %r" % (target,)
                    new[target] = norm(A[0])
            else:
                if target not in state:
                    return None, "inc/dec of undefined %r" % (target,)
                new[target] = norm(state[target] + sum(D))
        return new, None

    def apply(self, state, aname, args):
        """-> (successor, None) or (None, reason)"""
        a = self.actions[aname]
        params = dict(zip([pn for pn, _ in a["params"]], args))
        I = self.interp(state, params)
        for pre in a.get("pre", ()):
            if not truth(pre, I):
                return None, "precondition"
        try:
            fired = self.fired_effects(state, a.get("eff", ()), params)
        except Bottom as b:
            return None, "undefined read in effect: %s" % (b,)
        new, why = self.combine(state, fired)
        if new is None:
            return None, why
        if not self.state_ok(new):
            return None, "bounds/invariants"
        return new, None

    def rw_sets(self, state, aname, args):
        """(reads, writes) ground-fluent sets of the firing in `state` (for C27)."""
        a = self.actions[aname]
        params = dict(zip([pn for pn, _ in a["params"]], args))
        I = self.interp(state, params)
        reads, writes = set(), set()
        for pre in a.get("pre", ()):
            fluents_read(pre, I, reads)
        for kind, fl, val, cond, fa in a.get("eff", ()):
            doms = [self.objs(tn) for _vn, tn in fa]
            for combo in product(*doms):
                J = I.with_vars(dict(zip(fa, combo))) if fa else I
                for x in fl[2:]:
                    fluents_read(x, J, reads)
                if cond is not None:
                    fluents_read(cond, J, reads)
                try:
                    fires = cond is None or ev(cond, J) is True
                except Bottom:
                    fires = False
                if fires:
                    fluents_read(val, J, reads)
                    try:
                        t = (fl[1],) + tuple(ev(x, J) for x in fl[2:])
                        writes.add(t)
                        if kind != "assign":
                            reads.add(t)
                    except Bottom:
                        pass
        return reads, writes

    # ------------------------------------------------------------------ metrics
    def metric_value(self, states, steps):
        """Value of the (single) metric on an executed plan: states[0..n], steps[0..n-1]."""
        m = self.ps.get("metric")
        if m is None:
            return None
        k = m[0]
        if k == "len":
            return len(steps)
        if k == "costs":
            costs = dict(m[1])
            total = 0
            for st, (an, args) in zip(states, steps):
                ce = costs.get(an, m[2])
                if ce is None:
                    raise Bottom("no cost for " + an)
                a = self.actions[an]
                params = dict(zip([pn for pn, _ in a["params"]], args))
                total = total + ev(ce, self.interp(st, params))
            return norm(total)
        if k in ("minfinal", "maxfinal"):
            return norm(ev(m[1], self.interp(states[-1])))
        if k == "over":
            total = 0
            I = self.interp(states[-1])
            for g, w in m[1]:
                if ev(g, I) is True:
                    total = total + _fr(w)
            return norm(total)
        raise ValueError(m)

    # ------------------------------------------------------------------ search
    def reachable(self, depth, max_states=None):
        """BFS through the reference relation. -> (list of (state, depth)), edges dict
        (state index, ground action index) -> successor index | None."""
        init = self.initial_state()
        idx = {canon(init): 0}
        states = [(init, 0)]
        edges = {}
        gas = self.ground_actions()
        i = 0
        while i < len(states):
            st, d = states[i]
            if d < depth:
                for j, (an, args) in enumerate(gas):
                    nxt, _why = self.apply(st, an, args)
                    if nxt is None:
                        edges[(i, j)] = None
                        continue
                    k = canon(nxt)
                    if k not in idx:
                        if max_states is not None and len(states) >= max_states:
                            edges[(i, j)] = -1
                            continue
                        idx[k] = len(states)
                        states.append((nxt, d + 1))
                    edges[(i, j)] = idx[k]
            i += 1
        return states, edges, gas


def _fr(x):
    if x is None:
        return None
    if isinstance(x, (tuple, list)):
        return norm(Fraction(x[0], x[1]))
    return x
