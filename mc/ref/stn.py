"""Reference for simple temporal networks: difference constraints  x - y <= b.

Exact arithmetic (int / Fraction); plain Floyd-Warshall, nothing incremental.

Graph reading used throughout: the constraint  x - y <= b  is the edge  x -> y  of weight b
on the "distance" potentials d (d[y] <= d[x] + b); event times are t = -d, so the edge
says  t[x] - t[y] <= b.

  consistent(events, cons)      True iff the constraints have a solution
                                (iff no negative cycle)
  least_nonneg(events, cons)    None if inconsistent, else {event: time} = the componentwise
                                least solution with every time >= 0:
                                t[e] = max(0, max_u -sp(u, e)) = -min(0, min_u sp(u, e))
  satisfies(model, cons)        every constraint holds under the model

Why that is the least non-negative solution: for any solution t >= 0 and any path u ~> e of
weight w, summing the constraints along the path gives t[u] - t[e] <= w, so
t[e] >= t[u] - w >= -w; and the stated vector is itself a solution (shortest-path potentials
from a virtual source with 0-weight edges to every event).
"""
from __future__ import annotations

INF = None  # "no path"


def _add(a, b):
    if a is None or b is None:
        return None
    return a + b


def _lt(a, b):
    """a < b with None = +infinity."""
    if a is None:
        return False
    if b is None:
        return True
    return a < b


def shortest_paths(events, cons):
    """All-pairs shortest paths; returns (dist, negative_cycle)."""
    ev = list(events)
    d = {u: {v: (0 if u == v else INF) for v in ev} for u in ev}
    for x, y, b in cons:
        if _lt(b, d[x][y]):
            d[x][y] = b
    for k in ev:
        dk = d[k]
        for i in ev:
            dik = d[i][k]
            if dik is None:
                continue
            di = d[i]
            for j in ev:
                c = _add(dik, dk[j])
                if _lt(c, di[j]):
                    di[j] = c
    neg = any(d[u][u] < 0 for u in ev)
    return d, neg


def consistent(events, cons):
    return not shortest_paths(events, cons)[1]


def least_nonneg(events, cons):
    d, neg = shortest_paths(events, cons)
    if neg:
        return None
    out = {}
    for e in events:
        m = 0
        for u in events:
            w = d[u][e]
            if w is not None and w < m:
                m = w
        out[e] = -m
    return out


def satisfies(model, cons):
    return all(model[x] - model[y] <= b for x, y, b in cons)
