"""Reference substitution on expression specs (C13's statement, literally).

subst(e, m):  top-down; a node that IS a key is replaced by the key's value and the inserted
value is not visited again; otherwise the node is rebuilt from its substituted children.  Below
a quantifier, every key that mentions (free) a variable bound by that quantifier is inactive.
Plain recursion on a tree, no sharing, no memo.

compatible(k, v): may the value replace the key?  True / False / None.  False = different kinds
(bool / numeric / user type, real into int, user type that is not a subtype).  None = not decided
by the statement: numeric kinds fit but the intervals are disjoint, or an interval comes from
type inference of a compound term (C15's subject).
"""
from __future__ import annotations

from fractions import Fraction

from mc.gen import uexpr as U


def subst(s, m):
    if s in m:
        return m[s]
    t = s[0]
    if t in ("b", "i", "r", "o", "p", "v"):
        return s
    if t in ("exists", "forall"):
        bound = set(tuple(x) for x in s[1])
        m2 = {k: v for k, v in m.items() if not (U.free_vars(k) & bound)}
        return (t, s[1], subst(s[2], m2))
    start = 2 if t in ("f", "ifun") else 1
    return s[:start] + tuple(subst(a, m) for a in s[start:])


def _fr(x):
    if x is None:
        return None
    if isinstance(x, (tuple, list)):
        return Fraction(x[0], x[1])
    return Fraction(x)


def declared_interval(s):
    """(kind, lo, hi) of a numeric LEAF from its declaration, None for anything else."""
    t = s[0]
    if t == "i":
        return ("int", Fraction(s[1]), Fraction(s[1]))
    if t == "r":
        v = Fraction(s[1], s[2])
        return ("real", v, v)
    ts = None
    if t == "p":
        ts = U.PARAMS[s[1]]
    elif t == "f":
        ts = U.FLUENTS[s[1]][0]
    elif t == "ifun":
        ts = U.IFUNS[s[1]][0]
    if ts is None or ts[0] not in ("int", "real"):
        return None
    return (ts[0], _fr(ts[1]), _fr(ts[2]))


def compatible(k, v):
    sk, sv = U.sort_of(k), U.sort_of(v)
    if sk == "bool" or sv == "bool":
        return sk == sv
    k_user, v_user = sk not in U.NUM, sv not in U.NUM
    if k_user or v_user:
        return k_user and v_user and U.subtype(sv, sk)
    if sk == "int" and sv == "real":
        return False
    ik, iv = declared_interval(k), declared_interval(v)
    if ik is None or iv is None:
        return None
    _, klo, khi = ik
    _, vlo, vhi = iv
    # same numeric kind, disjoint DECLARED intervals (i:int[0,2] := 7): the library's notion of
    # compatibility rejects it, the property statement does not say -> not decided here
    if vhi is not None and klo is not None and vhi < klo:
        return None
    if vlo is not None and khi is not None and vlo > khi:
        return None
    return True
