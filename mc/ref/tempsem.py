"""Reference semantics of time-triggered plans on problem specs (DESIGN Appendix A.2).

plan: list of (start: Fraction, action name, args tuple, duration: Fraction | None)

validate(ref_problem, plan) -> ("VALID" | "INVALID" | "AMBIGUOUS", reason)
AMBIGUOUS marks plans the property statement does not decide (documented scope notes):
  * two DIFFERENT plan steps (or a step and a timed effect) assigning the SAME value to one
    fluent at one instant,
  * an empty condition interval (lo > hi),
  * an effect scheduled before time 0.
"""
from __future__ import annotations

from fractions import Fraction

from .eval import Bottom, ev, truth, norm
from .seqsem import RefProblem, _fr


def abs_time(timing, start, dur, plan_end=None):
    kind, delay = timing
    delay = _fr(delay)
    if kind == "start":
        return start + delay
    if kind == "end":
        return start + dur + delay
    if kind == "gstart":
        return Fraction(0) + delay
    if kind == "gend":
        return None  # "until the end of the plan"
    raise ValueError(timing)


class TempRef(RefProblem):
    def __init__(self, ps, ifun_impl=None):
        RefProblem.__init__(self, ps, ifun_impl)
        self.dactions = {a["name"]: a for a in ps.get("dactions", ())}
        self.teffs = tuple(ps.get("teffs", ()))
        self.tgoals = tuple(ps.get("tgoals", ()))

    def validate(self, plan, check_invariants=False):
        # ---- collect happenings -------------------------------------------------------
        events = {}  # time -> list of (owner id, effect specs, params)
        conds = []  # (lo, hi|None, lopen, cond, params, owner)
        durs = []  # (time, lo_expr, hi_expr, lopen, ropen, dur, params)
        pres = []  # (time, cond, params)
        for sid, (start, an, args, dur) in enumerate(plan):
            start = Fraction(start)
            if an in self.dactions:
                a = self.dactions[an]
                params = dict(zip([pn for pn, _ in a["params"]], args))
                if dur is None:
                    return "INVALID", "durative action without duration"
                dur = Fraction(dur)
                lo, hi, lop, rop = a["dur"]
                durs.append((start, lo, hi, lop, rop, dur, params))
                for tm, e in a.get("effs", ()):
                    t = abs_time(tm, start, dur)
                    if t < 0:
                        return "AMBIGUOUS", "effect before time 0"
                    events.setdefault(t, []).append((("step", sid), (e,), params))
                for iv, cnd in a.get("conds", ()):
                    lo_t = abs_time(iv[0], start, dur)
                    hi_t = abs_time(iv[1], start, dur)
                    if lo_t > hi_t:
                        return "AMBIGUOUS", "empty condition interval"
                    conds.append((lo_t, hi_t, bool(iv[2]), cnd, params, bool(iv[3])))
            else:
                a = self.actions[an]
                params = dict(zip([pn for pn, _ in a["params"]], args))
                for pre in a.get("pre", ()):
                    pres.append((start, pre, params))
                if a.get("eff"):
                    events.setdefault(start, []).append((("step", sid), tuple(a["eff"]), params))
        for tm, e in self.teffs:
            t = abs_time(tm, Fraction(0), None)
            events.setdefault(t, []).append((("timed", repr(tm)), (e,), {}))
        tgoals = []
        for iv, g in self.tgoals:
            lo_t = abs_time(iv[0], Fraction(0), None)
            hi_t = abs_time(iv[1], Fraction(0), None)
            if hi_t is not None and lo_t > hi_t:
                return "AMBIGUOUS", "empty timed-goal interval"
            tgoals.append((lo_t, hi_t, bool(iv[2]), g, {}, bool(iv[3])))

        # ---- run ----------------------------------------------------------------------
        times = sorted(events)
        before = {}  # t -> S_before(t)
        after = {}  # t -> S_after(t)
        cur = self.initial_state()
        init = cur
        for t in times:
            before[t] = cur
            # merge effects of one owner (several effect lists of the same step at the same
            # instant count as one action's effect list)
            by_owner = {}
            for owner, effs, params in events[t]:
                by_owner.setdefault(owner, []).append((effs, params))
            per_target = {}  # target -> list of (owner, kind, value)
            for owner, lst in by_owner.items():
                fired_all = []
                for effs, params in lst:
                    try:
                        fired_all.extend(self.fired_effects(cur, effs, params))
                    except Bottom as b:
                        return "INVALID", "undefined read in effect at %s" % t
                # within one owner: sequential-semantics combination
                own = {}
                for target, kind, v in fired_all:
                    own.setdefault(target, ([], []))
                    if kind == "assign":
                        own[target][0].append(v)
                    else:
                        own[target][1].append(v if kind == "inc" else -v)
                for target, (A, D) in own.items():
                    if A and D:
                        return "INVALID", "assign + inc/dec at %s" % t
                    ts = self.fluents[target[0]][0]
                    if A:
                        if ts[0] == "bool":
                            val = True if any(x is True for x in A) else False
                        else:
                            if any(x != A[0] for x in A):
                                return "INVALID", "conflicting assignments at %s" % t
                            val = norm(A[0])
                        per_target.setdefault(target, []).append((owner, "assign", val))
                    else:
                        per_target.setdefault(target, []).append((owner, "delta", sum(D)))
            new = dict(cur)
            for target, lst in per_target.items():
                assigns = [x for x in lst if x[1] == "assign"]
                deltas = [x for x in lst if x[1] == "delta"]
                if assigns and deltas:
                    return "INVALID", "assign + inc/dec by different actions at %s" % t
                if len(assigns) > 1:
                    vals = [x[2] for x in assigns]
                    if any((v is not vals[0]) if isinstance(v, bool) else (v != vals[0]) for v in vals):
                        return "INVALID", "different values assigned at %s" % t
                    return "AMBIGUOUS", "same value assigned by different actions at one instant"
                if assigns:
                    new[target] = assigns[0][2]
                else:
                    if target not in cur:
                        return "INVALID", "inc/dec of undefined fluent at %s" % t
                    new[target] = norm(cur[target] + sum(x[2] for x in deltas))
            cur = new
            after[t] = cur
        final = cur

        def s_before(t):
            if t in before:
                return before[t]
            prev = [x for x in times if x < t]
            return after[prev[-1]] if prev else init

        def s_after(t):
            if t in after:
                return after[t]
            return s_before(t)

        def holds(cond, params, st):
            return truth(cond, self.interp(st, params))

        # durations (evaluated in the state before the start)
        for start, lo, hi, lop, rop, dur, params in durs:
            I = self.interp(s_before(start), params)
            try:
                lo_v, hi_v = ev(lo, I), ev(hi, I)
            except Bottom:
                return "INVALID", "duration bound undefined"
            if (dur <= lo_v) if lop else (dur < lo_v):
                return "INVALID", "duration below lower bound"
            if (dur >= hi_v) if rop else (dur > hi_v):
                return "INVALID", "duration above upper bound"
        # instantaneous preconditions
        for t, pre, params in pres:
            if not holds(pre, params, s_before(t)):
                return "INVALID", "precondition"
        # durative conditions and timed goals
        for lo_t, hi_t, lopen, cond, params, ropen in conds + tgoals:
            if hi_t is not None and lo_t == hi_t:
                if not lopen and ropen:
                    return "AMBIGUOUS", "point interval [t,t)"
                if not lopen:
                    # only the closed-closed point interval has content (left-closed is
                    # what the library records; right-open point intervals are vacuous)
                    if not holds(cond, params, s_before(lo_t)):
                        return "INVALID", "point condition"
                continue
            if not lopen and not holds(cond, params, s_before(lo_t)):
                return "INVALID", "condition at interval start"
            if not holds(cond, params, s_after(lo_t)):
                return "INVALID", "condition just after interval start"
            for t in times:
                if lo_t < t and (hi_t is None or t < hi_t):
                    if not holds(cond, params, after[t]):
                        return "INVALID", "condition inside interval"
        if check_invariants:
            for st in [init] + [after[t] for t in times]:
                if not self.state_ok(st):
                    return "INVALID", "bounds/invariants"
        if not self.is_goal(final):
            return "INVALID", "goal"
        return "VALID", None
