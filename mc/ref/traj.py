"""PDDL3 trajectory constraints over a finite state sequence s0..sn (DESIGN A.3).
Works on expression specs; `holds(expr, state)` is supplied by the caller."""
from __future__ import annotations

from itertools import product


def check(tc, states, holds, objs):
    """tc: trajectory-constraint spec; holds(expr_spec, state, var_assignment) -> bool"""
    return _chk(tc, states, holds, objs, {})


def _chk(tc, states, holds, objs, va):
    t = tc[0]
    if t == "and":
        return all(_chk(a, states, holds, objs, va) for a in tc[1:])
    if t == "forall":
        doms = [objs(tn) for _n, tn in tc[1]]
        for combo in product(*doms):
            v = dict(va)
            v.update(dict(zip(tc[1], combo)))
            if not _chk(tc[2], states, holds, objs, v):
                return False
        return True
    if t == "b":
        return bool(tc[1])
    h = [None] * len(states)

    def H(e):
        return [holds(e, s, va) for s in states]

    if t == "always":
        return all(H(tc[1]))
    if t == "sometime":
        return any(H(tc[1]))
    if t == "amo":
        x = H(tc[1])
        # the set {i | phi(si)} is one (possibly empty) contiguous block
        idx = [i for i, v in enumerate(x) if v]
        return not idx or idx == list(range(idx[0], idx[-1] + 1))
    if t == "sa":
        x, y = H(tc[1]), H(tc[2])
        return all((not x[i]) or any(y[j] for j in range(i, len(states))) for i in range(len(states)))
    if t == "sb":
        x, y = H(tc[1]), H(tc[2])
        return all((not x[i]) or any(y[j] for j in range(0, i)) for i in range(len(states)))
    raise ValueError("not a trajectory constraint: %r" % (tc,))
