import sys
from mc.kernel.runner import main

if __name__ == "__main__":
    sys.exit(main())
